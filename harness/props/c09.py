"""C09 — Spectral / GSVD / SVD / PCA / RandomProjection / LouvainEmbedding satisfy their defining equations.

Three layers, all on the real implementation (scratch build):
  ORACLE          dense NumPy evaluation of the DOCUMENTED matrices and formulas on the estimator's outputs
                  (independent of the Coq model);
  VALIDATORS      the proved executable checks eig_residual_check / svd_residual_check evaluated inside Coq on
                  outputs converted exactly to rationals;
  CORRESPONDENCE  the Coq wrapper models fed with the captured raw ARPACK / Louvain answers and with np.sqrt /
                  np.power answers to the questions the model asks, compared with the estimator's attributes.
"""
import time
from concurrent.futures import ThreadPoolExecutor
from fractions import Fraction

import numpy as np

from .. import gen
from ..common import cnat, cq, cbool, clist, safe_coq_eval
from ..impl import Impl

IMPORTS = ['Base.Util', 'Base.QMat', 'Model.Embedding']
TOL = 1e-9          # float64 paths (DESIGN App. C)
RES = 1e-7          # ARPACK residuals, relative to ||M||
SPEC = 1e-6         # comparison with a dense spectrum (ties within 1e-6 are interchangeable)
EPS_Q = Fraction(1, 10 ** 6)   # eps of the Coq validators
COQ_WALL = {}
REGS = [-1, 0, 0.1, 1]


# ------------------------------------------------------------------------------------------------
# literals and small helpers
# ------------------------------------------------------------------------------------------------
def qv(v):
    return clist([cq(Fraction(x)) for x in v])


def qm(m):
    return clist([qv(r) for r in m])


def tab(keys, vals):
    return '(tabfun %s)' % clist(['(%s, %s)' % (cq(Fraction(k)), cq(Fraction(float(v)))) for k, v in zip(keys, vals)])


# Coq prints some rationals with its decimal / hexadecimal number notation (0.5, 0x0.8); results are therefore
# returned as reduced (numerator, denominator) pairs of integers.
PRELUDE = ('Definition qz (q : Q) := let r := Qred q in (Qnum r, Zpos (Qden r)).\n'
           'Definition vz (v : list Q) := map qz v.\nDefinition mz (m : list (list Q)) := map vz m.\n')


class ModelDead(Exception):
    """The model no longer evaluates (already recorded in proof_broken by safe_coq_eval).  Raised inside the chains below, which
    are pure model-side work (wrapper models fed with the captured solver output, validators run inside Coq), and caught at
    the chain boundary in run(): the chain is abandoned, the dense NumPy oracles have judged every fit before."""


def ceval(ctx, tag, exprs, **kw):
    # about eight shards per call: coq_eval runs the shards of one call in parallel
    kw.setdefault('shard', max(1, -(-len(exprs) // 8)))
    t = time.time()
    try:
        vals = safe_coq_eval(ctx, tag, IMPORTS, exprs, prelude=PRELUDE, **kw)
    finally:
        COQ_WALL[tag] = round(COQ_WALL.get(tag, 0) + time.time() - t, 1)
    if vals is None:
        raise ModelDead(tag)
    return vals


def fr(p):
    return Fraction(p[0], p[1])


def frv(v):
    return [fr(p) for p in v]


def frm(m):
    return [frv(r) for r in m]


def fl(x):
    return float(x)


def close(a, b, tol=TOL):
    a = np.asarray(a, dtype=float)
    b = np.asarray(b, dtype=float)
    if a.shape != b.shape:
        return False
    if a.size == 0:
        return True
    if not (np.isfinite(a).all() and np.isfinite(b).all()):
        return False
    return bool((np.abs(a - b) <= tol * np.maximum(1.0, np.maximum(np.abs(a), np.abs(b)))).all())


def dense(spec):
    r, c = spec['shape']
    m = np.zeros((r, c))
    for (i, j, w) in spec['coo']:
        m[i, j] += w
    return m


def stacked(b):
    r, c = b.shape
    return np.block([[np.zeros((r, r)), b], [b.T, np.zeros((c, c))]])


def strongly_connected(a):
    n = a.shape[0]

    def reach(m):
        seen = {0}
        todo = [0]
        while todo:
            u = todo.pop()
            for v in np.nonzero(m[u])[0]:
                if int(v) not in seen:
                    seen.add(int(v))
                    todo.append(int(v))
        return len(seen) == n
    return reach(a) and reach(a.T)


def pinv_vec(x):
    x = np.asarray(x, dtype=float)
    out = np.zeros_like(x)
    nz = x != 0
    out[nz] = 1.0 / x[nz]
    return out


def row_normalize(e):
    e = np.asarray(e, dtype=float)
    nrm = np.sqrt((e ** 2).sum(axis=1)) if e.shape[1] else np.zeros(e.shape[0])
    return e * pinv_vec(nrm)[:, None]


def resolve_reg(reg, a):
    if reg < 0:
        return 0.0 if strongly_connected(a) else abs(reg)
    return float(reg)


def mspec(shape, triples, rng):
    ints = all(float(w).is_integer() for (_, _, w) in triples)
    dtype = rng.choice(['int', 'float']) if ints else 'float'
    return {'shape': list(shape), 'coo': [[i, j, w] for (i, j, w) in triples], 'dtype': dtype, 'fmt': 'csr'}


def gen_matrix(rng, kind, nmax):
    """kind: 'undirected' (symmetric adjacency), 'directed' (square), 'bipartite' (rectangular biadjacency).
    Returns (spec, family); at least one edge, small integer / dyadic weights."""
    while True:
        if kind == 'bipartite':
            r, c, e = gen.random_biadj(rng, max(2, nmax // 2), max(2, nmax - nmax // 2))
            if r + c < 4 or r == c or not e:
                continue
            tr, wk = gen.random_weights(rng, e, directed=True)
            return mspec((r, c), tr, rng), 'biadj_' + wk
        n, e, fam = gen.random_graph(rng, nmax, directed=(kind == 'directed'), nmin=3)
        if not e:
            continue
        tr, wk = gen.random_weights(rng, e, directed=(kind == 'directed'))
        return mspec((n, n), tr, rng), '%s_%s_%s' % (kind[:3], fam, wk)


def stacked_connected(spec, force_bipartite=False, allow_directed=False):
    b = dense(spec)
    nr, nc = b.shape
    bip = force_bipartite or nr != nc or not (allow_directed or np.array_equal(b, b.T))
    return strongly_connected(stacked(b) if bip else b)


def gen_history(rng, kinds, nmax, last_spec, allow_directed=False):
    """Refit family: one or two earlier graphs for the SAME estimator object, of kinds contrasting with the last
    graph: other shape class (square / rectangular), other size, and - for half of the sequences, enforced - the
    opposite connectivity, so that anything an earlier fit leaves behind on the object (a resolved regularisation,
    weights, labels, a solver state) shows in the last fit."""
    want = not stacked_connected(last_spec, allow_directed=allow_directed) if rng.random() < 0.5 else None
    hist = []
    for _ in range(rng.choice([1, 1, 2])):
        for _try in range(12):
            spec, _fam = gen_matrix(rng, rng.choice(kinds), rng.choice([6, nmax]))
            if want is None or stacked_connected(spec, allow_directed=allow_directed) == want:
                break
        hist.append(dict(m=spec))
    return hist


# ------------------------------------------------------------------------------------------------
# Spectral
# ------------------------------------------------------------------------------------------------
def spectral_setup(case):
    b = dense(case['m'])
    nr, nc = b.shape
    bip = bool(case['force_bipartite'] or nr != nc or not np.array_equal(b, b.T))
    a = stacked(b) if bip else b
    reg = resolve_reg(case['regularization'], a)
    return b, a, bip, reg


def spectral_oracle(ctx, case, out):
    """Dense check of the documented equations on the estimator's attributes. Returns a status string."""
    b, a, bip, reg = spectral_setup(case)
    n = a.shape[0]
    rw = case['decomposition'] == 'rw'
    k = min(case['n_components'], n - 2)
    site = 'Spectral.fit'

    def bad(what, **kw):
        ctx.violation(site, what, case=case, decomposition=case['decomposition'], regularization=case['regularization'],
                      normalized=case['normalized'], refit='history' in case, **kw)
        return 'violation'
    vals = np.asarray(out['eigenvalues'], dtype=float)
    vecs = np.asarray(out['eigenvectors'], dtype=float)
    if out['bipartite'] != bip:
        return bad('bipartite flag differs from the documented rule', check='bipartite', expected=bip, observed=out['bipartite'])
    if out['regularized'] != (reg > 0):
        return bad('regularisation is not applied exactly when documented (negative = only if disconnected)',
                   check='regularized', expected=reg > 0, observed=out['regularized'])
    if vals.shape != (k,) or vecs.shape != (n, k):
        return bad('wrong shapes', check='shape', expected=[k, [n, k]], observed=[list(vals.shape), list(vecs.shape)])
    w = a.sum(axis=1)
    d = w + reg
    areg = a + reg / n
    if rw:
        if (d <= 0).any():
            return 'excluded_undefined_P'    # D^-1 does not exist: the documented matrix is undefined
        m = areg / d[:, None]
        s = areg / np.sqrt(np.outer(d, d))
        spec = np.sort(np.linalg.eigvalsh((s + s.T) / 2))[::-1]
        ordered = bool((np.diff(vals) <= TOL).all())
    else:
        m = np.diag(d) - areg
        spec = np.sort(np.linalg.eigvalsh((m + m.T) / 2))
        ordered = bool((np.diff(vals) >= -TOL).all())
    scale = max(1.0, float(np.abs(m).sum(axis=1).max()))
    resid = float(np.abs(m @ vecs - vecs * vals[None, :]).max()) if k else 0.0
    if not resid <= RES * scale:
        return bad('returned (eigenvalue, eigenvector) does not satisfy the equation of the documented matrix',
                   check='residual', observed=resid, bound=RES * scale)
    if k and float(np.sqrt((vecs ** 2).sum(axis=0)).min()) < 1e-8:
        return bad('a returned eigenvector is null', check='null_vector')
    if not ordered:
        return bad('eigenvalues are not in the documented order', check='order', observed=vals.tolist())
    expected = spec[1:1 + k]
    if not float(np.abs(vals - expected).max() if k else 0.0) <= SPEC * scale:
        return bad('returned eigenvalues are not the documented extreme ones after skipping the first',
                   check='extreme', expected=expected.tolist(), observed=vals.tolist(), spectrum=spec.tolist())
    # embedding
    if bip:
        emb = np.asarray(out['embedding_row'] + out['embedding_col'], dtype=float).reshape(n, k)
        if not np.array_equal(np.asarray(out['embedding'], dtype=float).reshape(-1, k), emb[:b.shape[0]]):
            return bad('embedding_ is not embedding_row_', check='split')
    else:
        emb = np.asarray(out['embedding'], dtype=float).reshape(n, k)
    if case['normalized']:
        nrm = np.sqrt((vecs ** 2).sum(axis=1))
        enrm = np.sqrt((emb ** 2).sum(axis=1))
        for i in range(n):
            if nrm[i] == 0:
                if enrm[i] != 0:
                    return bad('null row does not stay null', check='unit_norm', row=i)
            elif abs(enrm[i] - 1) > TOL:
                return bad('normalized=True but a non-null row does not have unit norm', check='unit_norm', row=i,
                           observed=float(enrm[i]))
        if not close(emb, row_normalize(vecs)):
            return bad('embedding is not the row-normalised eigenvector matrix', check='embedding')
    elif not np.array_equal(emb, vecs):
        return bad('embedding differs from the eigenvectors', check='embedding')
    if not np.array_equal(np.asarray(out['predict'], dtype=float).reshape(-1, k),
                          np.asarray(out['embedding'], dtype=float).reshape(-1, k)):
        return bad('predict() differs from embedding_', check='predict')
    return 'ok'


def spectral_exact_matrix(case):
    """The documented matrix in exact rationals (for the Coq validator)."""
    b, a, bip, reg = spectral_setup(case)
    n = a.shape[0]
    fa = [[Fraction(float(x)) for x in row] for row in a]
    freg = Fraction(reg)
    areg = [[x + freg / n for x in row] for row in fa]
    d = [sum(row) for row in areg]
    if case['decomposition'] == 'rw':
        return [[x / d[i] for x in row] for i, row in enumerate(areg)]
    return [[(d[i] if i == j else 0) - x for j, x in enumerate(row)] for i, row in enumerate(areg)]


def spectral_model_args(case, out):
    b, a, bip, reg = spectral_setup(case)
    sol = out['solver']
    sv = sol['values']
    sV = sol['vectors']
    argsort = [int(i) for i in np.argsort(np.asarray(sv, dtype=float))]
    nr, nc = b.shape
    adj = '(fst (get_adjacency false %s %d %d %s))' % (cbool(case['force_bipartite']), nr, nc, qm(b.tolist()))
    regl = '(get_regularization %s %s)' % (cq(Fraction(case['regularization'])), cbool(strongly_connected(a)))
    return dict(adj=adj, reg=regl, sv=qv(sv), sV=qm(sV), argsort=clist(argsort, cnat), rw=case['decomposition'] == 'rw',
                k=len(sv))


def run_spectral_correspondence(ctx, items):
    """items: list of (case, out). Three oracle rounds inside Coq, then the comparison."""
    if not items:
        return
    args = [spectral_model_args(c, o) for (c, o) in items]
    ident = '(fun q : Q => q)'
    keys1 = [frv(v) for v in ceval(ctx, 'c09sk', ['vz (spectral_sqrt_keys %s %s)' % (a['adj'], a['reg']) for a in args])]
    t1 = [tab(k, np.sqrt(np.array([float(x) for x in k]))) if a['rw'] else ident for a, k in zip(args, keys1)]
    keys2 = [frv(v) for v in ceval(ctx, 'c09sn', ['vz (spectral_norm_keys %s %s %s %s %s %s %s)' % (
        t, cbool(a['rw']), a['adj'], a['reg'], a['sv'], a['sV'], a['argsort']) for a, t in zip(args, t1)])]
    t2 = [tab(k, np.sqrt(np.array([float(x) for x in k]))) if c['normalized'] else ident
          for (c, _), k in zip(items, keys2)]
    fits = ceval(ctx, 'c09sf', [
        "let '(a, b, c) := spectral_fit %s %s %s %s %s %s %s %s %s in (vz a, mz b, mz c)" % (
            ta, tb, cbool(a['rw']), cbool(c['normalized']), a['adj'], a['reg'], a['sv'], a['sV'], a['argsort'])
        for (c, _), a, ta, tb in zip(items, args, t1, t2)])
    # run-time check of the solver contract (hypothesis of spectral_backtransform) on the captured pairs
    contract = ceval(ctx, 'c09sc', [
        'map (fun j => all_le %s (vsub (spectral_operator %s %s %s %s (col j %s)) (vscale (nthq %s j) (col j %s)))) (seq 0 %d)' % (
            cq(EPS_Q), ta, cbool(a['rw']), a['adj'], a['reg'], a['sV'], a['sv'], a['sV'], a['k'])
        for a, ta in zip(args, t1)])
    for (case, out), fit, ok in zip(items, fits, contract):
        ev, evec, emb = frv(fit[0]), frm(fit[1]), frm(fit[2])
        n = len(evec)
        k = len(ev)
        if out['bipartite']:
            impl_emb = out['embedding_row'] + out['embedding_col']
        else:
            impl_emb = out['embedding']
        good = close([fl(x) for x in ev], out['eigenvalues']) and \
            close(np.array([[fl(x) for x in r] for r in evec]).reshape(n, k), np.asarray(out['eigenvectors']).reshape(n, k)) and \
            close(np.array([[fl(x) for x in r] for r in emb]).reshape(n, k), np.asarray(impl_emb).reshape(n, k))
        ctx.count('corr:spectral', ('corr', case), True)
        if not good:
            ctx.violation('Spectral.fit', 'implementation differs from the Coq wrapper model fed with the captured solver output',
                          case=case, check='correspondence', expected=dict(eigenvalues=[fl(x) for x in ev]),
                          observed=dict(eigenvalues=out['eigenvalues']))
        if not all(ok):
            ctx.violation('LanczosEig.fit', 'captured ARPACK pairs do not satisfy the operator equation (oracle contract)',
                          case=case, check='solver_contract', observed=ok)


# ------------------------------------------------------------------------------------------------
# GSVD / SVD / PCA
# ------------------------------------------------------------------------------------------------
def gsvd_setup(case):
    a = dense(case['m'])
    nr, nc = a.shape
    kind = case['kind']
    if kind == 'PCA':
        m = a - a.mean(axis=0)[None, :]
        return a, m, np.ones(nr), np.ones(nc), a.sum(axis=0)
    reg = case.get('regularization') or 0
    areg = a + reg / nc if reg else a
    wr = areg.sum(axis=1)
    wc = areg.sum(axis=0)
    fr = case['factor_row'] if kind == 'GSVD' else 0.
    fc = case['factor_col'] if kind == 'GSVD' else 0.
    dr = pinv_vec(np.power(wr, fr))
    dc = pinv_vec(np.power(wc, fc))
    m = dr[:, None] * areg * dc[None, :]
    return a, m, dr, dc, wc


def gsvd_oracle(ctx, case, out):
    kind = case['kind']
    a, m, dr, dc, wc = gsvd_setup(case)
    nr, nc = a.shape
    k = case['n_components']
    fs = case.get('factor_singular', 0.)
    site = kind + '.fit'
    common = dict(kind=kind, normalized=case['normalized'], factor_singular=fs,
                  factor_row=case.get('factor_row'), factor_col=case.get('factor_col'),
                  regularization=case.get('regularization'))

    def bad(what, site=site, **kw):
        f = dict(common, refit='history' in case)
        f.update(kw)
        ctx.violation(site, what, case=case, **f)
        return 'violation'
    u = np.asarray(out['left'], dtype=float).reshape(nr, -1)
    s = np.asarray(out['singular_values'], dtype=float)
    v = np.asarray(out['right'], dtype=float).reshape(nc, -1)
    if s.shape != (k,) or u.shape != (nr, k) or v.shape != (nc, k):
        return bad('wrong shapes', check='shape')
    scale = max(1.0, float(np.abs(m).sum(axis=1).max()), float(np.abs(m).sum(axis=0).max()))
    r1 = float(np.abs(m @ v - u * s[None, :]).max())
    r2 = float(np.abs(m.T @ u - v * s[None, :]).max())
    if not max(r1, r2) <= RES * scale:
        return bad('returned triples do not satisfy the singular equations of the documented matrix', check='residual',
                   observed=[r1, r2], bound=RES * scale)
    if not (np.diff(s) <= TOL).all():
        return bad('singular values are not in decreasing order', check='order', observed=s.tolist())
    top = np.linalg.svd(m, compute_uv=False)[:k]
    if not float(np.abs(s - top).max()) <= SPEC * scale:
        return bad('returned singular values are not the largest ones', check='extreme', expected=top.tolist(), observed=s.tolist())
    status = 'ok'
    # embedding formula as documented
    if kind == 'PCA':
        er, ec = u, v
    else:
        er = dr[:, None] * u * np.power(s, 1 - fs)[None, :]
        ec = dc[:, None] * v * np.power(s, fs)[None, :]
        if not close(out['weights_col'], wc):
            return bad('weights_col_ is not the column sums of the regularised matrix', check='weights_col')
    ir = np.asarray(out['embedding_row'], dtype=float).reshape(nr, k)
    ic = np.asarray(out['embedding_col'], dtype=float).reshape(nc, k)
    if not np.array_equal(np.asarray(out['embedding'], dtype=float).reshape(nr, k), ir):
        return bad('embedding_ is not embedding_row_', check='split')
    if case['normalized']:
        for name, e, raw in (('row', ir, er), ('col', ic, ec)):
            nrm = np.sqrt((e ** 2).sum(axis=1))
            rawn = np.sqrt((raw ** 2).sum(axis=1))
            for i in range(len(nrm)):
                if rawn[i] != 0 and abs(nrm[i] - 1) > TOL:
                    bad('normalized=True but a non-null embedding vector does not have unit norm', check='unit_norm',
                        which=name, row=i, observed=float(nrm[i]))
                    status = 'violation'
                    break
        er, ec = row_normalize(er), row_normalize(ec)
    if status == 'ok' and not (close(ir, er) and close(ic, ec)):
        return bad('embedding is not formed from the singular triples as documented', check='embedding')
    # predict on rows of the fitted matrix
    smin, smax = (float(s.min()), float(s.max())) if k else (1.0, 1.0)
    ratio = smin / smax if smax > 0 else 0.0
    # rows whose exact embedding is null come out as round-off noise; normalisation turns the noise into an arbitrary
    # unit vector in fit and in predict alike: not comparable (dropped and counted)
    rawn = np.sqrt((np.asarray(er if not case['normalized'] else raw_row(kind, dr, u, s, fs)) ** 2).sum(axis=1))
    noise = rawn <= 1e-9 * max(float(rawn.max()) if len(rawn) else 0.0, 1e-300)
    nonnull = np.abs(a).sum(axis=1) > 0
    fsp = 1.0 if kind == 'PCA' else fs     # PCA.predict divides by sigma
    for key, res in sorted(out['predict'].items()):
        i = int(key)
        psite = kind + '.predict'
        if case['normalized'] and noise[i] and 'ok' in res:
            ctx.margin_dropped += 1
            continue
        if 'err' in res:
            bad('predict on a row of the fitted matrix raises', site=psite, check='predict', err=res['err'], row=i)
            status = 'violation'
            continue
        degenerate = fsp > 0 and ratio < 1e-9
        if fsp > 0 and 1e-9 <= ratio < 1e-5:
            ctx.margin_dropped += 1      # ill-conditioned division by sigma^fs: dropped, not judged
            continue
        got = np.asarray(res['ok'], dtype=float)
        if not close(got.reshape(-1), ir[i], 1e-7):
            bad('predict on a row of the fitted matrix does not reproduce that row\'s embedding', site=psite, check='predict',
                cause='zero_singular_value' if degenerate else 'mismatch', row=i,
                expected=ir[i].tolist(), observed=got.tolist())
            status = 'violation'
    if out.get('predict_all') is not None and 'ok' in out['predict_all'] and not (fsp > 0 and ratio < 1e-5):
        got = np.asarray(out['predict_all']['ok'], dtype=float).reshape(nr, k)
        keep = nonnull & ~(noise if case['normalized'] else np.zeros(nr, dtype=bool))
        if not close(got[keep], ir[keep], 1e-7):
            bad('predict on the fitted matrix does not reproduce embedding_row_', site=kind + '.predict', check='predict',
                cause='mismatch', row='all')
            status = 'violation'
    return status


def raw_row(kind, dr, u, s, fs):
    """Row embedding before normalisation, from the returned triples."""
    if kind == 'PCA':
        return u
    return dr[:, None] * u * np.power(s, 1 - fs)[None, :]


def judge_model_predict(ctx, case, out, row, model, got):
    """Model-vs-implementation comparison of predict on one row, consistent with the oracle:
      * a captured singular value below 1e-9 of the largest while predict divides by sigma^fs (fs > 0; PCA: fs = 1):
        a mismatch is the recorded zero-singular-value finding (check='predict', cause='zero_singular_value'), not a
        correspondence failure; between 1e-9 and 1e-5: ill-conditioned, dropped;
      * normalized and the row's exact embedding is null (round-off noise blown up to an arbitrary unit vector), or two
        captured singular values within 1e-6 relative (singular vectors determined only up to a rotation, the noise rows
        of such a block are the ones normalisation makes arbitrary): dropped and counted in margin_dropped."""
    kind = case['kind']
    s = np.asarray(out['singular_values'], dtype=float)
    fsp = 1.0 if kind == 'PCA' else case.get('factor_singular', 0.)
    ratio = float(s.min() / s.max()) if len(s) and s.max() > 0 else 0.0
    mismatch = not (np.isfinite(got).all() and close(model, got, 1e-8))
    if fsp > 0 and ratio < 1e-9:
        if mismatch:
            ctx.violation(kind + '.predict', 'predict on a row of the fitted matrix does not reproduce that row\'s embedding',
                          case=case, check='predict', cause='zero_singular_value', kind=kind, row=row, via='model',
                          normalized=case['normalized'], factor_singular=case.get('factor_singular', 0.),
                          expected=model.tolist(), observed=got.tolist())
        return
    if fsp > 0 and ratio < 1e-5:
        ctx.margin_dropped += 1
        return
    if case['normalized']:
        a, m, dr, dc, wc = gsvd_setup(case)
        u = np.asarray(out['left'], dtype=float).reshape(a.shape[0], -1)
        rawn = np.sqrt((raw_row(kind, dr, u, s, case.get('factor_singular', 0.)) ** 2).sum(axis=1))
        ss = np.sort(s)
        degenerate = bool((np.diff(ss) <= 1e-6 * ss[1:]).any()) if len(ss) > 1 else False
        if rawn[row] <= 1e-9 * max(float(rawn.max()), 1e-300) or degenerate:
            ctx.margin_dropped += 1
            return
    if mismatch:
        ctx.violation(kind + '.predict', 'implementation differs from the Coq model of predict', case=case,
                      check='correspondence', kind=kind, row=row, expected=model.tolist(), observed=got.tolist())


def gsvd_model_args(case, out):
    a = dense(case['m'])
    nr, nc = a.shape
    sol = out['solver']
    s = sol['values']
    index = [int(i) for i in np.argsort(-np.asarray(s, dtype=float))]
    reg = case.get('regularization') or 0
    return dict(nr=nr, nc=nc, A=qm(a.tolist()), reg=cq(Fraction(reg)), sU=qm(sol['left']), sS=qv(s), sV=qm(sol['right']),
                index=clist(index, cnat), svals=s)


def run_gsvd_correspondence(ctx, items):
    """GSVD and SVD (PCA: run_pca_correspondence)."""
    if not items:
        return
    args = [gsvd_model_args(c, o) for (c, o) in items]
    ident = '(fun q : Q => q)'
    one = '(fun _ : Q => 1%Q)'

    def powtab(keys, p):
        return tab(keys, np.power(np.array([float(x) for x in keys]), float(p)))
    wk = [(frv(x), frv(y)) for (x, y) in ceval(ctx, 'c09gw', ["let '(a, b) := gsvd_weight_keys %d %d %s %s in (vz a, vz b)" % (
        a['nr'], a['nc'], a['A'], a['reg']) for a in args])]
    orc = []
    for (c, _), a, (kr, kc) in zip(items, args, wk):
        g = c['kind'] == 'GSVD'
        fs = c.get('factor_singular', 0.)
        skeys = [Fraction(x) for x in a['svals']]
        orc.append(dict(prow=powtab(kr, c['factor_row']) if g else one, pcol=powtab(kc, c['factor_col']) if g else one,
                        psl=powtab(skeys, 1 - fs), psr=powtab(skeys, fs)))

    def base(a, o):
        return '%s %s %s %s' % (o['prow'], o['pcol'], o['psl'], o['psr']), '%d %d %s %s %s %s %s %s' % (
            a['nr'], a['nc'], a['A'], a['reg'], a['sU'], a['sS'], a['sV'], a['index'])
    nk = [(frv(x), frv(y)) for (x, y) in ceval(ctx, 'c09gn', ["let '(a, b) := gsvd_norm_keys %s %s in [vz a; vz b]" % base(a, o)
                                                        for a, o in zip(args, orc)])]
    for (c, _), o, (k1, k2) in zip(items, orc, nk):
        keys = list(k1) + list(k2)
        o['norm'] = tab(keys, np.sqrt(np.array([float(x) for x in keys]))) if c['normalized'] and keys else ident
    fits = ceval(ctx, 'c09gf', [
        "let '(s, ul, vr, er, ec) := gsvd_fit %s %s %s %s in (vz s, mz ul, mz vr, mz er, mz ec)" % (
            base(a, o)[0], o['norm'], cbool(c['normalized']), base(a, o)[1]) for (c, _), a, o in zip(items, args, orc)])
    # predict on the rows the implementation was asked about, with the FITTED attributes as predict uses them
    pexpr, pwho = [], []
    for n_item, ((c, out), a, o) in enumerate(zip(items, args, orc)):
        am = dense(c['m'])
        for key, res in sorted(out['predict'].items()):
            if 'ok' not in res:
                continue
            x = qv(am[int(key)].tolist())
            common = '%d %s %s %s %s %s' % (a['nc'], a['reg'], qv(out['weights_col']), qv(out['singular_values']),
                                            qm(out['right']), x)
            pexpr.append((o, common, c['normalized']))
            pwho.append((n_item, int(key)))
    pk = [fr(x) for x in ceval(ctx, 'c09gp', ['qz (gsvd_predict_norm_key %s %s %s %s)' % (o['prow'], o['pcol'], o['psr'], common)
                                     for (o, common, _) in pexpr])] if pexpr else []
    preds = ceval(ctx, 'c09gq', ['vz (gsvd_predict_row %s %s %s %s %s %s)' % (
        o['prow'], o['pcol'], o['psr'], tab([k], [np.sqrt(float(k))]) if nrm else ident, cbool(nrm), common)
        for (o, common, nrm), k in zip(pexpr, pk)]) if pexpr else []
    for (case, out), fit in zip(items, fits):
        s, ul, vr, er, ec = frv(fit[0]), frm(fit[1]), frm(fit[2]), frm(fit[3]), frm(fit[4])
        nr, nc = case['m']['shape']
        k = len(s)

        def arr(x, r):
            return np.array([[fl(y) for y in row] for row in x], dtype=float).reshape(r, k)
        good = close([fl(x) for x in s], out['singular_values']) and \
            close(arr(ul, nr), np.asarray(out['left']).reshape(nr, k)) and \
            close(arr(vr, nc), np.asarray(out['right']).reshape(nc, k)) and \
            close(arr(er, nr), np.asarray(out['embedding_row']).reshape(nr, k)) and \
            close(arr(ec, nc), np.asarray(out['embedding_col']).reshape(nc, k))
        ctx.count('corr:' + case['kind'], ('corr', case), True)
        if not good:
            ctx.violation(case['kind'] + '.fit', 'implementation differs from the Coq wrapper model fed with the captured solver output',
                          case=case, check='correspondence', kind=case['kind'])
    for (n_item, row), p in zip(pwho, preds):
        case, out = items[n_item]
        got = np.asarray(out['predict'][str(row)]['ok'], dtype=float).reshape(-1)
        model = np.array([fl(x) for x in frv(p)])
        ctx.count('corr:%s.predict' % case['kind'], ('corrp', case, row), True)
        judge_model_predict(ctx, case, out, row, model, got)


def run_pca_correspondence(ctx, items):
    if not items:
        return
    ident = '(fun q : Q => q)'
    args = []
    for case, out in items:
        a = dense(case['m'])
        sol = out['solver']
        args.append(dict(nr=a.shape[0], nc=a.shape[1], A=qm(a.tolist()), sU=qm(sol['left']), sS=qv(sol['values']), sV=qm(sol['right'])))
    nk = [frv(v) for v in ceval(ctx, 'c09pn', ['vz (map sqnorm (%s ++ %s))' % (a['sU'], a['sV']) for a in args])]
    tabs = [tab(k, np.sqrt(np.array([float(x) for x in k]))) if c['normalized'] else ident for (c, _), k in zip(items, nk)]
    fits = ceval(ctx, 'c09pf', ["let '(a, b, c) := pca_fit %s %s %s %s %s in (mz a, mz b, vz c)" % (
        t, cbool(c['normalized']), a['sU'], a['sS'], a['sV']) for (c, _), a, t in zip(items, args, tabs)])
    pexpr, pwho = [], []
    for n_item, ((c, out), a) in enumerate(zip(items, args)):
        am = dense(c['m'])
        for key, res in sorted(out['predict'].items()):
            if 'ok' in res:
                pexpr.append(('(pca_mean_col %d %d %s) %s %s %s' % (a['nr'], a['nc'], a['A'], qv(out['singular_values']),
                                                                   qm(out['right']), qv(am[int(key)].tolist())), c['normalized']))
                pwho.append((n_item, int(key)))
    pk = [fr(x) for x in ceval(ctx, 'c09pk', ['qz (pca_predict_norm_key %s)' % e for (e, _) in pexpr])] if pexpr else []
    preds = ceval(ctx, 'c09pq', ['vz (pca_predict_row %s %s %s)' % (tab([k], [np.sqrt(float(k))]) if nrm else ident, cbool(nrm), e)
                            for (e, nrm), k in zip(pexpr, pk)]) if pexpr else []
    for (case, out), fit in zip(items, fits):
        nr, nc = case['m']['shape']
        k = len(fit[2])

        def arr(x, r):
            return np.array([[fl(y) for y in row] for row in frm(x)], dtype=float).reshape(r, k)
        good = close(arr(fit[0], nr), np.asarray(out['embedding_row']).reshape(nr, k)) and \
            close(arr(fit[1], nc), np.asarray(out['embedding_col']).reshape(nc, k)) and \
            close([fl(x) for x in frv(fit[2])], out['singular_values'])
        ctx.count('corr:PCA', ('corr', case), True)
        if not good:
            ctx.violation('PCA.fit', 'implementation differs from the Coq wrapper model fed with the captured solver output',
                          case=case, check='correspondence', kind='PCA')
    for (n_item, row), p in zip(pwho, preds):
        case, out = items[n_item]
        got = np.asarray(out['predict'][str(row)]['ok'], dtype=float).reshape(-1)
        ctx.count('corr:PCA.predict', ('corrp', case, row), True)
        judge_model_predict(ctx, case, out, row, np.array([fl(x) for x in frv(p)]), got)


# ------------------------------------------------------------------------------------------------
# RandomProjection
# ------------------------------------------------------------------------------------------------
def rp_setup(case):
    b = dense(case['m'])
    nr, nc = b.shape
    bip = bool(case['force_bipartite'] or nr != nc)
    a = stacked(b) if bip else b
    reg = resolve_reg(case['regularization'], a)
    return b, a, bip, reg


def rp_oracle(ctx, case, out):
    b, a, bip, reg = rp_setup(case)
    n = a.shape[0]
    k = case['n_components']

    def bad(what, **kw):
        ctx.violation('RandomProjection.fit', what, case=case, random_walk=case['random_walk'], normalized=case['normalized'],
                      refit='history' in case, **kw)
        return 'violation'
    if out['bipartite'] != bip or out['regularized'] != (reg > 0):
        return bad('bipartite / regularized flags differ from the documented rule', check='flags')
    g = np.asarray(out['random_matrix'], dtype=float).reshape(n, k)
    areg = a + reg / n
    m = pinv_vec(areg.sum(axis=1))[:, None] * areg if case['random_walk'] else areg
    term = g.copy()
    e = g.copy()
    for _ in range(case['n_iter']):
        term = case['alpha'] * (m @ term)
        e = e + term
    if case['normalized']:
        e = row_normalize(e)
    emb = np.asarray((out['embedding_row'] + out['embedding_col']) if bip else out['embedding'], dtype=float).reshape(n, k)
    if not close(emb, e):
        return bad('embedding differs from (I + alpha M + ... + (alpha M)^K) G', check='closed_form')
    if case['normalized']:
        nrm = np.sqrt((emb ** 2).sum(axis=1))
        if not all(abs(x - 1) <= TOL or x == 0 for x in nrm):
            return bad('normalized=True but a non-null row does not have unit norm', check='unit_norm')
    return 'ok'


def run_rp_correspondence(ctx, items):
    if not items:
        return
    ident = '(fun q : Q => q)'
    args = []
    for case, out in items:
        b, a, bip, reg = rp_setup(case)
        n = a.shape[0]
        adj = '(fst (get_adjacency true %s %d %d %s))' % (cbool(case['force_bipartite']), b.shape[0], b.shape[1], qm(b.tolist()))
        regl = '(get_regularization %s %s)' % (cq(Fraction(case['regularization'])), cbool(strongly_connected(a)))
        args.append('%s %d %d %s %s %s %d %s' % (cbool(case['random_walk']), n, case['n_components'], adj, regl,
                                                 cq(Fraction(case['alpha'])), case['n_iter'], qm(out['random_matrix'])))
    keys = [frv(v) for v in ceval(ctx, 'c09rk', ['vz (random_projection_norm_keys %s)' % a for a in args])]
    tabs = [tab(k, np.sqrt(np.array([float(x) for x in k]))) if c['normalized'] else ident for (c, _), k in zip(items, keys)]
    fits = ceval(ctx, 'c09rf', ['mz (random_projection_fit %s %s %s %s)' % (
        t, cbool(a.split(' ')[0] == 'true'), cbool(c['normalized']), a.split(' ', 1)[1]) for (c, _), a, t in zip(items, args, tabs)])
    for (case, out), fit in zip(items, fits):
        k = case['n_components']
        emb = (out['embedding_row'] + out['embedding_col']) if out['bipartite'] else out['embedding']
        model = np.array([[fl(x) for x in r] for r in frm(fit)], dtype=float).reshape(-1, k)
        ctx.count('corr:RandomProjection', ('corr', case), True)
        if not close(model, np.asarray(emb, dtype=float).reshape(-1, k)):
            ctx.violation('RandomProjection.fit', 'implementation differs from the Coq model', case=case, check='correspondence')


# ------------------------------------------------------------------------------------------------
# LouvainEmbedding
# ------------------------------------------------------------------------------------------------
def reindex_py(labels, secondary, which):
    """Independent re-statement of the documented behaviour: clusters of size 1 are removed (label -1),
    merged into one extra cluster, or kept."""
    labels = list(labels)
    uniq = sorted(set(labels))
    keep = [l for l in uniq if labels.count(l) > 1]
    pos = {l: i for i, l in enumerate(keep)}
    if which == 'remove':
        new = [pos.get(l, -1) for l in labels]
    elif which == 'merge':
        new = [pos.get(l, len(keep)) for l in labels]
    else:
        new = labels
    sec = None
    if secondary is not None:
        n2 = max(secondary) + 1
        if any(l >= n2 for l in keep):
            return 'IndexError', None
        sec = [pos.get(l, -1) for l in secondary]
    return new, sec


def membership_embedding(a, labels):
    ncl = max(labels) + 1 if labels else 0
    ncl = max(ncl, 0)
    p = a * pinv_vec(np.abs(a).sum(axis=1))[:, None]
    e = np.zeros((a.shape[0], ncl))
    for j, l in enumerate(labels):
        if l >= 0:
            e[:, l] += p[:, j]
    return e


def louvain_oracle(ctx, case, out):
    a = dense(case['m'])
    nr, nc = a.shape
    lv = out.get('louvain')

    def bad(what, **kw):
        ctx.violation('LouvainEmbedding.fit', what, case=case, isolated_nodes=case['isolated_nodes'], refit='history' in case, **kw)
        return 'violation'
    if lv is None:
        return bad('Louvain was not called', check='capture')
    if nr == nc:
        labels, secondary = lv['labels'], None
    else:
        labels, secondary = lv['labels_col'], lv['labels_row']
    new, sec = reindex_py(labels, secondary, case['isolated_nodes'])
    if new == 'IndexError':
        if out.get('err') != 'IndexError':
            return bad('expected IndexError from reindex_labels', check='error', observed=out.get('err'))
        return 'error_agree'
    if 'err' in out:
        return bad('fit raised', check='error', err=out['err'], msg=out.get('msg'))
    e = membership_embedding(a, new)
    if not close(np.asarray(out['embedding'], dtype=float).reshape(e.shape), e, 1e-12):
        return bad('embedding_ differs from normalize(A) . membership(labels)', check='closed_form')
    if not np.array_equal(np.asarray(out['labels']), np.asarray(new)):
        return bad('labels_ differ from the reindexed Louvain labels', check='labels')
    if sec is not None:
        ecol = membership_embedding(a.T, sec)
        if not close(np.asarray(out['embedding_col'], dtype=float).reshape(ecol.shape), ecol, 1e-12):
            return bad('embedding_col_ differs from normalize(A^T) . membership(labels_row)', check='closed_form_col')
        if not np.array_equal(np.asarray(out['embedding_row'], dtype=float).reshape(e.shape),
                              np.asarray(out['embedding'], dtype=float).reshape(e.shape)):
            return bad('embedding_row_ is not embedding_', check='split')
    return 'ok'


def run_louvain_correspondence(ctx, items):
    if not items:
        return
    exprs = []
    for case, out in items:
        a = dense(case['m'])
        nr, nc = a.shape
        lv = out['louvain']
        which = {'remove': 'Remove', 'merge': 'Merge', 'keep': 'Keep'}[case['isolated_nodes']]
        if nr == nc:
            lab, sec = lv['labels'], 'None'
        else:
            lab, sec = lv['labels_col'], '(Some %s)' % clist(lv['labels_row'], cnat)
        exprs.append('match louvain_embedding_fit %s %d %d %s %s %s with None => None | Some (e, c) => '
                     'Some (mz e, match c with None => None | Some c => Some (mz c) end) end' % (
                         which, nr, nc, qm(a.tolist()), clist(lab, cnat), sec))
    vals = ceval(ctx, 'c09lv', exprs)
    for (case, out), v in zip(items, vals):
        ctx.count('corr:LouvainEmbedding', ('corr', case), True)
        if v is None:
            ok = out.get('err') == 'IndexError'
        elif 'err' in out:
            ok = False
        else:
            e, c = v[1]
            me = np.array([[fl(x) for x in r] for r in frm(e)], dtype=float)
            ie = np.asarray(out['embedding'], dtype=float)
            ok = close(me.reshape(ie.shape) if me.size == ie.size else me, ie, 1e-12)
            if c is not None:
                mc = np.array([[fl(x) for x in r] for r in frm(c[1])], dtype=float)
                ic = np.asarray(out['embedding_col'], dtype=float)
                ok = ok and close(mc.reshape(ic.shape) if mc.size == ic.size else mc, ic, 1e-12)
        if not ok:
            ctx.violation('LouvainEmbedding.fit', 'implementation differs from the Coq model fed with the captured Louvain labels',
                          case=case, check='correspondence', isolated_nodes=case['isolated_nodes'])


    # ---- the closed form regenerated from louvain_embedding.py (Gen/NpLouvainEmbedding.v; theorems source_louvain_embedding_* of
    #      Props/C09.v) evaluated inside Coq over exact rationals on the reported labels must reproduce embedding_ / embedding_col_
    src, sexprs = [], []
    for case, out in items:
        if 'err' in out or len(src) >= (30 if getattr(ctx, 'tier', 'quick') == 'quick' else 200):
            continue
        a = dense(case['m'])
        nr, nc = a.shape
        if nr + nc > 14 or len(out['labels']) != nc:
            continue
        mat = qm(a.tolist())
        lab = clist([int(x) for x in out['labels']], lambda z: '(%d)%%Z' % z)
        e = ('map (map qz3) (qmresult (qvdenote (("input_matrix", wmat 0%%Q %s %d %d) :: ("self.labels_", WLab %s) :: nil) '
             'src_louvain_embedding))' % (mat, nr, nc, lab))
        sexprs.append(e)
        src.append((case, out))
    svals = safe_coq_eval(ctx, 'c09src', ['Base.Util', 'Model.NpExpr', 'Model.NpVec', 'Gen.NpLouvainEmbedding'], sexprs,
                          prelude='From Coq Require Import String.\nLocal Open Scope string_scope.\n'
                                  'Definition qz3 (q : Q) : Z * Z := (Qnum q, Zpos (Qden q)).\n', shard=30) if sexprs else []
    n_src = 0
    for (case, out), v in zip(src, svals or []):
        n_src += 1
        ctx.count('source_term:LouvainEmbedding', ('src', case), True)
        me = np.array([[float(Fraction(x[0], x[1])) for x in r] for r in v], dtype=float)
        ie = np.asarray(out['embedding'], dtype=float)
        if me.size != ie.size or not close(me.reshape(ie.shape), ie, 1e-12):
            ctx.violation('LouvainEmbedding.fit', 'the closed form regenerated from louvain_embedding.py (src_louvain_embedding), evaluated '
                          'with the array semantics of Model/NpVec.v on the reported labels, differs from embedding_', case=case,
                          expected=me.tolist(), observed=ie.tolist(), check='source_term', isolated_nodes=case['isolated_nodes'])
    ctx.extra['source_terms_evaluated'] = ctx.extra.get('source_terms_evaluated', 0) + n_src


# ------------------------------------------------------------------------------------------------
# validators inside Coq
# ------------------------------------------------------------------------------------------------
def run_validators(ctx, eig_items, svd_items):
    exprs, who = [], []
    for case, out in eig_items:
        m = spectral_exact_matrix(case)
        vecs = np.asarray(out['eigenvectors'], dtype=float)
        for j, lam in enumerate(out['eigenvalues']):
            exprs.append('eig_residual_check %s %s %s %s' % (qm(m), cq(Fraction(lam)), qv(vecs[:, j].tolist()), cq(EPS_Q)))
            who.append(('Spectral.fit', case, j))
    for case, out in svd_items:
        a, m, dr, dc, wc = gsvd_setup(case)
        nr, nc = a.shape
        u = np.asarray(out['left'], dtype=float).reshape(nr, -1)
        v = np.asarray(out['right'], dtype=float).reshape(nc, -1)
        for j, s in enumerate(out['singular_values']):
            exprs.append('svd_residual_check %s %s %s %s %s' % (qm(m.tolist()), qv(u[:, j].tolist()), cq(Fraction(s)),
                                                              qv(v[:, j].tolist()), cq(EPS_Q)))
            who.append((case['kind'] + '.fit', case, j))
    if not exprs:
        return 0
    vals = ceval(ctx, 'c09val', exprs)
    for (site, case, j), ok in zip(who, vals):
        ctx.count('validator:' + site, ('val', case, j), True)
        if ok is not True:
            ctx.violation(site, 'proved residual validator rejects the returned pair / triple (exact rational arithmetic, eps = 1e-6)',
                          case=case, check='validator', index=j)
    return len(exprs)


# ------------------------------------------------------------------------------------------------
class Recorder:
    """Stands in for ctx inside a worker thread: records count / violation calls for a later ordered replay."""
    def __init__(self):
        self.calls = []
        self.margin_dropped = 0
        self.proof_broken = []      # filled by safe_coq_eval when the model no longer evaluates
        self.extra = {}

    def count(self, *a, **k):
        self.calls.append(('count', a, k))

    def violation(self, *a, **k):
        self.calls.append(('violation', a, k))

    def replay(self, ctx):
        for name, a, k in self.calls:
            getattr(ctx, name)(*a, **k)
        ctx.margin_dropped += self.margin_dropped
        ctx.proof_broken.extend(self.proof_broken[:max(0, 12 - len(ctx.proof_broken))])
        if self.extra.get('model_dead'):
            ctx.extra['model_dead'] = sorted(set(ctx.extra.get('model_dead', [])) | set(self.extra['model_dead']))
        if self.extra.get('source_terms_evaluated'):
            ctx.extra['source_terms_evaluated'] = ctx.extra.get('source_terms_evaluated', 0) + self.extra['source_terms_evaluated']


def arpack_refused(r):
    """ARPACK (the oracle) gave no answer, e.g. 'Starting vector is zero' on an operator that is identically zero
    (PCA of a matrix with identical rows): nothing to judge."""
    return r.get('err') in ('ArpackError', 'ArpackNoConvergence')


def run(ctx, scratch):
    rng = ctx.rng
    quick = ctx.tier == 'quick'
    nmax = 12
    n_spec = 700 if quick else 2400
    n_svd = 700 if quick else 2400
    n_rp = 250 if quick else 900
    n_lv = 250 if quick else 900
    n_corr_spec, n_corr_svd, n_corr_rp, n_corr_lv = (30, 20, 12, 40) if quick else (150, 100, 60, 200)
    n_corr_pca = 10 if quick else 50
    corr_pca = []
    n_val = 100 if quick else 400
    status = {}

    def note(fam, st):
        status[fam + ':' + st] = status.get(fam + ':' + st, 0) + 1
    corr_spec, corr_svd, corr_rp, corr_lv, val_eig, val_svd = [], [], [], [], [], []
    with Impl(scratch) as impl:
        # ---- Spectral ------------------------------------------------------------------------------
        for t in range(n_spec):
            kind = rng.choice(['undirected', 'undirected', 'undirected', 'bipartite', 'directed'])
            small = t % 3 == 0
            spec, fam = gen_matrix(rng, kind, (6 if kind == 'directed' else 8 if small else nmax))
            if kind == 'directed' and spec['shape'][0] > 6:
                continue
            if rng.random() < (0.4 if kind == 'directed' else 0.15):
                # single-precision storage, weights in eighths (exact in float32): a digraph whose weights are all below 1, or whose
                # reciprocal weights differ only in their fractional parts, is a digraph
                spec = dict(spec, coo=[[i, j, w / 8] for (i, j, w) in spec['coo']], dtype='float32')
                fam += '_f32'
            nr, nc = spec['shape']
            fb = kind == 'undirected' and nr <= 6 and rng.random() < 0.1
            b = dense(spec)
            n = nr + nc if (fb or nr != nc or not np.array_equal(b, b.T)) else nr
            case = dict(m=spec, n_components=rng.randint(1, min(3, n - 2)), decomposition=rng.choice(['rw', 'laplacian']),
                        regularization=rng.choice(REGS), normalized=rng.random() < 0.5, force_bipartite=fb)
            refit = t % 4 == 1
            if refit:
                case['history'] = gen_history(rng, ['undirected', 'undirected', 'bipartite'], 10, spec)
            r = impl.call('c09', 'spectral', case, timeout=60)
            ctx.traces += 1
            if arpack_refused(r):
                note('Spectral', 'arpack_error')
                ctx.count('Spectral:arpack_error', ('spectral', case), False)
                continue
            if 'ok' not in r:
                ctx.violation('Spectral.fit', 'fit does not return on a valid input', case=case, check='crash', observed=r)
                continue
            st = spectral_oracle(ctx, case, r['ok'])
            note('Spectral', st)
            ctx.count('Spectral:' + ('refit:' if refit else '') + fam.split('_')[0] + ':' + case['decomposition'], ('spectral', case),
                      st != 'excluded_undefined_P')
            if t % 60 == 0:
                ctx.sample(dict(estimator='Spectral', case=case, eigenvalues=r['ok']['eigenvalues'], status=st))
            if st == 'ok':
                if len(corr_spec) < n_corr_spec and (t % 2 == 0):
                    corr_spec.append((case, r['ok']))
                if n <= 8 and len(val_eig) < n_val // 4:
                    val_eig.append((case, r['ok']))
        # ---- GSVD / SVD / PCA ----------------------------------------------------------------------
        for t in range(n_svd):
            kind = rng.choice(['undirected', 'bipartite', 'bipartite', 'directed'])
            spec, fam = gen_matrix(rng, kind, 8 if t % 3 == 0 else nmax)
            nr, nc = spec['shape']
            if min(nr, nc) < 2:
                continue
            est = rng.choice(['GSVD', 'GSVD', 'SVD', 'PCA'])
            rows_ok = [i for i in range(nr) if any(e[0] == i and e[2] != 0 for e in spec['coo'])]
            case = dict(m=spec, kind=est, n_components=rng.randint(1, min(3, min(nr, nc) - 1)), normalized=rng.random() < 0.5,
                        solver=rng.choice([None, None, {'tol': 0.0}, {'tol': 1e-12, 'n_iter': 1000}, 'custom_ascending']),
                        predict_rows=sorted(rng.sample(rows_ok, min(2, len(rows_ok)))), predict_all=rng.random() < 0.3)
            if est == 'PCA' and case['solver'] == 'custom_ascending':
                case['solver'] = None       # PCA keeps the order its solver chose (nothing documented says otherwise): not judged
            if est != 'PCA':
                case['regularization'] = rng.choice([None, 0, 0.1, 1])
                case['factor_singular'] = rng.choice([0., 0.5, 1.])
            if est == 'GSVD':
                case['factor_row'] = rng.choice([0., 0.5, 1.])
                case['factor_col'] = rng.choice([0., 0.5, 1.])
            refit = t % 4 == 1
            if refit:
                case['history'] = gen_history(rng, ['undirected', 'bipartite', 'directed'], 10, spec, allow_directed=True)
            r = impl.call('c09', 'gsvd', case, timeout=60)
            ctx.traces += 1
            if arpack_refused(r):
                note(est, 'arpack_error')
                ctx.count(est + ':arpack_error', ('gsvd', case), False)
                continue
            if 'ok' not in r:
                ctx.violation(est + '.fit', 'fit does not return on a valid input', case=case, check='crash', kind=est, observed=r)
                continue
            st = gsvd_oracle(ctx, case, r['ok'])
            note(est, st)
            ctx.count('%s:%s%s' % (est, 'refit:' if refit else '', fam.split('_')[0]), ('gsvd', case), True)
            if t % 60 == 0:
                ctx.sample(dict(estimator=est, case=case, singular_values=r['ok']['singular_values'], status=st))
            if est != 'PCA' and len(corr_svd) < n_corr_svd and t % 2 == 0 and \
                    np.isfinite(np.asarray(r['ok']['embedding_row'], dtype=float)).all():
                corr_svd.append((case, r['ok']))
            if est == 'PCA' and len(corr_pca) < n_corr_pca and np.isfinite(np.asarray(r['ok']['embedding_row'], dtype=float)).all():
                corr_pca.append((case, r['ok']))
            if st == 'ok' and max(nr, nc) <= 8 and len(val_svd) < n_val // 4:
                val_svd.append((case, r['ok']))
        # ---- RandomProjection ----------------------------------------------------------------------
        for t in range(n_rp):
            kind = rng.choice(['undirected', 'directed', 'bipartite'])
            spec, fam = gen_matrix(rng, kind, 8 if t % 2 == 0 else nmax)
            nr, nc = spec['shape']
            fb = nr == nc and nr <= 6 and rng.random() < 0.1
            n = nr + nc if (fb or nr != nc) else nr
            case = dict(m=spec, n_components=rng.randint(1, min(3, n)), alpha=rng.choice([0.5, 0.25, 1.0, 0.75]),
                        n_iter=rng.choice([0, 1, 2, 3]), random_walk=rng.random() < 0.5, regularization=rng.choice([-1, 0, 0.5, 1]),
                        normalized=rng.random() < 0.5, seed=rng.randint(0, 10 ** 6), force_bipartite=fb)
            refit = t % 4 == 1
            if refit:
                case['history'] = gen_history(rng, ['undirected', 'directed', 'bipartite'], 10, spec, allow_directed=True)
            r = impl.call('c09', 'random_projection', case, timeout=60)
            ctx.traces += 1
            if 'ok' not in r:
                ctx.violation('RandomProjection.fit', 'fit does not return on a valid input', case=case, check='crash', observed=r)
                continue
            st = rp_oracle(ctx, case, r['ok'])
            note('RandomProjection', st)
            ctx.count('RandomProjection:' + ('refit:' if refit else '') + fam.split('_')[0], ('rp', case), True)
            if t % 50 == 0:
                ctx.sample(dict(estimator='RandomProjection', case=case, status=st))
            if st == 'ok' and n <= 8 and len(corr_rp) < n_corr_rp:
                corr_rp.append((case, r['ok']))
        # ---- LouvainEmbedding ----------------------------------------------------------------------
        for t in range(n_lv):
            kind = rng.choice(['undirected', 'directed', 'bipartite', 'bipartite'])
            spec, fam = gen_matrix(rng, kind, nmax)
            case = dict(m=spec, isolated_nodes=rng.choice(['remove', 'merge', 'keep']), resolution=rng.choice([1, 1, 0.5, 2]),
                        modularity=rng.choice(['Dugue', 'Newman', 'Potts']), shuffle_nodes=rng.random() < 0.3,
                        seed=rng.randint(0, 1000), force_bipartite=False)
            refit = t % 4 == 1
            if refit:
                case['history'] = gen_history(rng, ['undirected', 'directed', 'bipartite'], 10, spec, allow_directed=True)
            r = impl.call('c09', 'louvain_embedding', case, timeout=60)
            ctx.traces += 1
            if 'ok' not in r:
                ctx.violation('LouvainEmbedding.fit', 'fit does not return on a valid input', case=case, check='crash', observed=r)
                continue
            st = louvain_oracle(ctx, case, r['ok'])
            note('LouvainEmbedding', st)
            ctx.count('LouvainEmbedding:' + ('refit:' if refit else '') + fam.split('_')[0], ('lv', case), True)
            if t % 50 == 0:
                ctx.sample(dict(estimator='LouvainEmbedding', case=case, status=st, labels=r['ok'].get('labels')))
            if st in ('ok', 'error_agree') and len(corr_lv) < n_corr_lv:
                corr_lv.append((case, r['ok']))
    # ---- model inside Coq ------------------------------------------------------------------------------
    t_impl = ctx.elapsed()
    # the six Coq chains are independent: run them concurrently, each on a recorder, then replay the records into
    # ctx in a fixed order (deterministic numbering of violations)
    chains = [(run_spectral_correspondence, (corr_spec,)), (run_gsvd_correspondence, (corr_svd,)),
              (run_pca_correspondence, (corr_pca,)), (run_rp_correspondence, (corr_rp,)),
              (run_louvain_correspondence, (corr_lv,)), (run_validators, (val_eig, val_svd))]
    recs = [Recorder() for _ in chains]

    def chain(f, rec, *a):
        try:
            return f(rec, *a)
        except ModelDead:
            return 0
    with ThreadPoolExecutor(max_workers=len(chains)) as pool:
        futs = [pool.submit(chain, f, rec, *a) for (f, a), rec in zip(chains, recs)]
        results = [f.result() for f in futs]
    for rec in recs:
        rec.replay(ctx)
    nval = results[-1]
    ctx.extra['c09_status'] = status
    ctx.extra['c09_wall'] = dict(until_impl_done=round(t_impl, 1), coq_models_and_validators=round(ctx.elapsed() - t_impl, 1), per_call=dict(COQ_WALL))
    ctx.extra['c09_correspondence_cases'] = dict(spectral=len(corr_spec), gsvd_svd=len(corr_svd), pca=len(corr_pca), random_projection=len(corr_rp),
                                                 louvain=len(corr_lv))
    ctx.extra['c09_validator_evaluations'] = nval
    ctx.rule = ('random undirected / directed / rectangular-bipartite graphs (13 families of harness/gen.py, n <= 12, unit, small-integer '
                'and dyadic weights, connected and disconnected, isolated nodes, self-loops) x n_components in {1,2,3} x decomposition x '
                'regularisation in {-1,0,0.1,1} x normalized x factor_row/col/singular in {0,0.5,1} x solver options; one case in four is a REFIT '
                'sequence (the same estimator object is first fitted on one or two graphs of contrasting kind - connectivity, shape class, '
                'size - and the oracle judges the LAST fit with the regularisation resolved for the last graph); dense NumPy oracle on '
                'every case, Coq wrapper models (vm_compute, exact rationals, np.sqrt/np.power answers as oracle tables) on a sample, '
                'proved residual validators inside Coq on a sample with n <= 8; distinct by hash of (estimator, arguments); '
                'non-trivial = at least one edge and the documented matrix is defined')
    ctx.assumptions = [
        'decomposition=\'rw\' with an effective regularisation of 0 and a node of degree 0: D^-1 does not exist, the documented '
        'matrix is undefined; such cases are run but not judged (counted as excluded_undefined_P)',
        'predict is asked only about non-null rows of the fitted matrix (an all-zero adjacency vector is rejected by the input '
        'validation, ValueError "The input matrix is empty"); rows whose exact embedding is null (round-off noise that '
        'normalisation blows up to an arbitrary unit vector) are dropped from the predict comparison (margin_dropped)',
        'predict with factor_singular > 0 divides by sigma^factor_singular: cases whose smallest returned singular value is between '
        '1e-9 and 1e-5 of the largest are dropped as ill-conditioned (margin_dropped); exactly rank-deficient cases are judged',
        'ARPACK (eigsh, svds), np.linalg.qr, np.argsort, np.sqrt, np.power, Louvain are oracles: captured and fed to the model; '
        'that ARPACK returns the extreme pairs is tested against numpy.linalg.eigvalsh / svd, not proved',
        'runs in which ARPACK itself raises (ArpackError, e.g. a centred matrix that is identically zero) are counted as '
        'arpack_error and not judged',
        'weights are non-negative; n_components < n - 1 (Spectral) resp. < min(shape) (SVD family), as the estimators require',
    ]

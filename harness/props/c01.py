"""C01 — results do not depend on the container format; inputs are never modified.

Metamorphic run of every registered public algorithm on one graph in every documented container
(read from the current signature annotation) x dtypes of equal value x CSR with unsorted indices,
against the canonical sorted int CSR run. The theorem side (Props/C01.v) is the conversion model:
container -> CSR keeps the denotation, and kernels that only test membership do not see row order.

Second sentence (no call modifies its arguments): (1) run-time snapshots of the matrix and of every argument on each
registered run, plus a family of CSR matrices with explicitly STORED ZEROS (what item assignment or a - b leave behind;
only non-modification is demanded of it); (2) the static tie Gen/ArgMut.v (harness/translators/argmut.py, whole-program
may-alias / may-mutate analysis over every public entry point) pinned by Props/C01.v, whose abstract analysis is proved
sound in Proofs/ArgFrameProofs.v; (3) harness/workers/c01.py: probes of the NumPy / SciPy facts that analysis assumes,
and direct snapshot calls of ~90 public entry points that are not in the registry."""
import copy
import os
import re

from .. import cases
from ..compare import compare
from ..impl import Impl

# discrete decisions taken on floating-point sums: reordering a row changes the summation order, so the
# unsorted-CSR variant is only compared on unit weights (sums of equal terms are order independent)
DISCRETE = ('Louvain', 'Leiden', 'Propagation', 'PropagationClustering', 'Paris', 'LouvainHierarchy', 'LouvainIteration',
            'LouvainEmbedding', 'KCenters', 'NNClassifier', 'NNLinker', 'DiffusionClassifier', 'PageRankClassifier',
            'Spring', 'ForceAtlas', 'color_weisfeiler_lehman')
CLASSIFIERS = ('DiffusionClassifier', 'PageRankClassifier', 'NNClassifier', 'Propagation')
SKIP = ('KCenters',)   # use the global NumPy generator without any seed parameter: two runs differ by design
GEN_FILES = ['ArgMut.v']   # parameters that may be modified in place, re-extracted from /repo on every run
BY_DESIGN = ('(by design) svg_text', '(by design) get_dendrogram')   # reviewed entries of Props/C01.v that really write


def _case_opts(rng, name, d, nr, nc, kind):
    opts = cases.make_opts(rng, d, nr, nc, kind == 'bip')
    if d['seeded']:
        opts.setdefault('params', {})['random_state'] = 7
        if base_name(name) in ('Louvain', 'Leiden', 'LouvainHierarchy', 'LouvainIteration', 'LouvainEmbedding'):
            opts['params']['shuffle_nodes'] = rng.random() < 0.5
    if name.startswith('GNNClassifier'):
        opts = cases.gnn_opts(rng, nr)
    if name == 'get_dag':
        opts['order'] = [rng.randint(-1, 3) for _ in range(nr)]
    return opts


def stored_zeros(rng, spec, kind):
    """The same matrix with a few explicitly stored zero entries (symmetric pairs for symmetric kinds)."""
    s2 = copy.deepcopy(spec)
    nr, nc = s2['shape']
    have = {(e[0], e[1]) for e in s2['coo']}
    free = [(i, j) for i in range(nr) for j in range(nc) if (i, j) not in have and (j, i) not in have and (kind == 'bip' or i != j)]
    rng.shuffle(free)
    for (i, j) in free[:rng.randint(1, 3)]:
        s2['coo'].append([i, j, 0])
        if kind != 'bip' and nr == nc and (j, i) not in have:
            s2['coo'].append([j, i, 0])
    return s2


def base_name(name):
    return name.split('[')[0]


def variants(rng, accepts, unit, name, quick, big=False):
    if accepts == 'all':
        fmts = ['csr', 'csc', 'coo', 'lil', 'dense']
    elif accepts == 'csr+dense':
        fmts = ['csr', 'dense']
    else:
        fmts = ['csr']
    out = []
    for f in fmts:
        for dt in ('int', 'float', 'bool'):
            if dt == 'bool' and not unit:
                continue
            if f == 'csr' and dt == 'int':
                continue
            out.append((f, dt))
    # the same integers / reals in narrower storage types (weights are 1..5: representable in each of them)
    out += [('csr', 'float32'), ('csr', 'int32'), ('csr', 'uint8')] + ([('csr', 'uint8'), ('csr', 'uint8')] if big else [('csr', 'int8')])
    if unit or base_name(name) not in DISCRETE:
        out.append(('csr_unsorted', 'int'))
        out.append(('csr_unsorted', 'float'))
        out.append(('csr_shuffled', 'float'))
        if unit:
            # bool entries AND unsorted indices together: what adjacency[p][:, p] of a library graph is (seed C02_3 needed both)
            out.append(('csr_shuffled', 'bool'))
            out.append(('csr_unsorted', 'bool'))
    if quick and len(out) > 6:
        keep = rng.sample(out, 6)
        out = keep
    return out


def margin_ok(base, out, key):
    """Classifier labels may differ only where the two best class probabilities are (nearly) tied."""
    pk = key.replace('labels', 'probs')
    if pk not in base:
        return False
    a, b, probs = base[key][1], out[key][1], base[pk][1]
    for i, (x, y) in enumerate(zip(a, b)):
        if x != y:
            row = sorted(probs[i], reverse=True)
            if len(row) >= 2 and abs(row[0] - row[1]) > 1e-6:
                return False
    return True


def run(ctx, scratch):
    rng = ctx.rng
    quick = ctx.tier == 'quick'
    reps = 8 if quick else 40
    nmax = 9 if quick else 20
    with Impl(scratch) as impl:
        desc = impl.call('registry', 'describe', None, timeout=120)['ok']
        ctx.extra['accepts'] = {n: d['accepts'] for n, d in desc.items()}
        for name, d in sorted(desc.items()):
            if base_name(name) in SKIP or not d['deterministic']:
                continue
            for rep in range(reps):
                kind = cases.pick_kind(rng, d)
                weighted = rng.random() < 0.6 or rep == 2
                spec, nr, nc, fam = cases.make_matrix(rng, kind, nmax, weighted=weighted)
                if rep == 1 and kind in ('sq', 'sym') and nr == nc:
                    # once per entry point: an UNWEIGHTED graph with a self-loop (where bool, int and float entries of equal value
                    # part ways in code that adds or counts entries, e.g. add_self_loops: seed C01_7) - not left to the random stream
                    coo = [[e[0], e[1], 1] for e in spec['coo']]
                    have = {e[0] for e in coo if e[0] == e[1]}
                    for v_ in range(min(nr, 3)):          # self-loops on the first three nodes (one node may carry null features)
                        if v_ not in have:
                            coo.append([v_, v_, 1])
                    spec = dict(spec, coo=sorted(coo), dtype='int')
                    fam += '+unit_loop'
                    weighted = False
                opts = cases.make_opts(rng, d, nr, nc, kind == 'bip')
                if d['seeded']:
                    opts.setdefault('params', {})['random_state'] = 7
                    if base_name(name) in ('Louvain', 'Leiden', 'LouvainHierarchy', 'LouvainIteration', 'LouvainEmbedding'):
                        opts['params']['shuffle_nodes'] = rng.random() < 0.5
                if name.startswith('GNNClassifier'):
                    opts = cases.gnn_opts(rng, nr)
                if name == 'get_dag':
                    opts['order'] = [rng.randint(-1, 3) for _ in range(nr)]
                big = weighted and (rng.random() < 0.15 or rep == 2)     # once per entry point, independent of the stream (defect D38)
                if big:
                    # the same graph with weights 64 / 128 / 192 (a function of the old weight, so symmetry is kept): equal values in
                    # int64, float64 and uint8 storage, where sums of two or four of them are multiples of 256
                    spec = dict(spec, coo=[[e[0], e[1], 64 * ((e[2] - 1) % 3 + 1)] for e in spec['coo']], dtype='int')
                    fam += '_w64'
                unit = all(e[2] == 1 for e in spec['coo'])
                base = impl.call('registry', 'run', dict(name=name, m=spec, opts=opts, snapshot=True), timeout=60)
                ctx.traces += 1
                skip = ()
                if cases.degenerate(impl, name, spec, opts):
                    ctx.margin_dropped += 1
                    skip = ('emb', 'vec', 'mat', 'ivec', 'labels') if base_name(name) in ('HITS', 'Spring', 'NNClassifier', 'NNLinker') else ('emb',)
                key = (name, spec['shape'], spec['coo'], repr(sorted(opts.items(), key=str)))
                ctx.count(name, key, nontrivial=len(spec['coo']) > 1)
                if 'hang' in base or 'crash' in base:
                    continue    # C17's business
                _mod(ctx, name, base, spec, opts, 'csr/int')
                for (fmt, dt) in variants(rng, d['accepts'], unit, name, quick, big=big):
                    s2 = copy.deepcopy(spec)
                    s2['fmt'] = fmt
                    s2['dtype'] = dt
                    out = impl.call('registry', 'run', dict(name=name, m=s2, opts=opts, snapshot=True), timeout=60)
                    ctx.traces += 1
                    ctx.count(name + ':' + fmt + '/' + dt, key + (fmt, dt), nontrivial=len(spec['coo']) > 1)
                    if 'hang' in out or 'crash' in out:
                        continue
                    case = dict(name=name, m=spec, opts=opts, variant=[fmt, dt], family=fam)
                    if ('ok' in base) != ('ok' in out):
                        ctx.violation(name, 'one container raises, the other does not', case=case, entry=name, variant=fmt + '/' + dt,
                                      base=_short(base), observed=_short(out), kind='error_mismatch')
                        continue
                    if 'ok' not in base:
                        continue
                    _mod(ctx, name, out, s2, opts, fmt + '/' + dt)
                    if name == 'GNNClassifier[sage]' and fmt in ('csr_unsorted', 'csr_shuffled'):
                        # the neighbour sampler draws POSITIONS in each stored row: with another storage order the same draws
                        # select other neighbours, an equally valid sample (only the argument snapshot is judged here)
                        continue
                    rt, at = (2e-3, 2e-4) if (name in ('PageRank[diteration]', 'PageRank[push]') and fmt in ('csr_unsorted', 'csr_shuffled')) else (1e-6, 1e-8)
                    if name == 'PageRank[push]' and fmt in ('csr_unsorted', 'csr_shuffled'):
                        rt, at = 5e-3, 5e-4       # the push work-list stops at a residual threshold: the order of the pushes moves the result by about that much
                    if dt == 'float32' and (rt, at) == (1e-6, 1e-8):
                        rt, at = 2e-4, 2e-5      # single-precision input: round-off of the input's own arithmetic
                    bad = compare(base['ok'], out['ok'], rtol=rt, atol=at, skip_tags=skip)   # float32 sweep kernels: the sweep order follows the storage order
                    if base_name(name) in CLASSIFIERS:
                        bad = [(k, why) for (k, why) in bad if not (k.startswith('labels') and margin_ok(base['ok'], out['ok'], k))]
                    if bad:
                        ctx.violation(name, 'output differs between containers: %s' % bad[0][0], case=case, entry=name,
                                      variant=fmt + '/' + dt, mismatches=bad[:4], kind='format_dependence',
                                      base={k: base['ok'].get(k) for k, _ in bad[:2]}, observed={k: out['ok'].get(k) for k, _ in bad[:2]})
                if rep == 0 and len(ctx.samples) < 6:
                    ctx.sample(dict(name=name, family=fam, m=spec, opts=opts))
        _second_sentence(ctx, impl, desc, rng, quick, nmax)
    ctx.rule = ('every registered public algorithm x graphs (square directed/undirected, connected symmetric, biadjacency) x '
                'containers admitted by its current signature annotation (csr,csc,coo,lil,dense or csr only) x {int,float,bool} '
                'of equal value x CSR with reversed (unsorted) rows; outputs compared with the canonical CSR run; arguments and '
                'matrices snapshotted before/after; distinct by (algorithm, graph, arguments, variant); non-trivial = more than one stored entry; '
                'plus, for non-modification only: the same runs on CSR with explicitly stored zeros, and direct snapshot calls of ~90 '
                'unregistered public entry points (harness/workers/c01.py) on random square / rectangular graphs')
    ctx.assumptions = ['KCenters draws from the global NumPy generator without a seed parameter and is not compared; Spring/ForceAtlas are given explicit initial positions',
                       'ARPACK-backed outputs are not compared when the relevant spectrum has a near-tie or a near-zero value (margin guard, counted)',
                       'unsorted-CSR variant of algorithms that take discrete decisions on float sums only on unit weights',
                       'non-modification: run-time snapshots, and statically the may-alias / may-mutate analysis of harness/translators/argmut.py '
                       '(rules and trusted base in its header: external functions not listed there are assumed pure; annotations are the documented '
                       'types) whose abstract domain is proved sound on the small language of Model/ArgFrame.v; library facts it assumes are probed at run time']


def _second_sentence(ctx, impl, desc, rng, quick, nmax):
    # (a) library facts assumed by the static analysis
    pr = impl.call('c01', 'probe', None, timeout=60)
    ctx.traces += 1
    if 'ok' not in pr:
        ctx.notes.append('argmut probe did not run: %s' % _short(pr))
        ctx.proof_broken.append('argmut: the NumPy / SciPy probe did not run (%s)' % _short(pr))
    else:
        bad = sorted(k for k, v in pr['ok'].items() if v is not True and not k.startswith('(info)'))
        ctx.count('argmut_probe', ('probe',), nontrivial=True, n=len(pr['ok']))
        ctx.extra['argmut_probe'] = pr['ok']
        if bad:
            ctx.proof_broken.append('argmut: library facts assumed by the static analysis do not hold here: ' + '; '.join(bad))
    # (b) stored zeros: only non-modification is demanded (a stored zero is not an edge of "the same graph" for every kernel)
    for name, d in sorted(desc.items()):
        for rep in range(2 if quick else 6):
            kind = cases.pick_kind(rng, d)
            spec, nr, nc, fam = cases.make_matrix(rng, kind, nmax, weighted=rng.random() < 0.6)
            opts = _case_opts(rng, name, d, nr, nc, kind)
            s2 = stored_zeros(rng, spec, kind)
            s2['dtype'] = 'int' if rep % 2 == 0 else 'float'
            out = impl.call('registry', 'run', dict(name=name, m=s2, opts=opts, snapshot=True), timeout=30)
            ctx.traces += 1
            ctx.count(name + ':csr_explicit_zeros', (name, s2['shape'], s2['coo'], s2['dtype'], repr(sorted(opts.items(), key=str))),
                      nontrivial=len(s2['coo']) > len(spec['coo']))
            _mod(ctx, name, out, s2, opts, 'csr_explicit_zeros')
    # (c) unregistered public entry points, called directly on caller-owned objects
    for rep in range(6 if quick else 40):
        spec, n, _, fam = cases.make_matrix(rng, 'sq', nmax, weighted=True)
        bspec, nr, nc, _ = cases.make_matrix(rng, 'bip', nmax, weighted=True)
        args = dict(m=spec, b=bspec, seed=rng.randrange(10 ** 6))
        out = impl.call('c01', 'demos', args, timeout=240)
        ctx.traces += 1
        if 'ok' not in out:
            ctx.notes.append('c01 demos did not complete: %s' % _short(out))
            continue
        seen = 0
        for demo, changed in sorted(out['ok'].items()):
            ctx.count('direct:' + demo, (demo, spec['coo'], bspec['coo'], args['seed']), nontrivial=len(spec['coo']) > 1)
            if isinstance(changed, str):
                ctx.extra.setdefault('direct_call_errors', {})[demo] = changed   # the call raised: not this property's business
                continue
            if demo.startswith('(by design)'):
                seen += bool(changed) if demo in BY_DESIGN else 0
                if demo == '(by design) get_dendrogram[copy_tree]' and changed:
                    ctx.violation('get_dendrogram', 'copy_tree=True still consumes the caller\'s tree', case=args, entry='get_dendrogram',
                                  variant='copy_tree', kind='argument_modified')
                continue
            if changed:
                ctx.violation(demo.split('[')[0], 'an argument passed by the caller was modified: %s' % changed, case=dict(demo=demo, **args),
                              entry=demo, variant='direct_call', kind='argument_modified', arguments=changed)
        if seen != len(BY_DESIGN):
            ctx.notes.append('snapshot machinery did not see the by-design writes (%d of %d)' % (seen, len(BY_DESIGN)))
            ctx.proof_broken.append('argmut: the snapshot oracle does not see the writes of svg_text / get_dendrogram any more (review Props/C01.v)')
    # (d) what the static side currently says, and a readable diagnosis when it no longer matches the reviewed list
    coq = os.environ.get('VERIF_COQ') or os.path.join(os.path.dirname(os.path.dirname(os.path.dirname(os.path.abspath(__file__)))), 'coq')
    try:
        txt = open(os.path.join(coq, 'Gen', 'ArgMut.v')).read()
        props = open(os.path.join(coq, 'Props', 'C01.v')).read()
        gen1 = txt.split('Definition arg_mutations :')[-1].split('Definition arg_mutations_undocumented_types :')[0]
        gen2 = txt.split('Definition arg_mutations_undocumented_types :')[-1].split('(* writes, per writer')[0]
        quad = r'\("([^"]*)", "([^"]*)", "([^"]*)", "([^"]*)"\)'
        tri = r'\("([^"]*)", "([^"]*)", "([^"]*)"\)'
        cur1, cur2 = re.findall(quad, gen1), re.findall(quad, gen2)
        rev1 = set(re.findall(tri, props.split('Theorem arg_mutations_reviewed')[-1].split('Proof.')[0]))
        rev2 = set(re.findall(tri, props.split('Theorem arg_mutations_undocumented_types_reviewed')[-1].split('Proof.')[0]))
        ctx.extra['argmut'] = dict(
            functions_scanned=int(re.search(r'n_functions_scanned : nat := (\d+)', txt).group(1)),
            public_entry_points=int(re.search(r'n_public_entry_points : nat := (\d+)', txt).group(1)),
            entries=len(cur1), entries_undocumented_types=len(cur2))
        new = [e for e in cur1 if e[:3] not in rev1] + [e for e in cur2 if e[:3] not in rev2]
        gone = sorted((rev1 - {e[:3] for e in cur1}) | (rev2 - {e[:3] for e in cur2}))
        if new:
            ctx.extra['argmut']['new_entries'] = new[:40]
            ctx.proof_broken.append('argmut: %d (function, parameter, writer) entries are not in the reviewed list of Props/C01.v, e.g. %s'
                                    % (len(new), '; '.join('%s(%s) written in %s via %s' % e for e in new[:3])))
        elif gone:
            ctx.extra['argmut']['entries_gone'] = gone[:40]
            ctx.notes.append('argmut: reviewed entries no longer produced by the tree: %s' % gone[:5])
    except (OSError, AttributeError, ValueError, IndexError):
        pass


def _mod(ctx, name, res, spec, opts, variant):
    if 'ok' not in res:
        return
    if res['ok'].get('__modified__', [None, False])[1]:
        ctx.violation(name, 'the matrix passed by the caller was modified', case=dict(name=name, m=spec, opts=opts), entry=name,
                      variant=variant, kind='input_modified')
    if '__args_modified__' in res['ok']:
        ctx.violation(name, 'an argument passed by the caller was modified: %s' % res['ok']['__args_modified__'][1],
                      case=dict(name=name, m=spec, opts=opts), entry=name, variant=variant, kind='argument_modified')


def _short(r):
    if 'ok' in r:
        return 'ok'
    return {k: r[k] for k in ('err', 'msg') if k in r}

"""C01 — results do not depend on the container format; inputs are never modified.

Metamorphic run of every registered public algorithm on one graph in every documented container
(read from the current signature annotation) x dtypes of equal value x CSR with unsorted indices,
against the canonical sorted int CSR run. The theorem side (Props/C01.v) is the conversion model:
container -> CSR keeps the denotation, and kernels that only test membership do not see row order."""
import copy

from .. import cases
from ..compare import compare
from ..impl import Impl

# discrete decisions taken on floating-point sums: reordering a row changes the summation order, so the
# unsorted-CSR variant is only compared on unit weights (sums of equal terms are order independent)
DISCRETE = ('Louvain', 'Leiden', 'Propagation', 'PropagationClustering', 'Paris', 'LouvainHierarchy', 'LouvainIteration',
            'LouvainEmbedding', 'KCenters', 'NNClassifier', 'NNLinker', 'DiffusionClassifier', 'PageRankClassifier',
            'Spring', 'ForceAtlas', 'color_weisfeiler_lehman')
CLASSIFIERS = ('DiffusionClassifier', 'PageRankClassifier', 'NNClassifier', 'Propagation')
SKIP = ('KCenters',)   # use the global NumPy generator without any seed parameter: two runs differ by design


def base_name(name):
    return name.split('[')[0]


def variants(rng, accepts, unit, name, quick):
    if accepts == 'all':
        fmts = ['csr', 'csc', 'coo', 'lil', 'dense']
    elif accepts == 'csr+dense':
        fmts = ['csr', 'dense']
    else:
        fmts = ['csr']
    out = []
    for f in fmts:
        for dt in ('int', 'float', 'bool'):
            if dt == 'bool' and not unit:
                continue
            if f == 'csr' and dt == 'int':
                continue
            out.append((f, dt))
    if unit or base_name(name) not in DISCRETE:
        out.append(('csr_unsorted', 'int'))
        out.append(('csr_unsorted', 'float'))
    if quick and len(out) > 6:
        keep = rng.sample(out, 6)
        out = keep
    return out


def margin_ok(base, out, key):
    """Classifier labels may differ only where the two best class probabilities are (nearly) tied."""
    pk = key.replace('labels', 'probs')
    if pk not in base:
        return False
    a, b, probs = base[key][1], out[key][1], base[pk][1]
    for i, (x, y) in enumerate(zip(a, b)):
        if x != y:
            row = sorted(probs[i], reverse=True)
            if len(row) >= 2 and abs(row[0] - row[1]) > 1e-6:
                return False
    return True


def run(ctx, scratch):
    rng = ctx.rng
    quick = ctx.tier == 'quick'
    reps = 8 if quick else 40
    nmax = 9 if quick else 20
    with Impl(scratch) as impl:
        desc = impl.call('registry', 'describe', None, timeout=120)['ok']
        ctx.extra['accepts'] = {n: d['accepts'] for n, d in desc.items()}
        for name, d in sorted(desc.items()):
            if base_name(name) in SKIP or not d['deterministic']:
                continue
            for rep in range(reps):
                kind = cases.pick_kind(rng, d)
                weighted = rng.random() < 0.6
                spec, nr, nc, fam = cases.make_matrix(rng, kind, nmax, weighted=weighted)
                opts = cases.make_opts(rng, d, nr, nc, kind == 'bip')
                if d['seeded']:
                    opts.setdefault('params', {})['random_state'] = 7
                    if base_name(name) in ('Louvain', 'Leiden', 'LouvainHierarchy', 'LouvainIteration', 'LouvainEmbedding'):
                        opts['params']['shuffle_nodes'] = rng.random() < 0.5
                if name == 'GNNClassifier':
                    opts = cases.gnn_opts(rng, nr)
                if name == 'get_dag':
                    opts['order'] = [rng.randint(-1, 3) for _ in range(nr)]
                unit = all(e[2] == 1 for e in spec['coo'])
                base = impl.call('registry', 'run', dict(name=name, m=spec, opts=opts, snapshot=True), timeout=60)
                ctx.traces += 1
                skip = ()
                if cases.degenerate(impl, name, spec, opts):
                    ctx.margin_dropped += 1
                    skip = ('emb', 'vec', 'mat', 'ivec', 'labels') if base_name(name) in ('HITS', 'Spring', 'NNClassifier', 'NNLinker') else ('emb',)
                key = (name, spec['shape'], spec['coo'], repr(sorted(opts.items(), key=str)))
                ctx.count(name, key, nontrivial=len(spec['coo']) > 1)
                if 'hang' in base or 'crash' in base:
                    continue    # C17's business
                _mod(ctx, name, base, spec, opts, 'csr/int')
                for (fmt, dt) in variants(rng, d['accepts'], unit, name, quick):
                    s2 = copy.deepcopy(spec)
                    s2['fmt'] = fmt
                    s2['dtype'] = dt
                    out = impl.call('registry', 'run', dict(name=name, m=s2, opts=opts, snapshot=True), timeout=60)
                    ctx.traces += 1
                    ctx.count(name + ':' + fmt + '/' + dt, key + (fmt, dt), nontrivial=len(spec['coo']) > 1)
                    if 'hang' in out or 'crash' in out:
                        continue
                    case = dict(name=name, m=spec, opts=opts, variant=[fmt, dt], family=fam)
                    if ('ok' in base) != ('ok' in out):
                        ctx.violation(name, 'one container raises, the other does not', case=case, entry=name, variant=fmt + '/' + dt,
                                      base=_short(base), observed=_short(out), kind='error_mismatch')
                        continue
                    if 'ok' not in base:
                        continue
                    _mod(ctx, name, out, s2, opts, fmt + '/' + dt)
                    rt, at = (2e-3, 2e-4) if (name in ('PageRank[diteration]', 'PageRank[push]') and fmt == 'csr_unsorted') else (1e-6, 1e-8)
                    bad = compare(base['ok'], out['ok'], rtol=rt, atol=at, skip_tags=skip)   # float32 sweep kernels: the sweep order follows the storage order
                    if base_name(name) in CLASSIFIERS:
                        bad = [(k, why) for (k, why) in bad if not (k.startswith('labels') and margin_ok(base['ok'], out['ok'], k))]
                    if bad:
                        ctx.violation(name, 'output differs between containers: %s' % bad[0][0], case=case, entry=name,
                                      variant=fmt + '/' + dt, mismatches=bad[:4], kind='format_dependence',
                                      base={k: base['ok'].get(k) for k, _ in bad[:2]}, observed={k: out['ok'].get(k) for k, _ in bad[:2]})
                if rep == 0 and len(ctx.samples) < 6:
                    ctx.sample(dict(name=name, family=fam, m=spec, opts=opts))
    ctx.rule = ('every registered public algorithm x graphs (square directed/undirected, connected symmetric, biadjacency) x '
                'containers admitted by its current signature annotation (csr,csc,coo,lil,dense or csr only) x {int,float,bool} '
                'of equal value x CSR with reversed (unsorted) rows; outputs compared with the canonical CSR run; arguments and '
                'matrices snapshotted before/after; distinct by (algorithm, graph, arguments, variant); non-trivial = more than one stored entry')
    ctx.assumptions = ['KCenters draws from the global NumPy generator without a seed parameter and is not compared; Spring/ForceAtlas are given explicit initial positions',
                       'ARPACK-backed outputs are not compared when the relevant spectrum has a near-tie or a near-zero value (margin guard, counted)',
                       'unsorted-CSR variant of algorithms that take discrete decisions on float sums only on unit weights',
                       'non-modification is decided by run-time snapshots (aliasing is not expressible in the pure model)']


def _mod(ctx, name, res, spec, opts, variant):
    if 'ok' not in res:
        return
    if res['ok'].get('__modified__', [None, False])[1]:
        ctx.violation(name, 'the matrix passed by the caller was modified', case=dict(name=name, m=spec, opts=opts), entry=name,
                      variant=variant, kind='input_modified')
    if '__args_modified__' in res['ok']:
        ctx.violation(name, 'an argument passed by the caller was modified: %s' % res['ok']['__args_modified__'][1],
                      case=dict(name=name, m=spec, opts=opts), entry=name, variant=variant, kind='argument_modified')


def _short(r):
    if 'ok' in r:
        return 'ok'
    return {k: r[k] for k in ('err', 'msg') if k in r}

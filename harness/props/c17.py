"""C17 — every fit terminates and stays within its buffers.

Run time: every registered public algorithm at default and boundary parameters on valid, especially degenerate,
inputs in supervised workers (a time-out is a hang, a signal is a crash; a Python exception is an admissible
outcome), on the normal build AND on a bounds-checked rebuild of the same sources (every boundscheck/wraparound
decorator flipped, -D_GLIBCXX_ASSERTIONS): an IndexError or abort that only the checked build shows is an
out-of-bounds access of a compiled kernel. Theorem side: Props/C17.v (no out-of-bounds access and fuel bounds of
the kernel models)."""
import copy

from .. import build, cases, gen
from ..impl import Impl

GEN_FILES = ['ParisSrc.v']

BOUNDARY = {
    'KCenters': [dict(n_clusters=1), dict(n_clusters=3, center_position='both'), dict(n_clusters=2, directed=True)],
    'Propagation': [dict(n_iter=-1), dict(n_iter=0), dict(n_iter=1, node_order='increasing'), dict(weighted=False, n_iter=-1)],
    'PropagationClustering': [dict(n_iter=-1), dict(n_iter=0), dict(weighted=False)],
    'Louvain[dugue]': [dict(tol_optimization=0, tol_aggregation=0), dict(resolution=0), dict(n_aggregations=0), dict(resolution=10)],
    'Louvain[newman]': [dict(tol_optimization=0, tol_aggregation=0)],
    'Louvain[potts]': [dict(tol_optimization=0, tol_aggregation=0, resolution=0.01)],
    'Leiden[dugue]': [dict(tol_optimization=0, tol_aggregation=0), dict(resolution=0), dict(resolution=10)],
    'Leiden[newman]': [dict(tol_optimization=0, tol_aggregation=0)],
    'Leiden[potts]': [dict(tol_optimization=0, tol_aggregation=0, resolution=0.01)],
    'LouvainIteration': [dict(depth=1), dict(depth=6)],
    'Paris': [dict(weights='uniform'), dict(reorder=False)],
    'PageRank[piteration]': [dict(damping_factor=0, n_iter=1), dict(damping_factor=0.99, n_iter=0)],
    'PageRank[diteration]': [dict(n_iter=0), dict(damping_factor=0.99, n_iter=3, tol=0)],
    'PageRank[push]': [dict(tol=1e-12), dict(damping_factor=0.99, tol=1e-9)],
    'PageRank[RH]': [dict(n_iter=0)],
    'Katz': [dict(path_length=1), dict(path_length=12, damping_factor=0.99)],
    'Diffusion': [dict(n_iter=0), dict(n_iter=30, damping_factor=1)],
    'Dirichlet': [dict(n_iter=0), dict(n_iter=40)],
    'DiffusionClassifier': [dict(n_iter=0), dict(n_iter=1, centering=False)],
    'count_cliques[3]': [dict(clique_size=2), dict(clique_size=7)],
    'color_weisfeiler_lehman': [dict(max_iter=1), dict(max_iter=0)],
    'Spectral': [dict(n_components=1), dict(n_components=3, decomposition='laplacian')],
    'SVD': [dict(n_components=1)],
    'Spring': [dict(n_iter=0), dict(n_iter=60, approx_radius=0.5)],
    'ForceAtlas': [dict(n_iter=0), dict(n_iter=60, approx_radius=0.5, lin_log=True)],
    'NNClassifier': [dict(n_neighbors=1), dict(n_neighbors=50)],
    'NNLinker': [dict(n_neighbors=1), dict(n_neighbors=50, threshold=0.9)],
    'get_cycles': [dict(directed=True), dict(directed=False)],
}

DEGENERATE = ['one_edge', 'few_edges', 'sinks', 'isolated', 'loops', 'components', 'star', 'path', 'empty_rows', 'regular']


def degenerate_matrix(rng, fam, kind, nmax):
    """Valid graphs, especially degenerate ones. Returns (spec, n_row, n_col)."""
    if kind == 'bip':
        r, c = rng.randint(2, nmax), rng.randint(2, nmax)
        if r == c:
            c += 1
        if fam == 'one_edge':
            E = [(rng.randrange(r), rng.randrange(c))]
        elif fam in ('few_edges', 'empty_rows', 'sinks', 'isolated'):
            E = sorted({(rng.randrange(r), rng.randrange(c)) for _ in range(max(1, min(r, c) // 3))})
        elif fam == 'star':
            E = [(0, j) for j in range(c)]
        else:
            E = sorted({(i, j) for i in range(r) for j in range(c) if rng.random() < 0.3} | {(0, 0)})
        return dict(shape=[r, c], coo=[[i, j, rng.randint(1, 3)] for (i, j) in E], dtype='int', fmt='csr'), r, c
    n = rng.randint(3, nmax)
    sym = kind in ('sym', 'symconn')
    E = set()

    def add(i, j):
        E.add((i, j))
        if sym:
            E.add((j, i))
    if kind == 'symconn':
        n, EE, _ = cases.connected_sym(rng, nmax, nmin=3)
        E = set(EE)
        if fam == 'loops':
            E.add((0, 0))
    elif fam == 'one_edge':
        i, j = rng.sample(range(n), 2)
        add(i, j)
    elif fam in ('few_edges', 'empty_rows', 'isolated'):
        for _ in range(max(1, n // 4)):
            i, j = rng.sample(range(n), 2)
            add(i, j)
    elif fam == 'sinks':
        for i in range(n - 1):
            if rng.random() < 0.6:
                add(i, rng.randrange(i + 1, n))      # edges only go up: the last nodes are sinks (directed kinds)
        if not E:
            add(0, 1)
    elif fam == 'loops':
        for i in range(n):
            if rng.random() < 0.5:
                E.add((i, i))
        add(0, 1)
    elif fam == 'components':
        k = max(1, n // 2)
        for (lo, hi) in ((0, k), (k, n)):
            for i in range(lo, hi):
                for j in range(i + 1, hi):
                    if rng.random() < 0.5:
                        add(i, j)
        if not E:
            add(0, 1)
    elif fam == 'star':
        for i in range(1, n):
            add(0, i)
    elif fam == 'path':
        for i in range(n - 1):
            add(i, i + 1)
    else:
        n, EE, _ = gen.random_graph(rng, nmax, directed=not sym, nmin=3)
        E = set(EE) or {(0, 1), (1, 0)}
    w = {}
    for (i, j) in sorted(E):
        w[(i, j)] = w.get((j, i)) if sym and (j, i) in w else rng.randint(1, 4)
    return dict(shape=[n, n], coo=[[i, j, w[(i, j)]] for (i, j) in sorted(E)], dtype='int', fmt='csr'), n, n


def symmetric_unit(rng):
    """Unit-weight, highly symmetric graphs (cliques, cycles, complete bipartite graphs, disjoint triangles, a cycle with a
    pendant node): the inputs on which gains, votes and similarities tie EXACTLY, so that a test written `>=` instead of `>`
    (or the reverse) lets a loop alternate for ever."""
    shape = rng.choice(['clique', 'cycle', 'kab', 'triangles', 'cycle+pendant', 'two_cliques'])
    E = set()
    if shape == 'clique':
        n = rng.randint(3, 7)
        E = {(i, j) for i in range(n) for j in range(n) if i != j}
    elif shape == 'cycle':
        n = rng.randint(3, 9)
        E = {(i, (i + 1) % n) for i in range(n)}
    elif shape == 'kab':
        a, b = rng.randint(1, 4), rng.randint(2, 4)
        n = a + b
        E = {(i, a + j) for i in range(a) for j in range(b)}
    elif shape == 'triangles':
        k = rng.randint(1, 3)
        n = 3 * k + rng.randint(0, 1)
        for t in range(k):
            E |= {(3 * t, 3 * t + 1), (3 * t + 1, 3 * t + 2), (3 * t, 3 * t + 2)}
    elif shape == 'cycle+pendant':
        m = rng.randint(3, 6)
        n = m + 1
        E = {(i, (i + 1) % m) for i in range(m)} | {(0, m)}
    else:
        a = rng.randint(3, 4)
        n = 2 * a
        E = {(i, j) for i in range(a) for j in range(a) if i != j} | {(a + i, a + j) for i in range(a) for j in range(a) if i != j}
        E.add((0, a))
    E |= {(j, i) for (i, j) in E}
    return dict(shape=[n, n], coo=[[i, j, 1] for (i, j) in sorted(E)], dtype='int', fmt='csr'), n, shape


TIE_PARAMS = [{}, dict(resolution=0.5), dict(resolution=0), dict(resolution=2)]


def oscillating(rng):
    """Small weighted digraphs with two seeds: the family on which default label propagation may alternate."""
    n = rng.randint(4, 8)
    E = {}
    for i in range(n):
        for j in range(n):
            if i != j and rng.random() < 0.4:
                E[(i, j)] = rng.randint(1, 5)
    if not E:
        E[(0, 1)] = 1
    return dict(shape=[n, n], coo=[[i, j, w] for (i, j), w in sorted(E.items())], dtype='int', fmt='csr'), n


def run(ctx, scratch):
    rng = ctx.rng
    quick = ctx.tier == 'quick'
    nmax = 14 if quick else 40
    reps = 6 if quick else 30
    checked = build.build_impl('checked')
    normal = Impl(scratch, threads=2)
    chk = Impl(checked, threads=2)
    ctx.extra['checked_build'] = 'boundscheck/wraparound forced on, -O1 -D_GLIBCXX_ASSERTIONS'
    try:
        desc = normal.call('registry', 'describe', None, timeout=120)['ok']
        for name in sorted(desc):
            d = desc[name]
            psets = [{}] + BOUNDARY.get(name, [])
            for pi, params in enumerate(psets):
                for rep in range(reps if pi == 0 else max(1, reps // 2)):
                    fam = rng.choice(DEGENERATE)
                    kind = cases.pick_kind(rng, d)
                    # get_cycles lists every simple cycle: its output (hence its running time) is exponential in dense graphs
                    spec, nr, nc = degenerate_matrix(rng, fam, kind, 8 if name == 'get_cycles' else nmax)
                    opts = cases.make_opts(rng, d, nr, nc, kind == 'bip')
                    if name == 'GNNClassifier':
                        opts = cases.gnn_opts(rng, nr)
                    if params:
                        opts.setdefault('params', {}).update(params)
                    if name == 'get_dag':
                        opts['order'] = [rng.randint(-1, 3) for _ in range(nr)]
                    _both(ctx, normal, chk, name, spec, opts, fam, timeout=15 + 0.5 * (nr + nc))
        # label values >= n and gaps (valid seeds), few edges: the accumulator / data bounds of vote_update
        for k in range(40 if quick else 300):
            fam = rng.choice(['one_edge', 'few_edges', 'star', 'regular'])
            spec, nr, nc = degenerate_matrix(rng, fam, 'sq', nmax)
            nodes = rng.sample(range(nr), 2)
            big = rng.choice([nr, nr + 5, 100, 1000])
            seeds = {'all': {'dict': {str(nodes[0]): big, str(nodes[1]): rng.randrange(nr)}}}
            for name in ('Propagation', 'DiffusionClassifier', 'PageRankClassifier', 'NNClassifier'):
                opts = dict(seeds=seeds, params=dict(n_iter=3) if name == 'Propagation' else {})
                _both(ctx, normal, chk, name, spec, opts, fam + '+large_label', timeout=20)
        # Paris on near-tied similarities at index placements that change the neighbour scan order (tie rule of the chain)
        from .c07 import near_tie
        for k in range(60 if quick else 500):
            n, E, mode = near_tie(rng)
            coo = sorted([[i, j, w] for (i, j, w) in E] + [[j, i, w] for (i, j, w) in E])
            spec = dict(shape=[n, n], coo=coo, dtype='float', fmt='csr')
            for params in (dict(weights='degree'), dict(weights='uniform')):
                _both(ctx, normal, None, 'Paris', spec, dict(params=params), 'near_tie_' + mode, timeout=5)
        # exact ties: unit-weight symmetric graphs x every registered algorithm (resolution varied where it exists)
        for name in sorted(desc):
            d = desc[name]
            if name == 'get_cycles' or d['kinds'] == ['bip']:
                continue
            conn_only = not ('sym' in d['kinds'] or 'sq' in d['kinds'])
            takes_res = name.split('[')[0] in ('Louvain', 'Leiden', 'LouvainIteration', 'LouvainHierarchy', 'LouvainEmbedding')
            for k in range(6 if quick else 40):
                spec, n, shape = symmetric_unit(rng)
                while conn_only and shape == 'triangles':
                    spec, n, shape = symmetric_unit(rng)
                opts = cases.make_opts(rng, d, n, n, False)
                if name == 'GNNClassifier':
                    opts = cases.gnn_opts(rng, n)
                if takes_res:
                    opts.setdefault('params', {}).update(TIE_PARAMS[k % len(TIE_PARAMS)])
                _both(ctx, normal, None, name, spec, opts, 'tie_' + shape, timeout=15)
        # oscillating configurations under the default (unbounded) number of sweeps
        for k in range(60 if quick else 600):
            spec, n = oscillating(rng)
            a, b = rng.sample(range(n), 2)
            opts = dict(seeds={'all': {'dict': {str(a): 0, str(b): 1}}}, params=dict(n_iter=-1, node_order=rng.choice([None, 'increasing', 'decreasing'])))
            _both(ctx, normal, None, 'Propagation', spec, opts, 'oscillating', timeout=8)
    finally:
        normal.close()
        chk.close()
    ctx.extra['worker_hangs'] = normal.hangs + chk.hangs
    ctx.extra['worker_crashes'] = normal.crashes + chk.crashes
    ctx.rule = ('every registered algorithm x default and boundary parameter sets x degenerate valid inputs (one edge, far fewer edges than '
                'nodes, sinks, isolated nodes, self-loops, several components, stars, paths) x {normal build, bounds-checked build}; seed '
                'labels >= n; oscillating weighted digraphs under the default sweep count; time-out 15 s + 0.5 s per node; '
                'distinct by (algorithm, parameters, graph); non-trivial = at least one edge')
    ctx.assumptions = ['a Python exception is an admissible outcome (the property allows "returns or raises")',
                       'undefined behaviour other than indexing (e.g. signed overflow) is not observable by the checked build',
                       'time proportionate to the input is approximated by a fixed budget far above the observed run times (milliseconds)']


def _both(ctx, normal, chk, name, spec, opts, fam, timeout):
    req = dict(name=name, m=spec, opts=opts)
    a = normal.call('registry', 'run', req, timeout=timeout)
    ctx.traces += 1
    ctx.count(name + ':' + fam, (name, spec['shape'], spec['coo'], repr(sorted(opts.items(), key=str))), len(spec['coo']) > 0)
    case = dict(name=name, m=spec, opts=opts, family=fam)
    params = opts.get('params', {})
    if 'hang' in a:
        ctx.violation(name, 'does not return within %.0f s on a %d-node input' % (timeout, spec['shape'][0]), case=case, entry=name,
                      kind='hang', family=fam, default_n_iter=(params.get('n_iter', -1) == -1),
                      tol_zero=(params.get('tol_optimization') == 0))
        return
    if 'crash' in a:
        ctx.violation(name, 'the interpreter died (exit %s)' % a['crash'], case=case, entry=name, kind='crash', family=fam)
        return
    if chk is None:
        return
    b = chk.call('registry', 'run', req, timeout=timeout * 3)
    ctx.traces += 1
    if 'crash' in b:
        ctx.violation(name, 'bounds-checked build aborts (exit %s): out-of-bounds access in a compiled kernel' % b['crash'],
                      case=case, entry=name, kind='oob_abort', family=fam)
    elif 'hang' in b:
        ctx.violation(name, 'bounds-checked build does not return', case=case, entry=name, kind='hang_checked', family=fam)
    elif 'ok' in a and b.get('err') == 'IndexError':
        ctx.violation(name, 'bounds-checked build raises IndexError where the normal build returns: out-of-bounds access',
                      case=case, entry=name, kind='oob_index', family=fam, msg=b.get('msg'), tb=b.get('tb'))
    if len(ctx.samples) < 6 and fam != 'regular':
        ctx.sample(dict(name=name, family=fam, m=spec, params=params))

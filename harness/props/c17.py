"""C17 — every fit terminates and stays within its buffers.

Run time: every registered public algorithm at default and boundary parameters on valid, especially degenerate,
inputs in supervised workers (a time-out is a hang, a signal is a crash; a Python exception is an admissible
outcome), on the normal build AND on a bounds-checked rebuild of the same sources (every boundscheck/wraparound
decorator flipped, -D_GLIBCXX_ASSERTIONS): an IndexError or abort that only the checked build shows is an
out-of-bounds access of a compiled kernel. Theorem side: Props/C17.v (no out-of-bounds access and fuel bounds of
the kernel models)."""
import copy

from .. import build, cases, gen
from ..impl import Impl

GEN_FILES = ['ParisSrc.v']

BOUNDARY = {
    'KCenters': [dict(n_clusters=1), dict(n_clusters=3, center_position='both'), dict(n_clusters=2, directed=True)],
    'Propagation': [dict(n_iter=-1), dict(n_iter=0), dict(n_iter=1, node_order='increasing'), dict(weighted=False, n_iter=-1)],
    'PropagationClustering': [dict(n_iter=-1), dict(n_iter=0), dict(weighted=False)],
    'Louvain[dugue]': [dict(tol_optimization=0, tol_aggregation=0), dict(resolution=0), dict(n_aggregations=0), dict(resolution=10)],
    'Louvain[newman]': [dict(tol_optimization=0, tol_aggregation=0)],
    'Louvain[potts]': [dict(tol_optimization=0, tol_aggregation=0, resolution=0.01)],
    'Leiden[dugue]': [dict(tol_optimization=0, tol_aggregation=0), dict(resolution=0), dict(resolution=10)],
    'Leiden[newman]': [dict(tol_optimization=0, tol_aggregation=0)],
    'Leiden[potts]': [dict(tol_optimization=0, tol_aggregation=0, resolution=0.01)],
    'LouvainIteration': [dict(depth=1), dict(depth=6)],
    'Paris': [dict(weights='uniform'), dict(reorder=False)],
    'PageRank[piteration]': [dict(damping_factor=0, n_iter=1), dict(damping_factor=0.99, n_iter=0)],
    'PageRank[diteration]': [dict(n_iter=0), dict(damping_factor=0.99, n_iter=3, tol=0)],
    'PageRank[push]': [dict(tol=1e-12), dict(damping_factor=0.99, tol=1e-9)],
    'PageRank[RH]': [dict(n_iter=0)],
    'Katz': [dict(path_length=1), dict(path_length=12, damping_factor=0.99)],
    'Diffusion': [dict(n_iter=0), dict(n_iter=30, damping_factor=1)],
    'Dirichlet': [dict(n_iter=0), dict(n_iter=40)],
    'DiffusionClassifier': [dict(n_iter=0), dict(n_iter=1, centering=False)],
    'count_cliques[3]': [dict(clique_size=2), dict(clique_size=7)],
    'color_weisfeiler_lehman': [dict(max_iter=1), dict(max_iter=0), dict(max_iter=2), dict(max_iter=3)],
    'Spectral': [dict(n_components=1), dict(n_components=3, decomposition='laplacian')],
    'SVD': [dict(n_components=1)],
    'Spring': [dict(n_iter=0), dict(n_iter=60, approx_radius=0.5)],
    'ForceAtlas': [dict(n_iter=0), dict(n_iter=60, approx_radius=0.5, lin_log=True)],
    'NNClassifier': [dict(n_neighbors=1), dict(n_neighbors=50)],
    'NNLinker': [dict(n_neighbors=1), dict(n_neighbors=50, threshold=0.9)],
    'get_cycles': [dict(directed=True), dict(directed=False)],
}

DEGENERATE = ['one_edge', 'few_edges', 'sinks', 'isolated', 'loops', 'components', 'star', 'path', 'empty_rows', 'regular', 'hub_last']


def degenerate_matrix(rng, fam, kind, nmax):
    """Valid graphs, especially degenerate ones. Returns (spec, n_row, n_col)."""
    if kind == 'bip':
        r, c = rng.randint(2, nmax), rng.randint(2, nmax)
        if r == c:
            c += 1
        if fam == 'one_edge':
            E = [(rng.randrange(r), rng.randrange(c))]
        elif fam in ('few_edges', 'empty_rows', 'sinks', 'isolated'):
            E = sorted({(rng.randrange(r), rng.randrange(c)) for _ in range(max(1, min(r, c) // 3))})
        elif fam == 'star':
            E = [(0, j) for j in range(c)]
        else:
            E = sorted({(i, j) for i in range(r) for j in range(c) if rng.random() < 0.3} | {(0, 0)})
        return dict(shape=[r, c], coo=[[i, j, rng.randint(1, 3)] for (i, j) in E], dtype='int', fmt='csr'), r, c
    n = rng.randint(3, nmax)
    sym = kind in ('sym', 'symconn')
    E = set()

    def add(i, j):
        E.add((i, j))
        if sym:
            E.add((j, i))
    if kind == 'symconn':
        n, EE, _ = cases.connected_sym(rng, nmax, nmin=3)
        E = set(EE)
        if fam == 'loops':
            E.add((0, 0))
    elif fam == 'one_edge':
        i, j = rng.sample(range(n), 2)
        add(i, j)
    elif fam in ('few_edges', 'empty_rows', 'isolated'):
        for _ in range(max(1, n // 4)):
            i, j = rng.sample(range(n), 2)
            add(i, j)
    elif fam == 'sinks':
        for i in range(n - 1):
            if rng.random() < 0.6:
                add(i, rng.randrange(i + 1, n))      # edges only go up: the last nodes are sinks (directed kinds)
        if not E:
            add(0, 1)
    elif fam == 'loops':
        for i in range(n):
            if rng.random() < 0.5:
                E.add((i, i))
        add(0, 1)
    elif fam == 'components':
        k = max(1, n // 2)
        for (lo, hi) in ((0, k), (k, n)):
            for i in range(lo, hi):
                for j in range(i + 1, hi):
                    if rng.random() < 0.5:
                        add(i, j)
        if not E:
            add(0, 1)
    elif fam == 'star':
        for i in range(1, n):
            add(0, i)
    elif fam == 'hub_last':
        # the LAST node is the hub of a star (the node of largest degree sits at the end of every array), next to a small clique
        n = max(n, 7) if rng.random() < 0.7 else rng.choice([60, 300])
        for i in range(4):
            for j in range(i + 1, 4):
                add(i, j)
        for i in range(4, n - 1):
            add(n - 1, i)
            if not sym:
                E.add((i, n - 1))
    elif fam == 'path':
        for i in range(n - 1):
            add(i, i + 1)
    else:
        n, EE, _ = gen.random_graph(rng, nmax, directed=not sym, nmin=3)
        E = set(EE) or {(0, 1), (1, 0)}
    w = {}
    for (i, j) in sorted(E):
        w[(i, j)] = w.get((j, i)) if sym and (j, i) in w else rng.randint(1, 4)
    return dict(shape=[n, n], coo=[[i, j, w[(i, j)]] for (i, j) in sorted(E)], dtype='int', fmt='csr'), n, n


def symmetric_unit(rng):
    """Unit-weight, highly symmetric graphs (cliques, cycles, complete bipartite graphs, disjoint triangles, a cycle with a
    pendant node): the inputs on which gains, votes and similarities tie EXACTLY, so that a test written `>=` instead of `>`
    (or the reverse) lets a loop alternate for ever."""
    shape = rng.choice(['clique', 'cycle', 'kab', 'triangles', 'cycle+pendant', 'two_cliques'])
    E = set()
    if shape == 'clique':
        n = rng.randint(3, 7)
        E = {(i, j) for i in range(n) for j in range(n) if i != j}
    elif shape == 'cycle':
        n = rng.randint(3, 9)
        E = {(i, (i + 1) % n) for i in range(n)}
    elif shape == 'kab':
        a, b = rng.randint(1, 4), rng.randint(2, 4)
        n = a + b
        E = {(i, a + j) for i in range(a) for j in range(b)}
    elif shape == 'triangles':
        k = rng.randint(1, 3)
        n = 3 * k + rng.randint(0, 1)
        for t in range(k):
            E |= {(3 * t, 3 * t + 1), (3 * t + 1, 3 * t + 2), (3 * t, 3 * t + 2)}
    elif shape == 'cycle+pendant':
        m = rng.randint(3, 6)
        n = m + 1
        E = {(i, (i + 1) % m) for i in range(m)} | {(0, m)}
    else:
        a = rng.randint(3, 4)
        n = 2 * a
        E = {(i, j) for i in range(a) for j in range(a) if i != j} | {(a + i, a + j) for i in range(a) for j in range(a) if i != j}
        E.add((0, a))
    E |= {(j, i) for (i, j) in E}
    return dict(shape=[n, n], coo=[[i, j, 1] for (i, j) in sorted(E)], dtype='int', fmt='csr'), n, shape


def paris_exact_ties(kmax=16):
    """Every complete digraph on 3 nodes with integer weights 1..kmax whose three Paris similarities
    (a_ij + a_ji) / (out_i in_j + out_j in_i) are EXACTLY equal while the nodes do not all have the same (out, in) weights and the
    matrix is not symmetric: the nearest-neighbour chain of Paris then lives on its tie rule alone, and any rounding asymmetry
    between similarity(i, j) and similarity(j, i) can orient the three preferences into a cycle (seed C17_7: fit never returned).
    Integer cross-multiplication, enumerated in chunks."""
    import numpy as np
    v = np.arange(1, kmax + 1, dtype=np.int64)
    out = []
    for a01 in range(1, kmax + 1):
        for a02 in range(1, kmax + 1):
            a10, a12, a20, a21 = [x.reshape(-1) for x in np.meshgrid(v, v, v, v, indexing='ij')]
            o0, o1, o2 = a01 + a02, a10 + a12, a20 + a21
            n0, n1, n2 = a10 + a20, a01 + a21, a02 + a12
            d01, d12, d02 = o0 * n1 + o1 * n0, o1 * n2 + o2 * n1, o0 * n2 + o2 * n0
            s01, s12, s02 = a01 + a10, a12 + a21, a02 + a20
            tie = (s01 * d12 == s12 * d01) & (s01 * d02 == s02 * d01)
            same = (o0 == o1) & (o1 == o2) & (n0 == n1) & (n1 == n2)
            asym = (a01 != a10) | (a02 != a20) | (a12 != a21)
            for k in np.where(tie & ~same & asym)[0]:
                out.append([[0, a01, a02], [int(a10[k]), 0, int(a12[k])], [int(a20[k]), int(a21[k]), 0]])
    return out


TIE_PARAMS = [{}, dict(resolution=0.5), dict(resolution=0), dict(resolution=2)]


def oscillating(rng):
    """Small weighted digraphs with two seeds: the family on which default label propagation may alternate."""
    n = rng.randint(4, 8)
    E = {}
    for i in range(n):
        for j in range(n):
            if i != j and rng.random() < 0.4:
                E[(i, j)] = rng.randint(1, 5)
    if not E:
        E[(0, 1)] = 1
    return dict(shape=[n, n], coo=[[i, j, w] for (i, j), w in sorted(E.items())], dtype='int', fmt='csr'), n


def run(ctx, scratch):
    rng = ctx.rng
    quick = ctx.tier == 'quick'
    nmax = 14 if quick else 40
    reps = 6 if quick else 30
    checked = build.build_impl('checked')
    normal = Impl(scratch, threads=2)
    chk = Impl(checked, threads=2)
    ctx.extra['checked_build'] = 'boundscheck/wraparound forced on, -O1 -D_GLIBCXX_ASSERTIONS'
    # the flat models of Props/C17.v against the compiled kernels, on the same arrays (see the second half of this file)
    kernel_correspondence(ctx, scratch, checked)
    try:
        desc = normal.call('registry', 'describe', None, timeout=120)['ok']
        for name in sorted(desc):
            d = desc[name]
            psets = [{}] + BOUNDARY.get(name, [])
            for pi, params in enumerate(psets):
                for rep in range(reps if pi == 0 else max(1, reps // 2)):
                    fam = rng.choice(DEGENERATE)
                    if pi == 0 and rep == 0:
                        fam = 'hub_last'      # every entry point once, independent of the stream: the node of largest degree is the LAST one
                    kind = cases.pick_kind(rng, d)
                    # get_cycles lists every simple cycle: its output (hence its running time) is exponential in dense graphs
                    spec, nr, nc = degenerate_matrix(rng, fam, kind, 8 if name == 'get_cycles' else nmax)
                    opts = cases.make_opts(rng, d, nr, nc, kind == 'bip')
                    if name == 'GNNClassifier':
                        opts = cases.gnn_opts(rng, nr)
                    if params:
                        opts.setdefault('params', {}).update(params)
                    if name == 'get_dag':
                        opts['order'] = [rng.randint(-1, 3) for _ in range(nr)]
                    _both(ctx, normal, chk, name, spec, opts, fam, timeout=15 + 0.5 * (nr + nc))
        # label values >= n and gaps (valid seeds), few edges: the accumulator / data bounds of vote_update
        for k in range(40 if quick else 300):
            fam = rng.choice(['one_edge', 'few_edges', 'star', 'regular'])
            spec, nr, nc = degenerate_matrix(rng, fam, 'sq', nmax)
            nodes = rng.sample(range(nr), 2)
            big = rng.choice([nr, nr + 5, 100, 1000])
            seeds = {'all': {'dict': {str(nodes[0]): big, str(nodes[1]): rng.randrange(nr)}}}
            for name in ('Propagation', 'DiffusionClassifier', 'PageRankClassifier', 'NNClassifier'):
                opts = dict(seeds=seeds, params=dict(n_iter=3) if name == 'Propagation' else {})
                _both(ctx, normal, chk, name, spec, opts, fam + '+large_label', timeout=20)
        # Paris on near-tied similarities at index placements that change the neighbour scan order (tie rule of the chain)
        from .c07 import near_tie
        for k in range(60 if quick else 500):
            n, E, mode = near_tie(rng)
            coo = sorted([[i, j, w] for (i, j, w) in E] + [[j, i, w] for (i, j, w) in E])
            spec = dict(shape=[n, n], coo=coo, dtype='float', fmt='csr')
            for params in (dict(weights='degree'), dict(weights='uniform')):
                _both(ctx, normal, None, 'Paris', spec, dict(params=params), 'near_tie_' + mode, timeout=5)
        # exact three-way ties between nodes of different (out, in) weights on weighted digraphs
        ties = paris_exact_ties(16)
        ctx.extra['paris_exact_tie_digraphs'] = len(ties)
        for W in (ties if quick else ties + [[[x * 3 for x in row] for row in W] for W in ties]):
            spec = dict(shape=[3, 3], coo=[[i, j, W[i][j]] for i in range(3) for j in range(3) if i != j], dtype=rng.choice(['int', 'float']),
                        fmt='csr')
            _both(ctx, normal, None, 'Paris', spec, dict(params={}), 'exact_tie_digraph', timeout=5)
        # exact ties: unit-weight symmetric graphs x every registered algorithm (resolution varied where it exists)
        for name in sorted(desc):
            d = desc[name]
            if name == 'get_cycles' or d['kinds'] == ['bip']:
                continue
            conn_only = not ('sym' in d['kinds'] or 'sq' in d['kinds'])
            takes_res = name.split('[')[0] in ('Louvain', 'Leiden', 'LouvainIteration', 'LouvainHierarchy', 'LouvainEmbedding')
            for k in range(6 if quick else 40):
                spec, n, shape = symmetric_unit(rng)
                while conn_only and shape == 'triangles':
                    spec, n, shape = symmetric_unit(rng)
                opts = cases.make_opts(rng, d, n, n, False)
                if name == 'GNNClassifier':
                    opts = cases.gnn_opts(rng, n)
                if takes_res:
                    opts.setdefault('params', {}).update(TIE_PARAMS[k % len(TIE_PARAMS)])
                _both(ctx, normal, None, name, spec, opts, 'tie_' + shape, timeout=15)
        # balanced digraphs: every node has equal in- and out-weight but the matrix is NOT symmetric (directed cycles, a regular
        # tournament, a directed torus, disjoint directed triangles, a 3-clique with unequal directions): code that takes "in-weights
        # = out-weights" for "undirected" goes wrong exactly here (seed C17_6: the Louvain family never returned)
        def balanced_digraph(k):
            kind = k % 5
            if kind == 0:
                n = rng.randint(3, 9)
                E = [(i, (i + 1) % n, 1) for i in range(n)]
            elif kind == 1:
                n = 5
                E = [(i, (i + d_) % n, 1) for i in range(n) for d_ in (1, 2)]
            elif kind == 2:
                a_ = rng.choice([3, 4])
                n = a_ * a_
                E = [(r * a_ + c, r * a_ + (c + 1) % a_, 1) for r in range(a_) for c in range(a_)] + \
                    [(r * a_ + c, ((r + 1) % a_) * a_ + c, 1) for r in range(a_) for c in range(a_)]
            elif kind == 3:
                n = 6
                E = [(0, 1, 1), (1, 2, 1), (2, 0, 1), (3, 4, 1), (4, 5, 1), (5, 3, 1)]
            else:
                n = 3
                E = [(0, 1, 2), (1, 2, 2), (2, 0, 2), (1, 0, 1), (2, 1, 1), (0, 2, 1)]
            return dict(shape=[n, n], coo=[[i, j, w] for (i, j, w) in E], dtype='int', fmt='csr'), n
        for name in sorted(desc):
            d = desc[name]
            if 'sq' not in d['kinds'] or name == 'get_cycles':
                continue
            for k in range(5 if quick else 25):
                spec, n = balanced_digraph(k)
                opts = cases.make_opts(rng, d, n, n, False)
                if name.startswith('GNNClassifier'):
                    opts = cases.gnn_opts(rng, n)
                _both(ctx, normal, None, name, spec, opts, 'balanced_digraph', timeout=15)
        # oscillating configurations under the default (unbounded) number of sweeps
        for k in range(60 if quick else 600):
            spec, n = oscillating(rng)
            a, b = rng.sample(range(n), 2)
            opts = dict(seeds={'all': {'dict': {str(a): 0, str(b): 1}}}, params=dict(n_iter=-1, node_order=rng.choice([None, 'increasing', 'decreasing'])))
            _both(ctx, normal, None, 'Propagation', spec, opts, 'oscillating', timeout=8)
    finally:
        normal.close()
        chk.close()
    ctx.extra['worker_hangs'] = normal.hangs + chk.hangs
    ctx.extra['worker_crashes'] = normal.crashes + chk.crashes
    ctx.rule = ('every registered algorithm x default and boundary parameter sets x degenerate valid inputs (one edge, far fewer edges than '
                'nodes, sinks, isolated nodes, self-loops, several components, stars, paths) x {normal build, bounds-checked build}; seed '
                'labels >= n; oscillating weighted digraphs under the default sweep count; time-out 15 s + 0.5 s per node; '
                'distinct by (algorithm, parameters, graph); non-trivial = at least one edge. KERNEL CORRESPONDENCE: every flat model '
                'of Model/Safety.v / Safety2.v / Vote.v evaluated by vm_compute with the fuel of its termination theorem vs the compiled '
                'kernel called directly on the same CSR arrays (all digraphs with loops on n <= 3 nodes / all undirected graphs on n <= 4, '
                'tie-rich unit-weight shapes, degenerate and structured random graphs up to n = 10; small-integer / dyadic weights so '
                'that the comparison is exact; per-kernel numbers in kernel_correspondence)')
    ctx.assumptions = ['a Python exception is an admissible outcome (the property allows "returns or raises")',
                       'undefined behaviour other than indexing (e.g. signed overflow) is not observable by the checked build',
                       'time proportionate to the input is approximated by a fixed budget far above the observed run times (milliseconds)',
                       'kernel correspondence: cdef kernels are reached through their one-line Python entry point with the module-level '
                       'pre-processing replaced by the identity; np.argsort (push) is an oracle '
                       'recorded from the run; one OpenMP thread; float inputs are dyadic so that float32 arithmetic is exact '
                       '(inputs whose exact trajectory is not representable are dropped and counted)']


def _both(ctx, normal, chk, name, spec, opts, fam, timeout):
    req = dict(name=name, m=spec, opts=opts)
    a = normal.call('registry', 'run', req, timeout=timeout)
    ctx.traces += 1
    ctx.count(name + ':' + fam, (name, spec['shape'], spec['coo'], repr(sorted(opts.items(), key=str))), len(spec['coo']) > 0)
    case = dict(name=name, m=spec, opts=opts, family=fam)
    params = opts.get('params', {})
    if 'hang' in a:
        ctx.violation(name, 'does not return within %.0f s on a %d-node input' % (timeout, spec['shape'][0]), case=case, entry=name,
                      kind='hang', family=fam, default_n_iter=(params.get('n_iter', -1) == -1),
                      tol_zero=(params.get('tol_optimization') == 0), resolution_zero=(params.get('resolution') == 0))
        return
    if 'crash' in a:
        ctx.violation(name, 'the interpreter died (exit %s)' % a['crash'], case=case, entry=name, kind='crash', family=fam)
        return
    if chk is None:
        return
    b = chk.call('registry', 'run', req, timeout=timeout * 3)
    ctx.traces += 1
    if 'crash' in b:
        ctx.violation(name, 'bounds-checked build aborts (exit %s): out-of-bounds access in a compiled kernel' % b['crash'],
                      case=case, entry=name, kind='oob_abort', family=fam)
    elif 'hang' in b:
        ctx.violation(name, 'bounds-checked build does not return', case=case, entry=name, kind='hang_checked', family=fam)
    elif 'ok' in a and b.get('err') == 'IndexError':
        ctx.violation(name, 'bounds-checked build raises IndexError where the normal build returns: out-of-bounds access',
                      case=case, entry=name, kind='oob_index', family=fam, msg=b.get('msg'), tb=b.get('tb'))
    if len(ctx.samples) < 6 and fam != 'regular':
        ctx.sample(dict(name=name, family=fam, m=spec, params=params))


# =====================================================================================================================
# KERNEL CORRESPONDENCE — the flat, checked-access, fuelled models of Model/Safety.v, Model/Safety2.v (and Model/Vote.v),
# which the theorems of Props/C17.v are about, evaluated inside Coq (vm_compute) and the COMPILED kernels of the scratch
# build called directly (harness/workers/c17.py) on the same explicit arrays.
#
# Inputs are well-formed CSR arrays of small graphs (exhaustive for n <= 3, structured random / tie-rich / degenerate up to
# n = 10) whose weights and parameters are small integers or dyadic rationals, so that the float32 / float64 arithmetic of
# the kernels is EXACT and the comparison with the exact-rational model is an equality. Where exactness cannot be known
# from the inputs alone (D-iteration, push, Brandes' float32 delta) a Python mirror of the arithmetic checks that every
# intermediate value is representable; an input that is not is dropped and counted (D-iteration, push) or compared within
# the float32 tolerance (Brandes, which takes no decision on a float). The model runs first: the kernel is never called on
# an input on which the model reports an out-of-bounds access.
# =====================================================================================================================
import re
from fractions import Fraction as Fr

from .. import common
from ..common import cnat, cz, cq, cbool, clist, safe_coq_eval

K_IMPORTS = ['Base.Util', 'Model.Vote', 'Model.Wl', 'Model.Safety', 'Model.Safety2', 'Model.Modularity', 'Model.Louvain',
             'Proofs.SafetyProofs', 'Proofs.LouvainTermination', 'Proofs.LouvainFlatTermination']
K_PRELUDE = '''
Definition qp (q : Q) : Z * Z := let r := Qred q in (Qnum r, Zpos (Qden r)).
Definition kmap {A B} (f : A -> B) (r : Safety.kres A) : Safety.kres B :=
  match r with Safety.KOk a => Safety.KOk (f a) | Safety.OOB => Safety.OOB | Safety.OutOfFuel => Safety.OutOfFuel end.
Definition sh_dit (r : Safety.dstate * nat) := let '(s, f, res, k) := r in (map qp s, map qp f, qp res, k).
Definition sh_lv (r : list nat * Q * nat) := let '(l, inc, p) := r in (l, qp inc, p).
Definition sh_br (r : list Q * list (nat * nat)) := (map qp (fst r), snd r).
(* the fuel of optimize_core_flat_terminates, computed from the arguments *)
Definition lv_fuel (n : nat) (indptr indices : list nat) (data ow iw : list Q) (res tol : Q) (labels : list nat) : nat :=
  let g := csr_graph n indptr indices data in
  pass_fuel (objective_bound g ow iw res) (objective g ow iw res labels) tol.
'''
TOL32 = 2e-4
K_TIMEOUT = 10.0
MAX_KERNEL_HANGS = 3     # after that many supervised time-outs / crashes of one kernel (each reported) its remaining cases are not run
LCM10 = 2520          # rand() % s == (rand() % 2520) % s for every s <= 10 (the stream is handed to Coq reduced: nat is unary)
LEIDEN_FUEL_CAP = 4096
GENERAL_FUEL = 40       # passes granted to the model outside the contract of a termination theorem (kernel run only if it returns)


def nl(xs):
    return clist(xs, cnat)


def zl(xs):
    return clist(xs, cz)


def ql(xs):
    return clist(xs, cq)


def fr_pair(p):
    return Fr(p[0], p[1])


def f32_ok(x):
    """The rational x is a float32 (24-bit significand, exponent far inside the range)."""
    x = Fr(x)
    if x == 0:
        return True
    num, den = abs(x.numerator), x.denominator
    if den & (den - 1):
        return False
    while num % 2 == 0:
        num //= 2
    return num.bit_length() <= 24 and den.bit_length() <= 90 and abs(x) < 2 ** 90


def gran(xs):
    """Smallest g with every x a multiple of 2^-g; None if some x is not dyadic."""
    g = 0
    for x in xs:
        d = Fr(x).denominator
        if d & (d - 1):
            return None
        g = max(g, d.bit_length() - 1)
    return g


def to_csr(n, W):
    """W: {(i, j): weight} -> canonical CSR arrays (sorted columns)."""
    indptr, indices, data = [0], [], []
    rows = [[] for _ in range(n)]
    for (i, j) in W:
        rows[i].append(j)
    for i in range(n):
        for j in sorted(rows[i]):
            indices.append(j)
            data.append(Fr(W[(i, j)]))
        indptr.append(len(indices))
    return indptr, indices, data


def transpose(n, W):
    return {(j, i): w for (i, j), w in W.items()}


def tie_shape(rng):
    spec, n, shape = symmetric_unit(rng)
    return 'tie_' + shape, n, {(i, j) for (i, j, _) in spec['coo']}


def degenerate_shape(rng, directed):
    fam = rng.choice(DEGENERATE)
    spec, n, _ = degenerate_matrix(rng, fam, 'sq' if directed else 'sym', 10)
    return 'deg_' + fam, n, {(i, j) for (i, j, _) in spec['coo']}


def kgraph(rng, directed, nmax=10, loops=True):
    """(family, n, edge set): tie-rich / degenerate / structured random; undirected ones as symmetric edge sets."""
    u = rng.random()
    if u < 0.3:
        return tie_shape(rng)
    if u < 0.55:
        fam, n, E = degenerate_shape(rng, directed)
    else:
        n, EE, f = gen.random_graph(rng, nmax, directed=directed, nmin=1, allow_loops=loops)
        fam, E = 'rnd_' + f, set(EE)
    if n > nmax:
        return tie_shape(rng)
    if not loops:
        E = {(i, j) for (i, j) in E if i != j}
    return fam, n, E


def weights(rng, E, symmetric, kind=None):
    """{edge: Fraction}: unit / small integers / eighths; symmetric edge sets get symmetric weights."""
    kind = kind or rng.choice(['unit', 'unit', 'int', 'eighth'])
    W = {}
    for (i, j) in sorted(E):
        if symmetric and (j, i) in W:
            W[(i, j)] = W[(j, i)]
        elif kind == 'unit':
            W[(i, j)] = Fr(1)
        elif kind == 'int':
            W[(i, j)] = Fr(rng.randint(1, 3))
        else:
            W[(i, j)] = Fr(rng.randint(1, 8), 8)
    return W, kind


def exhaustive_directed(nmax=3):
    for n in range(0, nmax + 1):
        if n == 0:
            yield 'exh_0', 0, set()
            continue
        for E in gen.all_directed(n, loops=True):
            yield 'exh_%d' % n, n, set(E)


def kres_of(v):
    """Parsed Coq value of a [kres] / [vres] -> ('ok', x) | ('oob', site) | ('fuel', None)."""
    tag = v[0]
    if tag in ('KOk', 'VOk'):
        return 'ok', v[1]
    if tag == 'OOB':
        return 'oob', None
    if tag == 'VOOB':
        return 'oob', v[1][0] if len(v) > 1 else None
    if tag == 'OutOfFuel':
        return 'fuel', None
    raise ValueError('unexpected model value %r' % (v,))


class KStats:
    def __init__(self, name, mode, tie):
        self.name, self.mode, self.tie = name, mode, tie
        self.d = dict(evaluated=0, compared=0, agree=0, dropped_inexact=0, dropped_model_cost=0, tolerance_compared=0, kernel_not_run_model_oob=0,
                      kernel_not_run_model_out_of_fuel=0, outside_contract=0, violations=0, hangs_or_crashes=0,
                      not_run_after_repeated_hangs=0, checked_build_runs=0, checked_failures=0)

    def as_dict(self):
        out = dict(model_vs_kernel=self.mode, tie=self.tie)
        out.update(self.d)
        return out


_CHECKED = {'impl': None}


def checked_call(ctx, st, site, mod, fn, args, case, fam, normal_ok):
    """The same call on the bounds-checked rebuild (boundscheck / wraparound forced on, libstdc++ assertions): the model
    returned KOk, i.e. claims that no access is out of range, so the checked kernel must return, and return the same."""
    chk = _CHECKED['impl']
    if chk is None or st.d['checked_failures'] >= MAX_KERNEL_HANGS:
        return
    r = chk.call(mod, fn, args, timeout=3 * K_TIMEOUT)
    ctx.traces += 1
    st.d['checked_build_runs'] += 1
    if 'ok' in r and r['ok'] == normal_ok:
        return
    st.d['checked_failures'] += 1
    st.d['violations'] += 1
    if 'crash' in r:
        ctx.violation(site, 'bounds-checked build of the kernel aborts (exit %s) where the flat model reports no out-of-bounds access'
                      % r['crash'], case=case, kind='oob_abort', family=fam, kernel_call=True)
    elif 'hang' in r:
        ctx.violation(site, 'bounds-checked build of the kernel does not return', case=case, kind='hang_checked', family=fam,
                      kernel_call=True)
    elif r.get('err') == 'IndexError':
        ctx.violation(site, 'bounds-checked build of the kernel raises IndexError where the flat model reports no out-of-bounds access',
                      case=case, kind='oob_index', family=fam, kernel_call=True, msg=r.get('msg'), tb=r.get('tb'))
    else:
        ctx.violation(site, 'bounds-checked build of the kernel answers differently from the normal build', case=case,
                      kind='checked_differs', family=fam, kernel_call=True, expected=normal_ok, observed=r)


def run_cases(ctx, impl, st, site, fn, cases, compare, shard, mod='c17', skip_count=False):
    """cases: dicts with fam, args (worker), expr (Coq), contract (bool: inside the hypotheses of the kernel's theorems with
    the stated fuel). compare(case, model_value, impl_value) -> None | 'dropped' | 'tolerance' | (what, expected, observed)."""
    if not cases:
        return
    vals = safe_coq_eval(ctx, 'c17k_' + re.sub(r'\W', '_', st.name), K_IMPORTS, [c['expr'] for c in cases], prelude=K_PRELUDE,
                         shard=shard, timeout=900)
    if vals is None:
        # The flat model no longer evaluates (recorded in ctx.proof_broken).  What is judged on the implementation alone still
        # runs: inside the contract of the kernel's theorems the compiled kernel is called on the same arrays under the
        # supervisor (hang / crash) and again in the bounds-checked build (checked_call).  Outside the contract only the model
        # says whether a call is free of out-of-bounds accesses: those cases are not run.
        vals = []
        for c in cases:
            if not skip_count:
                ctx.count('kernel:%s:%s' % (st.name, c['fam']), (st.name, c['args']), c.get('nontrivial', True))
            if not c.get('contract', True):
                st.d['outside_contract'] += 1
                continue
            if st.d['hangs_or_crashes'] >= MAX_KERNEL_HANGS:
                st.d['not_run_after_repeated_hangs'] += 1
                continue
            case = dict(kernel=site, family=c['fam'], args=c['args'])
            r = impl.call(mod, fn, c['args'], timeout=K_TIMEOUT)
            ctx.traces += 1
            if 'hang' in r or 'crash' in r:
                st.d['hangs_or_crashes'] += 1
                st.d['violations'] += 1
                ctx.violation(site, 'the compiled kernel %s on an input inside the contract of its termination / safety theorems'
                              % ('does not return within %.0f s' % K_TIMEOUT if 'hang' in r else
                                 'killed the interpreter (exit %s)' % r['crash']),
                              case=case, kind='hang' if 'hang' in r else 'crash', family=c['fam'], kernel_call=True)
            elif 'ok' in r:
                checked_call(ctx, st, site, mod, fn, c['args'], case, c['fam'], r['ok'])
    for c, v in zip(cases, vals):
        st.d['evaluated'] += 1
        if not skip_count:
            ctx.count('kernel:%s:%s' % (st.name, c['fam']), (st.name, c['args']), c.get('nontrivial', True))
        case = dict(kernel=site, family=c['fam'], args=c['args'])
        tag, mv = kres_of(v)
        if not c.get('contract', True):
            st.d['outside_contract'] += 1
        if tag != 'ok':
            if c.get('contract', True):
                st.d['violations'] += 1
                ctx.violation(site, 'the flat model returns %s on an input inside the contract of its theorems (fuel as stated there)'
                              % ('an out-of-bounds access' if tag == 'oob' else 'OutOfFuel'), case=case, kind='model_envelope',
                              family=c['fam'], expected='KOk', observed=common.jsonable(v))
            st.d['kernel_not_run_model_oob' if tag == 'oob' else 'kernel_not_run_model_out_of_fuel'] += 1
            continue
        if st.d['hangs_or_crashes'] >= MAX_KERNEL_HANGS:
            st.d['not_run_after_repeated_hangs'] += 1
            continue
        r = impl.call(mod, fn, c['args'], timeout=K_TIMEOUT)
        ctx.traces += 1
        if 'hang' in r or 'crash' in r:
            st.d['hangs_or_crashes'] += 1
        if 'hang' in r:
            st.d['violations'] += 1
            ctx.violation(site, 'the compiled kernel does not return within %.0f s where the model returns' % K_TIMEOUT, case=case,
                          kind='hang', family=c['fam'], expected=common.jsonable(mv), kernel_call=True)
            continue
        if 'crash' in r:
            st.d['violations'] += 1
            ctx.violation(site, 'the compiled kernel killed the interpreter (exit %s) where the model returns' % r['crash'],
                          case=case, kind='crash', family=c['fam'], expected=common.jsonable(mv), kernel_call=True)
            continue
        if 'ok' not in r:
            st.d['violations'] += 1
            ctx.violation(site, 'the compiled kernel raised where the model returns', case=case, kind='model_correspondence',
                          family=c['fam'], expected=common.jsonable(mv), observed=r)
            continue
        checked_call(ctx, st, site, mod, fn, c['args'], case, c['fam'], r['ok'])
        res = compare(c, mv, r['ok'])
        if res == 'dropped':
            st.d['dropped_inexact'] += 1
            ctx.margin_dropped += 1
            continue
        st.d['compared'] += 1
        if res == 'tolerance':
            st.d['tolerance_compared'] += 1
            res = None
        if res is None:
            st.d['agree'] += 1
            if st.d['agree'] == 1:
                ctx.sample(dict(kind='kernel_correspondence', kernel=site, family=c['fam'], args=c['args'],
                                model=common.jsonable(mv)), limit=20)
            continue
        what, exp, obs = res
        st.d['violations'] += 1
        ctx.violation(site, 'compiled kernel differs from its flat model: ' + what, case=case, kind='model_correspondence',
                      family=c['fam'], expected=common.jsonable(exp), observed=common.jsonable(obs))


# ---- 1. triangles ---------------------------------------------------------------------------------------------------
def k_triangles(ctx, impl, rng, quick):
    st = KStats('count_triangles_from_dag', 'exact (integers)', 'direct')
    cases = []

    def add(fam, n, E, reverse=False):
        indptr, indices, _ = to_csr(n, {e: 1 for e in E})
        if reverse:     # rows in decreasing column order: still well formed (csr_pat_wf does not ask for sorted rows)
            indices = [j for i in range(n) for j in reversed(indices[indptr[i]:indptr[i + 1]])]
        cases.append(dict(fam=fam, args=dict(indptr=indptr, indices=indices), nontrivial=len(indices) > 0,
                          expr='Safety.count_triangles_flat %s %s' % (nl(indptr), nl(indices))))
    for fam, n, E in exhaustive_directed(3):
        add(fam, n, E)
    for _ in range(300 if quick else 3000):
        fam, n, E = kgraph(rng, directed=rng.random() < 0.4)
        u = rng.random()
        if u < 0.6:      # what count_triangles hands over: the DAG i -> j, i < j, of an undirected graph
            add(fam + '_dag', n, {(min(i, j), max(i, j)) for (i, j) in E if i != j})
        elif u < 0.9:
            add(fam, n, E)
        else:
            add(fam + '_unsorted', n, E, reverse=True)

    def compare(c, mv, r):
        if r['seq'] != mv or r['par'] != mv:
            return 'number of triangles', mv, r
    run_cases(ctx, impl, st, 'count_triangles_from_dag', 'triangles', cases, compare, 150)
    return st


# ---- 3. MinHeap + compute_core --------------------------------------------------------------------------------------
def k_core(ctx, impl, rng, quick):
    st = KStats('compute_core', 'exact (integers)', 'direct (MinHeap is reachable only through compute_core)')
    cases = []

    def add(fam, n, E):
        indptr, indices, _ = to_csr(n, {e: 1 for e in E})
        cases.append(dict(fam=fam, args=dict(indptr=indptr, indices=indices), nontrivial=len(indices) > 0, n=n,
                          expr='Safety.ccompute_core Safety.cheap_resize %s %s' % (nl(indptr), nl(indices))))
    for fam, n, E in exhaustive_directed(3):
        add(fam, n, E)
    for _ in range(300 if quick else 3000):
        fam, n, E = kgraph(rng, directed=rng.random() < 0.3)
        add(fam, n, E)

    def compare(c, mv, r):
        labels, pops = mv
        if pops != c['n']:
            return 'number of pops of the model is not n', c['n'], pops
        if r['labels'] != list(labels) or r['indptr_after'] != c['args']['indptr'] or r['indices_after'] != c['args']['indices']:
            return 'core values', list(labels), r
    run_cases(ctx, impl, st, 'compute_core', 'core', cases, compare, 150)
    return st


# ---- 2. vote_update -------------------------------------------------------------------------------------------------
def k_vote(ctx, impl, rng, quick):
    st = KStats('vote_update', 'exact (votes are sums of at most 10 dyadic weights)',
                'direct; Model/Vote.v is also tied by the C13 correspondence')
    cases = []

    def add(fam, n, W, labels, index):
        indptr, indices, data = to_csr(n, W)
        cases.append(dict(fam=fam, nontrivial=len(indices) > 0 and len(index) > 0,
                          args=dict(indptr=indptr, indices=indices, data=[float(x) for x in data], labels=labels, index=index),
                          expr='Vote.vote_update Vote.repaired_kernel %s %s %s %s %s' % (nl(indptr), nl(indices), ql(data), zl(labels), nl(index))))
    exh = [g for g in exhaustive_directed(3) if g[1] >= 1]
    for fam, n, E in (rng.sample(exh, 150) if quick else exh):
        labels = [rng.choice([-1, -1, 0, 1, n + 1]) for _ in range(n)]
        add(fam, n, {e: Fr(rng.choice([1, 1, 2, Fr(1, 2)])) for e in E}, labels, list(range(n)))
    for _ in range(350 if quick else 3500):
        fam, n, E = kgraph(rng, directed=rng.random() < 0.6)
        if n == 0:
            continue
        W, kind = weights(rng, E, symmetric=False)
        top = rng.choice([1, 2, n - 1, n, n + 5, 100])
        labels = [rng.choice([-1, -1, rng.randint(0, max(top, 0))]) for _ in range(n)]
        u = rng.random()
        if u < 0.5:
            index = [i for i in range(n) if labels[i] < 0]
        elif u < 0.8:
            index = list(range(n))
            rng.shuffle(index)
        else:
            index = [rng.randrange(n) for _ in range(rng.randint(0, n + 2))]       # repeats are inside the contract
        add('%s_%s' % (fam, kind), n, W, labels, index)

    def compare(c, mv, r):
        if r['ret'] != list(mv) or r['labels_after'] != list(mv) or r['index_after'] != c['args']['index'] \
                or r['data_after'] != c['args']['data']:
            return 'labels after the sweep', list(mv), r
    run_cases(ctx, impl, st, 'vote_update', 'vote', cases, compare, 150)
    return st


# ---- 5a. D-iteration ------------------------------------------------------------------------------------------------
class QN:
    """A dyadic rational together with log2 of the denominator that the UNREDUCED Qplus / Qmult of the Coq model carry
    (they multiply denominators): the cost of evaluating the model is governed by it."""
    __slots__ = ('v', 'k')

    def __init__(self, v, k=None):
        self.v = Fr(v)
        self.k = (self.v.denominator.bit_length() - 1) if k is None else k

    def __add__(self, o):
        return QN(self.v + o.v, self.k + o.k)

    def __sub__(self, o):
        return QN(self.v - o.v, self.k + o.k)

    def __mul__(self, o):
        return QN(self.v * o.v, self.k + o.k)


MODEL_BITS_CAP = 6000      # beyond this many denominator bits the vm_compute evaluation of the unreduced model is not attempted


class Mirror:
    def __init__(self):
        self.exact, self.bits = True, 0

    def chk(self, x):
        if not f32_ok(x.v):
            self.exact = False
        if x.k > self.bits:
            self.bits = x.k
        return x


def dit_mirror(indptr, indices, data, scores, fluid, damping, n_iter, tol):
    """Exact replay of the float operations of diffusion(): (every intermediate value is a float32, denominator bits of the
    unreduced rationals of the Coq model)."""
    m = Mirror()
    chk = m.chk
    n = len(fluid)
    data = [QN(x) for x in data]
    scores, fluid = [QN(x) for x in scores], [QN(x) for x in fluid]
    damping, tol = QN(damping), QN(tol)
    restart = chk(QN(1) - damping)
    residu = restart
    for _ in range(n_iter):
        for i in range(n):
            sent = fluid[i]
            if sent.v > 0:
                scores[i] = chk(scores[i] + sent)
                fluid[i] = QN(0)
                j1, j2 = indptr[i], indptr[i + 1]
                tmp = chk(sent * damping)
                if j2 != j1:
                    for jj in range(j1, j2):
                        fluid[indices[jj]] = chk(fluid[indices[jj]] + chk(tmp * data[jj]))
                    removed = chk(sent * restart)
                else:
                    removed = sent
                residu = chk(residu - removed)
                if m.bits > 4 * MODEL_BITS_CAP:
                    return False, m.bits
        if residu.v < chk(tol * restart).v:
            break
    return m.exact, m.bits


def k_diteration(ctx, impl, rng, quick):
    st = KStats('diffusion', 'exact (dyadic inputs; an input whose exact trajectory leaves float32 is dropped and counted)', 'direct')
    cases = []

    def add(fam, n, W, scores, fluid, damping, n_iter, tol):
        indptr, indices, data = to_csr(n, W)
        exact, bits = dit_mirror(indptr, indices, data, scores, fluid, damping, n_iter, tol)
        if not exact or bits > MODEL_BITS_CAP:
            # not comparable exactly (or the unreduced rationals of the model grow beyond what vm_compute evaluates in
            # reasonable time): dropped BEFORE the evaluation, and counted
            st.d['dropped_inexact' if not exact else 'dropped_model_cost'] += 1
            ctx.margin_dropped += 1
            return
        cases.append(dict(fam=fam, exact=exact, nontrivial=len(indices) > 0 and n_iter > 0 and any(fluid),
                          args=dict(indptr=indptr, indices=indices, data=[float(x) for x in data], scores=[float(x) for x in scores],
                                    fluid=[float(x) for x in fluid], damping=float(damping), n_iter=n_iter, tol=float(tol)),
                          expr='kmap sh_dit (Safety.diteration %s %s %s %s %s %s %d %s)' % (
                              nl(indptr), nl(indices), ql(data), ql(scores), ql(fluid), cq(damping), n_iter, cq(tol))))

    def params(n):
        damping = rng.choice([Fr(1, 2), Fr(1, 2), Fr(3, 4), Fr(1, 4), Fr(7, 8), Fr(0), Fr(1)])
        n_iter = rng.choice([0, 1, 1, 2, 2, 3, 4])
        tol = rng.choice([Fr(0), Fr(0), Fr(1, 16), Fr(1, 4), Fr(1), Fr(2)])
        if rng.random() < 0.6:     # the caller's start: scores = 0, fluid = (1 - damping) * seeds
            k = rng.randrange(n) if n else 0
            fluid = [(1 - damping) if i == k else Fr(0) for i in range(n)]
            if rng.random() < 0.4:
                fluid = [(1 - damping) * Fr(rng.randint(0, 2), 4) for _ in range(n)]
            scores = [Fr(0)] * n
        else:
            fluid = [Fr(rng.randint(0, 4), rng.choice([1, 2, 4])) for _ in range(n)]
            scores = [Fr(rng.randint(0, 3), rng.choice([1, 2])) for _ in range(n)]
        return scores, fluid, damping, n_iter, tol
    exh = list(exhaustive_directed(3))
    for fam, n, E in (rng.sample(exh, 150) if quick else exh):
        add(fam, n, {e: Fr(rng.choice([1, 1, Fr(1, 2), Fr(1, 4)])) for e in E}, *params(n))
    for _ in range(350 if quick else 3500):
        fam, n, E = kgraph(rng, directed=rng.random() < 0.6)
        u = rng.random()
        if u < 0.4:       # row-stochastic with dyadic entries where the out-degrees allow, else unit weights
            deg = {}
            for (i, j) in E:
                deg[i] = deg.get(i, 0) + 1
            W = {(i, j): (Fr(1, deg[i]) if deg[i] & (deg[i] - 1) == 0 else Fr(1)) for (i, j) in E}
            kind = 'stochastic'
        else:
            W, kind = weights(rng, E, symmetric=False, kind=rng.choice(['unit', 'int', 'eighth']))
        add('%s_%s' % (fam, kind), n, W, *params(n))

    def compare(c, mv, r):
        if not c['exact']:
            return 'dropped'
        scores, fluid, residu, sweeps = mv
        ms, mf = [fr_pair(p) for p in scores], [fr_pair(p) for p in fluid]
        if [Fr(x) for x in r['scores']] != ms or [Fr(x) for x in r['fluid']] != mf or r['data_after'] != c['args']['data']:
            return 'scores / fluid after the call', dict(scores=ms, fluid=mf, sweeps=sweeps), r
    run_cases(ctx, impl, st, 'diffusion', 'diteration', cases, compare, 100)
    return st


# ---- 5b. push -------------------------------------------------------------------------------------------------------
def push_mirror(n, degrees, indptr, indices, rev_indptr, rev_indices, seeds, damping, tol, argsort):
    """Exact replay of the float operations of push_pagerank() for a given argsort answer: (every intermediate value is a
    float32 — 1 / degree must be dyadic too —, denominator bits of the unreduced rationals of the Coq model)."""
    m = Mirror()
    chk = m.chk
    seeds = [QN(x) for x in seeds]
    damping = QN(damping)
    one = QN(1)
    res = [QN(0)] * n
    for v in range(n):
        for j in range(rev_indptr[v], rev_indptr[v + 1]):
            d = degrees[rev_indices[j]]
            if d == 0 or d & (d - 1):
                return False, 0
            res[v] = chk(res[v] + chk(QN(Fr(1, d))))
        res[v] = chk(res[v] * chk(chk(chk(one - damping) * damping) * chk(one + seeds[v])))
    scores = [one - damping] * n
    work = list(argsort)
    pops = 0
    while work:
        v = work.pop(0)
        pops += 1
        if pops > 4 * n + 4 or m.bits > 4 * MODEL_BITS_CAP:
            return False, m.bits
        scores[v] = chk(scores[v] + res[v])
        for j in range(indptr[v], indptr[v + 1]):
            nb = indices[j]
            tmp = res[nb]
            d = degrees[v]
            if d == 0 or d & (d - 1):
                return False, 0
            res[nb] = chk(tmp + chk(chk(res[v] * chk(one - damping)) * QN(Fr(1, d))))
            if res[nb].v > tol > tmp.v:
                work.append(nb)
    return m.exact, m.bits


def pow2_degree_graph(rng, n):
    """Digraph whose out-degrees are 0, 1, 2, 4 or 8 (1 / degree is then exact in binary)."""
    E = set()
    for i in range(n):
        d = rng.choice([d for d in (0, 1, 1, 2, 2, 4, 8) if d <= n])
        for j in rng.sample(range(n), d):
            E.add((i, j))
    return E


def k_push(ctx, impl, rng, quick):
    st = KStats('push_pagerank', 'exact (out-degrees powers of two, dyadic seeds / damping / tol; an input whose exact trajectory '
                'leaves float32 is dropped and counted); compared before the final numpy normalisation; 1 OpenMP thread',
                'direct (argsort answer recorded from the call and handed to the model)')
    pre = []
    for _ in range(520 if quick else 5200):
        u = rng.random()
        if u < 0.35:
            fam, n, E = tie_shape(rng)
        elif u < 0.5:
            fam, n, E = kgraph(rng, directed=True)
        else:
            n = rng.randint(1, 10)
            fam, E = 'rnd_pow2deg', pow2_degree_graph(rng, n)
        if n == 0:
            continue
        W = {e: 1 for e in E}
        indptr, indices, _ = to_csr(n, W)
        rev_indptr, rev_indices, _ = to_csr(n, transpose(n, W))
        degrees = [indptr[i + 1] - indptr[i] for i in range(n)]
        if any(d & (d - 1) for d in degrees):
            continue
        damping = rng.choice([Fr(1, 2), Fr(1, 2), Fr(3, 4), Fr(1, 4), Fr(7, 8)])
        tol = rng.choice([Fr(1, 4), Fr(1, 8), Fr(1, 16), Fr(1, 64), Fr(1, 256), Fr(1)])
        if rng.random() < 0.5:
            seeds = [Fr(1, 8) * rng.randint(0, 3) for _ in range(n)]
        else:
            k = rng.randrange(n)
            seeds = [Fr(1) if i == k else Fr(0) for i in range(n)]
        args = dict(n=n, degrees=degrees, indptr=indptr, indices=indices, rev_indptr=rev_indptr, rev_indices=rev_indices,
                    seeds=[float(x) for x in seeds], damping=float(damping), tol=float(tol))
        pre.append(dict(fam=fam, args=args, seeds=seeds, damping=damping, tol=tol, nontrivial=len(indices) > 0))
    # the argsort answer is an ORACLE of the model: the kernel runs first here (its inputs are well formed: the model of the
    # first loop is evaluated on them as well and must not report an out-of-bounds access)
    cases = []
    for c in pre:
        a = c['args']
        if st.d['hangs_or_crashes'] >= MAX_KERNEL_HANGS:
            st.d['not_run_after_repeated_hangs'] += 1
            continue
        r = impl.call('c17', 'push', a, timeout=K_TIMEOUT)
        ctx.traces += 1
        if 'hang' in r or 'crash' in r:
            st.d['hangs_or_crashes'] += 1
        ctx.count('kernel:push_pagerank:' + c['fam'], ('push', a), c['nontrivial'])
        st.d['evaluated'] += 1
        case = dict(kernel='push_pagerank', family=c['fam'], args=a)
        if 'hang' in r or 'crash' in r:
            st.d['violations'] += 1
            ctx.violation('push_pagerank', 'the compiled kernel %s (the model returns within 2 n pops for every argsort answer: '
                          'push_terminates)' % ('does not return' if 'hang' in r else 'killed the interpreter'), case=case,
                          kind='hang' if 'hang' in r else 'crash', family=c['fam'], kernel_call=True)
            continue
        if 'ok' not in r:
            st.d['violations'] += 1
            ctx.violation('push_pagerank', 'the compiled kernel raised', case=case, kind='model_correspondence', family=c['fam'],
                          observed=r)
            continue
        c['impl'] = r['ok']
        checked_call(ctx, st, 'push_pagerank', 'c17', 'push', a, case, c['fam'], r['ok'])
        order = r['ok']['argsort']
        if sorted(order) != list(range(a['n'])):
            st.d['violations'] += 1
            ctx.violation('push_pagerank', 'np.argsort answer is not a permutation of the nodes (contract of push_terminates)',
                          case=case, kind='model_correspondence', family=c['fam'], observed=order)
            continue
        c['exact'], bits = push_mirror(a['n'], a['degrees'], a['indptr'], a['indices'], a['rev_indptr'], a['rev_indices'], c['seeds'],
                                       c['damping'], c['tol'], order)
        if not c['exact'] or bits > MODEL_BITS_CAP:
            st.d['dropped_inexact' if not c['exact'] else 'dropped_model_cost'] += 1
            ctx.margin_dropped += 1
            continue
        c['expr'] = ('(kmap (map qp) (Safety.push_init (seq 0 %d) %s %s %s %s %s (repeat 0%%Q %d)), '
                     'kmap (map qp) (Safety.push_pagerank (Safety2.push_fuel %d) %d %s %s %s %s %s %s %s %s (fun _ => %s)))' % (
                         a['n'], nl(a['rev_indptr']), nl(a['rev_indices']), nl(a['degrees']), ql(c['seeds']), cq(c['damping']), a['n'],
                         a['n'], a['n'], nl(a['degrees']), nl(a['indptr']), nl(a['indices']), nl(a['rev_indptr']),
                         nl(a['rev_indices']), ql(c['seeds']), cq(c['damping']), cq(c['tol']), nl(order)))
        cases.append(c)
    # (model dead: recorded in ctx.proof_broken; every kernel call above was already supervised and repeated in the checked build)
    vals = (safe_coq_eval(ctx, 'c17k_push', K_IMPORTS, [c['expr'] for c in cases], prelude=K_PRELUDE, shard=100, timeout=900) or []) if cases else []
    for c, (v0, v1) in zip(cases, vals):
        case = dict(kernel='push_pagerank', family=c['fam'], args=c['args'], argsort=c['impl']['argsort'])
        (t0, m0), (t1, m1) = kres_of(v0), kres_of(v1)
        if t0 != 'ok' or t1 != 'ok':
            st.d['violations'] += 1
            ctx.violation('push_pagerank', 'the flat model returns %s / %s inside the contract of push_terminates (fuel 2 n)' % (t0, t1),
                          case=case, kind='model_envelope', family=c['fam'], expected='KOk', observed=common.jsonable([v0, v1]))
            continue
        if not c['exact']:
            st.d['dropped_inexact'] += 1
            ctx.margin_dropped += 1
            continue
        st.d['compared'] += 1
        res0 = [-fr_pair(p) for p in m0]
        sc = [fr_pair(p) for p in m1]
        got0 = [Fr(x) for x in c['impl']['neg_residuals']]
        got = [Fr(x) for x in c['impl']['scores']]
        if got0 != res0 or got != sc or c['impl']['seeds_after'] != c['args']['seeds']:
            st.d['violations'] += 1
            ctx.violation('push_pagerank', 'compiled kernel differs from its flat model: ' +
                          ('residuals after the first loop' if got0 != res0 else 'scores before the normalisation'), case=case,
                          kind='model_correspondence', family=c['fam'],
                          expected=common.jsonable(dict(neg_residuals=res0, scores=sc)), observed=c['impl'])
        else:
            st.d['agree'] += 1
            if st.d['agree'] == 1:
                ctx.sample(dict(kind='kernel_correspondence', kernel='push_pagerank', family=c['fam'], args=c['args'],
                                model=common.jsonable(sc)), limit=20)
    return st


# ---- 9.1 Weisfeiler-Lehman ------------------------------------------------------------------------------------------
def k_wl(ctx, impl, rng, quick):
    st = KStats('weisfeiler_lehman_coloring', 'exact (hashes are sums of at most 10 small dyadic numbers in float64; std::sort '
                'is the insertion sort Wl.wl_sort by the same comparison: the result does not depend on the order of equal keys)',
                'direct')
    cases = []

    def add(fam, n, E, labels, powers, max_iter):
        indptr, indices, _ = to_csr(n, {e: 1 for e in E})
        cases.append(dict(fam=fam, nontrivial=len(indices) > 0 and max_iter > 0,
                          args=dict(indptr=indptr, indices=indices, labels=labels, powers=[float(p) for p in powers], max_iter=max_iter),
                          expr='Safety2.wl_kernel %d Wl.wl_sort %s %s %s %s %d' % (max_iter, nl(indptr), nl(indices), nl(labels), ql(powers), max_iter)))

    def powers_for(n):
        u = rng.random()
        if u < 0.4:
            return [Fr(2) ** k for k in range(n)]
        if u < 0.7:
            return [Fr(-1, 2) ** k * 64 for k in range(n)]          # alternating signs, as the caller's (-pi / 3.15) ** k
        return [Fr(rng.randint(-8, 8), 4) for _ in range(n)]         # collisions allowed
    exh = [g for g in exhaustive_directed(3) if g[1] >= 1]
    for fam, n, E in (rng.sample(exh, 200) if quick else exh):
        add(fam, n, E, [0] * n, powers_for(n), rng.randint(0, n))
    add('exh_0', 0, set(), [], [], 0)
    for _ in range(400 if quick else 4000):
        fam, n, E = kgraph(rng, directed=rng.random() < 0.3)
        if n == 0:
            continue
        u = rng.random()
        if u < 0.6:
            labels = [0] * n
        else:                                                         # are_isomorphic: the output of a previous call
            labels = [rng.randrange(n) for _ in range(n)]
        add(fam, n, E, labels, powers_for(n), rng.choice([0, 1, 1, 2, n, n]))

    def compare(c, mv, r):
        labels, changed, rounds = mv
        if r['ret'] != list(labels) or r['labels_after'] != list(labels) or r['changed'] != changed \
                or r['powers_after'] != c['args']['powers']:
            return 'labels / has_changed', dict(labels=list(labels), changed=changed, rounds=rounds), r
    run_cases(ctx, impl, st, 'weisfeiler_lehman_coloring', 'wl', cases, compare, 150)
    return st


# ---- 9.2 Brandes ----------------------------------------------------------------------------------------------------
def brandes_mirror(n, indptr, indices):
    """True iff every float operation of the back-propagation is exact (sigma ratios dyadic, delta values float32)."""
    for s in range(n):
        sigma, dist, preds = [0] * n, [-1] * n, [[] for _ in range(n)]
        sigma[s], dist[s] = 1, 0
        queue, seen = [s], []
        while queue:
            i = queue.pop(0)
            seen.append(i)
            for j in indices[indptr[i]:indptr[i + 1]]:
                if dist[j] < 0:
                    dist[j] = dist[i] + 1
                    queue.append(j)
                if dist[j] == dist[i] + 1:
                    sigma[j] += sigma[i]
                    preds[j].append(i)
        delta = [Fr(0)] * n
        for j in reversed(seen):
            for i in preds[j]:
                ratio = Fr(sigma[i], sigma[j])
                for x in (ratio, 1 + delta[j], ratio * (1 + delta[j]), delta[i] + ratio * (1 + delta[j])):
                    if not f32_ok(x):
                        return False
                delta[i] = delta[i] + ratio * (1 + delta[j])
    return True


def k_brandes(ctx, impl, rng, quick):
    st = KStats('Betweenness.fit', 'exact when every float32 operation of the back-propagation is exact (checked by a mirror), else '
                'within rel/abs 2e-4 (float32 delta; the kernel takes no decision on a float); compared before the halving, '
                'connectivity check disabled', 'direct')
    cases = []

    def add(fam, n, E):
        indptr, indices, _ = to_csr(n, {e: 1 for e in E})
        cases.append(dict(fam=fam, n=n, nontrivial=len(indices) > 0, exact=brandes_mirror(n, indptr, indices),
                          args=dict(indptr=indptr, indices=indices),
                          expr='kmap sh_br (Safety2.brandes_flat %s %s)' % (nl(indptr), nl(indices))))
    for fam, n, E in exhaustive_directed(3):
        add(fam, n, E)
    for _ in range(250 if quick else 2500):
        fam, n, E = kgraph(rng, directed=rng.random() < 0.35)
        add(fam, n, E)

    def compare(c, mv, r):
        scores, log = mv
        ms = [fr_pair(p) for p in scores]
        n = c['n']
        if len(log) != n or any(a > n or a != b for (a, b) in log):
            return 'pop counts of the model outside the bounds of brandes_terminates', n, log
        got = [Fr(x) for x in r['scores']]
        if c['exact']:
            if got != ms:
                return 'scores (exact arithmetic expected on this input)', ms, r
            return None
        if len(got) != len(ms) or any(abs(a - b) > Fr(TOL32) * max(1, abs(b)) for a, b in zip(got, ms)):
            return 'scores beyond the float32 tolerance', ms, r
        return 'tolerance'
    run_cases(ctx, impl, st, 'Betweenness.fit', 'brandes', cases, compare, 100)
    return st


# ---- 7. / 9.3 Louvain and Leiden kernels ----------------------------------------------------------------------------
def cluster_sums(n, labels, w, m=None):
    out = [Fr(0)] * (m if m is not None else n)
    for i in range(n):
        out[labels[i]] += w[i]
    return out


def modularity_bits(n, data, sl, ow, iw, ocw, icw, res, extra=0):
    """Conservative: every intermediate float of optimize_core / optimize_refine_core is a multiple of 2^-G of magnitude <= M;
    True iff M * 2^G < 2^24 (then all of them are float32 values)."""
    gd, gw, gr = gran(list(data) + list(sl)), gran(list(ow) + list(iw) + list(ocw) + list(icw)), gran([res])
    if gd is None or gw is None or gr is None:
        return False
    G = max(gd, gr + 2 * gw)
    Wd = sum(abs(x) for x in data) + max([abs(x) for x in sl] + [0])
    a = max([abs(x) for x in list(ow) + list(iw)] + [0])
    C = max(sum(abs(x) for x in ocw) + sum(abs(x) for x in ow), sum(abs(x) for x in icw) + sum(abs(x) for x in iw))
    M = 2 * (2 * Wd + 2 * abs(res) * a * (C + a)) + 2 * Wd + C
    M = max(M, extra)
    return M * 2 ** G < 2 ** 24


def sym_case(rng, exhaustive=None):
    """Symmetric weighted graph in the convention of Louvain._optimize / Leiden._optimize_refine."""
    if exhaustive is not None:
        fam, n, E = exhaustive
    else:
        fam, n, E = kgraph(rng, directed=False)
        E = E | {(j, i) for (i, j) in E}
    W, kind = weights(rng, E, symmetric=True)
    indptr, indices, data = to_csr(n, W)
    rows = [sum((W[(i, j)] for j in indices[indptr[i]:indptr[i + 1]]), Fr(0)) for i in range(n)]
    scale = rng.choice([Fr(1), Fr(1), Fr(1, 2), Fr(1, 8)])
    ow = [x * scale for x in rows]
    sl = [W.get((i, i), Fr(0)) for i in range(n)]
    return '%s_%s' % (fam, kind), n, indptr, indices, data, ow, list(ow), sl


RESOLUTIONS = [Fr(0), Fr(1, 2), Fr(1), Fr(1), Fr(2)]


def all_symmetric(nmax):
    for n in range(0, nmax + 1):
        if n == 0:
            yield 'exh_0', 0, set()
            continue
        for E in gen.all_undirected(n):
            S = set(E) | {(j, i) for (i, j) in E}
            yield 'exh_%d' % n, n, S
            if n <= 3:
                for mask in range(1, 2 ** n):
                    yield 'exh_%d_loops' % n, n, S | {(i, i) for i in range(n) if mask >> i & 1}


def k_louvain(ctx, impl, rng, quick):
    st = KStats('optimize_core', 'exact (weights small integers or eighths, resolution in {0, 1/2, 1, 2}, dyadic tolerance; a bound on '
                'the bits of every intermediate is checked, an input beyond it is dropped and counted)',
                'direct; also optimize_core_flat_refines (Props/C17.v section 8) to Model/Louvain.v, which the C06 correspondence ties')
    cases = []

    def add(fam, n, indptr, indices, data, ow, iw, sl, labels, res, tol, contract, ocw=None, icw=None):
        ocw = cluster_sums(n, labels, ow) if ocw is None else ocw
        icw = cluster_sums(n, labels, iw) if icw is None else icw
        cw = [Fr(0)] * n
        common_args = '%s %s %s %s %s %s %s %s %s %s %s %s' % (nl(labels), nl(indices), nl(indptr), ql(data), ql(ow), ql(iw), ql(ocw),
                                                           ql(icw), ql(cw), ql(sl), cq(res), cq(tol))
        if contract:
            fuel = '(lv_fuel %d %s %s %s %s %s %s %s %s)' % (n, nl(indptr), nl(indices), ql(data), ql(ow), ql(iw), cq(res), cq(tol), nl(labels))
        else:
            fuel = '%d' % GENERAL_FUEL
        cases.append(dict(fam=fam, contract=contract, nontrivial=len(indices) > 0,
                          bits=(n, data, sl, ow, iw, ocw, icw, res),
                          args=dict(labels=labels, indices=indices, indptr=indptr, data=[float(x) for x in data], ow=[float(x) for x in ow],
                                    iw=[float(x) for x in iw], ocw=[float(x) for x in ocw], icw=[float(x) for x in icw],
                                    cw=[0.0] * n, self_loops=[float(x) for x in sl], resolution=float(res), tol=float(tol)),
                          expr='kmap sh_lv (Safety.optimize_core %s %s)' % (fuel, common_args)))

    def one(g, k):
        fam, n, indptr, indices, data, ow, iw, sl = sym_case(rng, g)
        res = RESOLUTIONS[k % len(RESOLUTIONS)]
        u = rng.random()
        if u < 0.7 or n == 0:
            labels = list(range(n))                                    # Louvain._optimize
        else:
            labels = [rng.randrange(n) for _ in range(n)]              # a later call of Leiden._optimize
        tol = rng.choice([Fr(1, 1024), Fr(1, 128), Fr(1, 8), Fr(1), Fr(0)])
        add(fam, n, indptr, indices, data, ow, iw, sl, labels, res, tol, contract=tol > 0)
    exh = list(all_symmetric(4))
    for k, g in enumerate(exh):
        one(g, k)
    for k in range(260 if quick else 2600):
        one(None, k)
    # outside the contract of the termination theorem (optimize_core_safe: in bounds for EVERY fuel): directed graphs,
    # arbitrary node weights; the kernel is only run when the model returns within GENERAL_FUEL passes
    for k in range(60 if quick else 600):
        fam, n, E = kgraph(rng, directed=True)
        W, kind = weights(rng, E, symmetric=False)
        indptr, indices, data = to_csr(n, W)
        ow = [Fr(rng.randint(0, 6), 2) for _ in range(n)]
        iw = [Fr(rng.randint(0, 6), 2) for _ in range(n)]
        sl = [Fr(rng.randint(0, 2)) for _ in range(n)]
        labels = [rng.randrange(n) for _ in range(n)] if rng.random() < 0.5 else list(range(n))
        add('%s_%s_general' % (fam, kind), n, indptr, indices, data, ow, iw, sl, labels, RESOLUTIONS[k % 5],
            rng.choice([Fr(1, 8), Fr(1), Fr(0)]), contract=False)

    def compare(c, mv, r):
        labels, inc, passes = mv
        inc = fr_pair(inc)
        if not modularity_bits(*c['bits'], extra=abs(inc)):
            return 'dropped'
        if r['ret'] != list(labels) or r['labels_after'] != list(labels) or Fr(r['increase']) != inc or any(r['cw']):
            return 'labels / increase', dict(labels=list(labels), increase=inc, passes=passes), r
    run_cases(ctx, impl, st, 'optimize_core', 'louvain_core', cases, compare, 60)
    return st


def k_leiden(ctx, impl, rng, quick):
    st = KStats('optimize_refine_core', 'exact (same inputs and bit bound as optimize_core); the kernel carries its own generator, which the model evaluates too '
                '(Safety2.leiden_draw); libc rand() is re-seeded differently before each of two runs, which must agree; fuel '
                'min(n^n + 1, %d)' % LEIDEN_FUEL_CAP, 'direct')
    pre = []

    def add(fam, n, indptr, indices, data, ow, iw, sl, labels, res, contract):
        lr = list(range(n))
        pre.append(dict(fam=fam, contract=contract, n=n, nontrivial=len(indices) > 0, bits=(n, data, sl, ow, iw, ow, iw, res),
                        q=dict(indptr=indptr, indices=indices, data=data, ow=ow, iw=iw, sl=sl, res=res, labels=labels, lr=lr),
                        args=dict(labels=labels, labels_refined=lr, indices=indices, indptr=indptr, data=[float(x) for x in data],
                                  ow=[float(x) for x in ow], iw=[float(x) for x in iw], ocw=[float(x) for x in ow],
                                  icw=[float(x) for x in iw], cw=[0.0] * n, self_loops=[float(x) for x in sl],
                                  resolution=float(res), seed=rng.randrange(1, 2 ** 31), K=600)))

    def one(g, k):
        fam, n, indptr, indices, data, ow, iw, sl = sym_case(rng, g)
        u = rng.random()
        if u < 0.35:
            labels = [0] * n
        elif u < 0.75:
            labels = [rng.randrange(max(1, n // 2)) for _ in range(n)]
        else:
            labels = [rng.randrange(n) for _ in range(n)] if n else []
        add(fam, n, indptr, indices, data, ow, iw, sl, labels, RESOLUTIONS[k % len(RESOLUTIONS)], True)
    exh = list(all_symmetric(4))
    for k, g in enumerate(exh):
        one(g, k)
    for k in range(260 if quick else 2600):
        one(None, k)
    for k in range(50 if quick else 500):
        fam, n, E = kgraph(rng, directed=True)
        W, kind = weights(rng, E, symmetric=False)
        indptr, indices, data = to_csr(n, W)
        ow = [Fr(rng.randint(0, 6), 2) for _ in range(n)]
        iw = [Fr(rng.randint(0, 6), 2) for _ in range(n)]
        sl = [Fr(rng.randint(0, 2)) for _ in range(n)]
        add('%s_%s_general' % (fam, kind), n, indptr, indices, data, ow, iw, sl, [rng.randrange(max(1, n // 2)) for _ in range(n)],
            RESOLUTIONS[k % 5], False)
    # Inside the contract the kernel is run first (leiden_refine_safe: no out-of-bounds access for ANY stream); outside it the
    # model (with the coded generator) is first asked whether any access is out of bounds.
    guard = [c for c in pre if not c['contract']]
    if guard:
        gv = safe_coq_eval(ctx, 'c17k_leiden_guard', K_IMPORTS, [leiden_expr(c, None, GENERAL_FUEL) for c in guard], prelude=K_PRELUDE, shard=60)
        for c in guard:
            c['guard'] = 'model_dead'      # only the model says whether such a call stays in bounds: not run when it is dead
        for c, v in zip(guard, gv or []):
            c['guard'] = kres_of(v)[0]
    cases = []
    for c in pre:
        st.d['evaluated'] += 1
        ctx.count('kernel:optimize_refine_core:' + c['fam'], ('leiden', c['args']), c['nontrivial'])
        case = dict(kernel='optimize_refine_core', family=c['fam'], args=c['args'])
        if not c['contract']:
            st.d['outside_contract'] += 1
            if c['guard'] == 'model_dead':
                continue
            if c['guard'] != 'ok':
                st.d['kernel_not_run_model_oob' if c['guard'] == 'oob' else 'kernel_not_run_model_out_of_fuel'] += 1
                continue
        if st.d['hangs_or_crashes'] >= MAX_KERNEL_HANGS:
            st.d['not_run_after_repeated_hangs'] += 1
            continue
        r = impl.call('c17', 'leiden_refine', c['args'], timeout=K_TIMEOUT)
        ctx.traces += 1
        if 'hang' in r or 'crash' in r:
            if c['contract']:
                st.d['hangs_or_crashes'] += 1
                st.d['violations'] += 1
                ctx.violation('optimize_refine_core', 'the compiled kernel %s on an input inside the contract of leiden_refine_terminates '
                              '(exact dyadic arithmetic: every accepted move strictly increases the objective)'
                              % ('does not return within %.0f s' % K_TIMEOUT if 'hang' in r else 'killed the interpreter'),
                              case=case, kind='hang' if 'hang' in r else 'crash', family=c['fam'], kernel_call=True)
            else:
                st.d['kernel_not_run_model_out_of_fuel'] += 1
            continue
        if 'ok' not in r:
            st.d['violations'] += 1
            ctx.violation('optimize_refine_core', 'the compiled kernel raised', case=case, kind='model_correspondence', family=c['fam'], observed=r)
            continue
        o = r['ok']
        if not o['libc_independent']:
            st.d['violations'] += 1
            ctx.violation('optimize_refine_core', 'two runs of the kernel on the same arguments differ when libc rand() is seeded '
                          'differently: the kernel is not a function of its arguments', case=case, kind='model_correspondence',
                          family=c['fam'], observed=o)
            continue
        c['impl'] = o
        checked_call(ctx, st, 'optimize_refine_core', 'c17', 'leiden_refine', c['args'], case, c['fam'], o)
        n = c['n']
        fuel = min(n ** n + 1, LEIDEN_FUEL_CAP) if c['contract'] else GENERAL_FUEL
        c['expr'] = leiden_expr(c, None, fuel)
        cases.append(c)
    vals = (safe_coq_eval(ctx, 'c17k_leiden', K_IMPORTS, [c['expr'] for c in cases], prelude=K_PRELUDE, shard=60, timeout=900) or []) if cases else []
    for c, v in zip(cases, vals):
        o = c['impl']
        case = dict(kernel='optimize_refine_core', family=c['fam'], args=c['args'], generator='Safety2.leiden_draw')
        tag, mv = kres_of(v)
        if tag != 'ok':
            st.d['violations'] += 1
            ctx.violation('optimize_refine_core', 'the flat model returns %s where the compiled kernel returns (coded generator)' % tag,
                          case=case, kind='model_envelope' if c['contract'] else 'model_correspondence', family=c['fam'],
                          expected=o, observed=common.jsonable(v))
            continue
        if not modularity_bits(*c['bits']):
            st.d['dropped_inexact'] += 1
            ctx.margin_dropped += 1
            continue
        st.d['compared'] += 1
        lr, passes = mv
        if o['ret'] != list(lr) or o['lr_after'] != list(lr) or o['labels_after'] != c['args']['labels'] or any(o['cw']):
            st.d['violations'] += 1
            ctx.violation('optimize_refine_core', 'compiled kernel differs from its flat model: refined labels', case=case,
                          kind='model_correspondence', family=c['fam'], expected=dict(labels_refined=list(lr), passes=passes), observed=o)
        else:
            st.d['agree'] += 1
            if st.d['agree'] == 1:
                ctx.sample(dict(kind='kernel_correspondence', kernel='optimize_refine_core', family=c['fam'], args=c['args'],
                                generator='Safety2.leiden_draw', model=[list(lr), passes]), limit=20)
    return st


def leiden_expr(c, stream, fuel):
    q = c['q']
    n = c['n']
    rnd = 'Safety2.leiden_draw' if stream is None else '(fun k => nth k %s 0)' % nl(stream)
    return 'Safety2.optimize_refine_core %d %s %s %s %s %s %s %s %s %s %s %s %s %s' % (
        fuel, rnd, nl(q['labels']), nl(q['lr']), nl(q['indices']), nl(q['indptr']), ql(q['data']), ql(q['ow']), ql(q['iw']),
        ql(q['ow']), ql(q['iw']), ql([Fr(0)] * n), ql(q['sl']), cq(q['res']))


# ---- 6. Propagation.fit: the driver loop ----------------------------------------------------------------------------
def k_propagation(ctx, impl, rng, quick):
    st = KStats('Propagation.fit', 'exact (integer labels; votes are sums of small integers); the arguments of the first vote_update call '
                '(CSR arrays, index_remain, initial labels) are recorded from the run and handed to the model; finite n_iter = m: '
                'fuel m; default n_iter: fuel 40, the kernel is run only if the model returns',
                'direct (driver loop); its sweep is Model/Vote.v (tied above and by C13)')
    cases = []
    for k in range(160 if quick else 1600):
        if rng.random() < 0.5:
            spec, n = oscillating(rng)
            fam = 'oscillating'
        else:
            fam, n, E = kgraph(rng, directed=rng.random() < 0.5)
            if n < 2 or not E:
                continue              # an empty matrix is rejected by check_format (ValueError) before the loop
            W, kind = weights(rng, E, symmetric=False, kind=rng.choice(['unit', 'int']))
            spec = dict(shape=[n, n], coo=[[i, j, int(w)] for (i, j), w in sorted(W.items())], dtype='int', fmt='csr')
        seeds = {}
        for s in rng.sample(range(n), min(n, rng.randint(1, 3))):
            seeds[s] = rng.choice([0, 1, 1, 2, n + 3])
        m = rng.choice([0, 1, 2, 3, 5, 8, -1])
        weighted = rng.random() < 0.8
        # the model needs index_remain and the initial labels: node_order=None -> the unlabelled nodes in increasing order
        labels0 = [seeds.get(i, -1) for i in range(n)]
        if len({x for x in labels0 if x >= 0}) == 1:
            labels0 = list(range(n))        # get_adjacency_values(which='labels'): one distinct seed label -> arange(n)
        if len(set(labels0)) == n and min(labels0) >= 0:
            index = list(range(n))
        else:
            index = [i for i in range(n) if labels0[i] < 0]
        W = {(e[0], e[1]): Fr(e[2]) for e in spec['coo']}
        indptr, indices, data = to_csr(n, W)
        if not weighted:
            data = [Fr(1)] * len(indices)
        args = dict(m=spec, labels={'dict': sorted(seeds.items())}, n_iter=m, node_order=None, weighted=weighted)
        fuel, nit = (m, '(Some %d)' % m) if m >= 0 else (40, 'None')
        cases.append(dict(fam='%s_%s' % (fam, 'default' if m < 0 else 'finite'), contract=(m >= 0), args=args, n=n,
                          first=dict(indptr=indptr, indices=indices, data=[float(x) for x in data], labels=labels0, index=index),
                          expr='Safety.propagation_fit %d %s %s %s %s %s %s' % (fuel, nit, nl(indptr), nl(indices), ql(data), nl(index), zl(labels0))))

    def compare(c, mv, r):
        labels, t = mv
        if r.get('first') is not None and r['first'] != c['first']:
            return 'arguments of the first vote_update call (harness reconstruction of the caller)', c['first'], r['first']
        if r['labels'] != list(labels) or r['sweeps'] != t:
            return 'labels / number of sweeps', dict(labels=list(labels), sweeps=t), dict(labels=r['labels'], sweeps=r['sweeps'])
    run_cases(ctx, impl, st, 'Propagation.fit', 'propagation', cases, compare, 80, mod='c13')
    return st


# ---- 4. / 9.6: models tied by another property's correspondence: light runs -----------------------------------------
def k_bfs_light(ctx, impl, rng, quick):
    from . import c10
    st = KStats('get_distances', 'exact (integers)', 'via the C10 correspondence (same definitions Bfs.bfs / Bfs.get_distances); light run')
    cases = []
    for _ in range(40 if quick else 400):
        fam, n, E = kgraph(rng, directed=rng.random() < 0.5)
        if n == 0:
            continue
        E = sorted(E)
        S = sorted(rng.sample(range(n), rng.randint(1, min(2, n))))
        tr = rng.random() < 0.3
        cases.append(dict(fam=fam, args=dict(m=c10.mspec(n, n, E), source=S, source_row=None, source_col=None, transpose=tr,
                                             force_bipartite=False),
                          expr='get_distances %s %s None None %s false' % (c10.pmat(n, n, E), c10.src_lit(S), cbool(tr))))
    vals = safe_coq_eval(ctx, 'c17k_bfs', ['Base.Util', 'Model.Bfs'], [c['expr'] for c in cases], shard=100)
    if vals is None:
        vals = [None] * len(cases)       # model dead: the calls are still supervised (hang / crash), nothing to compare with
    for c, v in zip(cases, vals):
        st.d['evaluated'] += 1
        ctx.count('kernel:get_distances:' + c['fam'], ('bfs', c['args']), True)
        exp = c10.conv_dist(v) if v is not None else None
        r = impl.call('c10', 'distances', c['args'], timeout=K_TIMEOUT)
        ctx.traces += 1
        case = dict(kernel='get_distances', family=c['fam'], args=c['args'])
        if 'hang' in r or 'crash' in r:
            st.d['violations'] += 1
            ctx.violation('get_distances', 'does not return / crashes where the model returns', case=case,
                          kind='hang' if 'hang' in r else 'crash', family=c['fam'], kernel_call=True, expected=exp)
            continue
        if v is None:
            continue
        st.d['compared'] += 1
        if c10.canon_impl(r) != exp:
            st.d['violations'] += 1
            ctx.violation('get_distances', 'implementation differs from the model', case=case, kind='model_correspondence',
                          family=c['fam'], expected=exp, observed=r)
        else:
            st.d['agree'] += 1
    return st


def k_paris_light(ctx, impl, rng, quick):
    from . import c07
    st = KStats('paris', 'status only (model returns a dendrogram of n - 1 rows iff the code does; heights and merges are compared by C07)',
                'via the C07 correspondence (Model/Paris.v: exact and IEEE models) + paris_source_tie_exact (Gen/ParisSrc.v); light run')
    cases = []
    for _ in range(24 if quick else 240):
        fam, n, E = kgraph(rng, directed=False, nmax=8, loops=False)
        und = sorted({(min(i, j), max(i, j)) for (i, j) in E if i != j})
        if n < 2 or not und:
            continue
        wk = rng.choice([1, 1, 3])
        coo = c07.und([(i, j, rng.randint(1, wk)) for (i, j) in und])
        degree = rng.random() < 0.5
        cases.append(dict(fam=fam, n=n, args=dict(algo='Paris', opts=dict(weights='degree' if degree else 'uniform', reorder=False),
                                                  m=c07.spec(n, n, coo)),
                          expr='cvp (paris_src exact %s %s false %d %s)' % (cq(c07.HINF), cbool(degree), n, c07.centries(coo))))
    vals = safe_coq_eval(ctx, 'c17k_paris', c07.IMPORTS, [c['expr'] for c in cases], prelude=c07.PRELUDE, shard=12)
    if vals is None:
        vals = [None] * len(cases)       # model dead: the calls are still supervised (hang / crash), nothing to compare with
    for c, v in zip(cases, vals):
        st.d['evaluated'] += 1
        ctx.count('kernel:paris:' + c['fam'], ('paris', c['args']), True)
        r = impl.call('c07', 'fit', c['args'], timeout=K_TIMEOUT)
        ctx.traces += 1
        case = dict(kernel='paris', family=c['fam'], args=c['args'])
        if 'hang' in r or 'crash' in r:
            st.d['violations'] += 1
            ctx.violation('paris', 'does not return / crashes', case=case, kind='hang' if 'hang' in r else 'crash', family=c['fam'],
                          kernel_call=True, expected=common.jsonable(v))
            continue
        if v is None:
            continue
        st.d['compared'] += 1
        m_ok = v[0] == 'Ok' and len(v[1][0]) == c['n'] - 1
        i_ok = 'ok' in r and len(r['ok']['dendrogram']['rows']) == c['n'] - 1
        if m_ok != i_ok:
            st.d['violations'] += 1
            ctx.violation('paris', 'model and code disagree on whether a full dendrogram is returned', case=case,
                          kind='model_correspondence', family=c['fam'], expected=common.jsonable(v), observed=r)
        else:
            st.d['agree'] += 1
    return st


KERNELS = [k_triangles, k_vote, k_core, k_diteration, k_push, k_propagation, k_louvain, k_wl, k_brandes, k_leiden,
           k_bfs_light, k_paris_light]


def kernel_correspondence(ctx, scratch, checked=None):
    import time
    rng = ctx.rng
    quick = ctx.tier == 'quick'
    t0 = time.time()
    out = {}
    impl = Impl(scratch, threads=1)      # one OpenMP thread: the prange loops of push_pagerank run in index order, as in the model
    _CHECKED['impl'] = Impl(checked, threads=1) if checked else None
    try:
        for k in KERNELS:
            t = time.time()
            st = k(ctx, impl, rng, quick)
            d = st.as_dict()
            d['wall_s'] = round(time.time() - t, 1)
            out[st.name] = d
    finally:
        impl.close()
        if _CHECKED['impl'] is not None:
            _CHECKED['impl'].close()
            _CHECKED['impl'] = None
    out['_models_tied_elsewhere'] = {
        'Louvain.leiden_fit (Props/C17.v section 11)': 'C06 correspondence (Model/Louvain.v leiden_fit with the recorded refinement answers)',
        'Paris.paris_core / paris_run (sections 9.6, 10)': 'C07 correspondence; light status run here',
        'Bfs.bfs / get_distances (section 4)': 'C10 correspondence; light run here',
    }
    out['_wall_s'] = round(time.time() - t0, 1)
    ctx.extra['kernel_correspondence'] = out

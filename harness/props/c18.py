"""C18 — graphs are ingested and persisted faithfully.

Correspondence: the Coq models (Model/Parse.v, Model/PathSafe.v + Gen/PathCheck.v) are evaluated by vm_compute
and diffed against the implementation built from the working tree (from_edge_list, from_adjacency_list,
scan_header, is_within_directory, safe_extract).
Property oracle: an independent Python rendering of the property text is compared with the implementation's
outputs (edge lists, adjacency lists, CSV files, GraphML files, save/load round trips, real tar extraction into
a scratch folder with the file system diffed)."""
import itertools
import math
import os
import shutil
import tempfile
from fractions import Fraction

from ..common import cnat, cz, cbool, clist, copt, cstr, safe_coq_eval
from ..impl import Impl

GEN_FILES = ['PathCheck.v', 'ParseCalls.v']

STR_POOL = ['a', 'b', 'c', 'Alice', 'Bob', 'carol', 'n10', 'n2', 'n1', 'Z', 'x_y', 'node-7', 'q', 'A']
DELIMS = [',', '\t', ' ', ';']
STR_PRELUDE = 'From Coq Require Import String Ascii.'


PER_CLASS = 1
MODEL_ERRORS = []       # tags of the model evaluations that failed during the run (each is recorded in ctx.proof_broken)


def model_eval(ctx, tag, imports, exprs, prelude='', shard=400):
    """coq_eval that cannot pre-empt the implementation-side search: on failure (the model or a generated file no longer
    compiles) the error is recorded and None is returned; the callers then skip the model diff and still run the
    property oracles on the implementation, so that a concrete failing input is reported when one exists."""
    vals = safe_coq_eval(ctx, tag, imports, exprs, prelude=prelude, shard=shard)      # records the failure in ctx.proof_broken
    if vals is None:
        MODEL_ERRORS.append(tag)
        ctx.notes.append('model evaluation failed (%s): correspondence skipped for this part, implementation-side oracles still run' % tag)
    return vals



def report(ctx, site, what, **fields):
    """ctx.violation, keeping at most PER_CLASS unmatched violations per (site, defect / kind) class so that the
    violations printed cover the distinct classes; repeats are counted in the evidence, known findings always forwarded."""
    from ..common import _match
    v = dict(site=site, what=what)
    v.update(fields)
    if any(_match(f.get('match', {}), v) for f in ctx.known):
        return ctx.violation(site, what, **fields)
    key = '%s/%s' % (site, fields.get('defect') or fields.get('kind') or 'other')
    seen = ctx.extra.setdefault('violations_per_class', {})
    seen[key] = seen.get(key, 0) + 1
    if seen[key] <= PER_CLASS:
        return ctx.violation(site, what, **fields)
    return True


# =============================================================================================
# independent oracles (written from the property text, not from the code)
# =============================================================================================
def oracle_graph(edges, fl, id_kind):
    """edges: [(a, b, w)] with raw weights (1 when none listed). Returns dict(shape, entries, names...)."""
    reindexed = id_kind == 'str' or fl['reindex']
    srcs = [e[0] for e in edges]
    dsts = [e[1] for e in edges]
    if fl['bipartite']:
        row_ids, col_ids = srcs, dsts
    else:
        row_ids = col_ids = srcs + dsts
    if reindexed:
        names_row = sorted(set(row_ids))
        names_col = sorted(set(col_ids))
        ri = {a: k for k, a in enumerate(names_row)}
        ci = {a: k for k, a in enumerate(names_col)}
        n_row, n_col = len(names_row), len(names_col)
    else:
        names_row = names_col = None
        ri = {a: a for a in row_ids}
        ci = {a: a for a in col_ids}
        n_row, n_col = max(row_ids) + 1, max(col_ids) + 1
        if fl['shape'] is not None:
            n_row = max(n_row, fl['shape'][0])
            n_col = max(n_col, fl['shape'][0 if not fl['bipartite'] else 1])
    listed = {}
    for a, b, w in edges:
        listed.setdefault((ri[a], ci[b]), []).append(w)
    base = {}
    for k, ws in listed.items():
        if not fl['sum_duplicates']:
            ws = ws[:1]
        base[k] = sum(ws) if fl['weighted'] else int(any(w != 0 for w in ws))
    if fl['bipartite'] or fl['directed']:
        ent = dict(base)
    else:
        ent = {}
        for (i, j) in set(base) | {(j, i) for (i, j) in base}:
            x, y = base.get((i, j), 0), base.get((j, i), 0)
            ent[(i, j)] = x + y if fl['weighted'] else max(x, y)
    ent = {k: v for k, v in ent.items() if v != 0}
    mo = fl['matrix_only'] if fl['matrix_only'] is not None else not reindexed
    return dict(shape=[n_row, n_col], entries=ent, names_row=names_row, names_col=names_col, matrix_only=mo,
                reindexed=reindexed)


def gen_weights(rng, n, kind):
    """Weight families. All float values are dyadic (exact binary fractions), so sums of <= 60 of them are exact."""
    big = [10 ** 5, 3 * 10 ** 5, 10 ** 6, 123456789, 10 ** 9, 1600000000]
    frac = [0.5, 0.25, 0.75]

    def large():
        return float(rng.choice(big) * rng.randint(1, 3)) + rng.choice(frac)

    def near():
        return float(rng.randint(1, 60)) + 2.0 ** -20          # k + 9.5e-7, exactly representable
    if kind == 'none':
        return None
    if kind == 'pos':
        return [rng.randint(1, 5) for _ in range(n)]
    if kind == 'signed':
        return [rng.choice([-3, -2, -1, 1, 2, 3]) for _ in range(n)]
    if kind == 'dyadic':
        return [rng.choice([0.5, 2.25, 1.5, 0.25, 3.0, 7.75, -1.5]) for _ in range(n)]
    if kind == 'float_ints':
        return [float(rng.randint(1, 9)) for _ in range(n)]            # floats that ARE integers: cast to int
    if kind == 'large':
        return [large() for _ in range(n)]
    if kind == 'near':
        return [near() for _ in range(n)]
    if kind == 'large_near':        # near-integers with a coarser fraction here, so that sums with the large values stay exact
        return [large() if rng.random() < 0.5 else float(rng.randint(1000, 5000)) + 2.0 ** -10 for _ in range(n)]
    if kind == 'one_fraction':
        w = [float(rng.randint(1, 9)) for _ in range(n)]
        w[rng.randrange(n)] = rng.choice([10 ** 6 + 0.5, 3 + 2.0 ** -20, 0.5])
        return w
    raise ValueError(kind)


FLOAT_KINDS = ['dyadic', 'float_ints', 'large', 'near', 'large_near', 'one_fraction']


def has_reciprocal(edges):
    s = {(a, b) for a, b, w in edges if w != 0}
    return any((b, a) in s for (a, b) in s)


def norm_components(cwd, p):
    """Components of the absolute location denoted by p (POSIX), computed with a stack."""
    full = p if p.startswith('/') else cwd.rstrip('/') + '/' + p
    out = []
    for c in full.split('/'):
        if c in ('', '.'):
            continue
        if c == '..':
            if out:
                out.pop()
        else:
            out.append(c)
    return out


def join_path(a, b):
    if b.startswith('/'):
        return b
    if a == '' or a.endswith('/'):
        return a + b
    return a + '/' + b


def is_prefix(a, b):
    return len(a) <= len(b) and b[:len(a)] == a


# =============================================================================================
# Gallina literals and result conversion
# =============================================================================================
def flags_lit(fl):
    sh = 'None' if fl['shape'] is None else '(Some (%d, %d))' % tuple(fl['shape'])
    mo = 'None' if fl['matrix_only'] is None else '(Some %s)' % cbool(fl['matrix_only'])
    return ('{| directed := %s; bipartite := %s; weighted := %s; reindex := %s; sum_duplicates := %s; '
            'shape := %s; matrix_only := %s |}') % (cbool(fl['directed']), cbool(fl['bipartite']), cbool(fl['weighted']),
                                                    cbool(fl['reindex']), cbool(fl['sum_duplicates']), sh, mo)


def common_den(weights):
    """Least common denominator of the (exactly converted) weights; 1 for integers / no weights."""
    den = 1
    for w in weights or []:
        d = Fraction(w).denominator
        den = den * d // math.gcd(den, d)
    return den


def typed(expr, weights, den):
    """(is the weight array cast to int?, view) — the typing decision is taken exactly in the model."""
    nums = None if weights is None else [int(Fraction(w) * den) for w in weights]
    return '(weights_integral %s %s, %s)' % (cz(den), copt(nums, lambda w: clist(w, cz)), expr), nums


def edges_expr(pairs, weights, id_kind, fl):
    f = cnat if id_kind == 'int' else cstr
    fn = 'from_edge_list_nat' if id_kind == 'int' else 'from_edge_list_str'
    den = common_den(weights)
    nums = None if weights is None else [int(Fraction(w) * den) for w in weights]
    view = 'view (%s pp_sym_passes_weighted %s %s %s)' % (fn, flags_lit(fl), clist(pairs, lambda e: '(%s, %s)' % (f(e[0]), f(e[1]))),
                                                          copt(nums, lambda w: clist(w, cz)))
    return typed(view, weights, den)[0]


def conv_view(v, den=1, weighted=True):
    """Coq `(weights_integral .., view ..)` -> comparable dict; weighted entries are numerators over den."""
    integral, v = v
    if v is None:
        return {'err': True}
    v = v[1]
    r, c, trip, isbool, names, only = v
    nm, nr, nc = names

    def nv(x):
        return None if x is None else list(x[1])
    if only:        # a bare matrix carries no names
        nm = nr = nc = None
    scale = den if weighted else 1
    return {'shape': [r, c], 'triples': sorted([i, j, Fraction(w, scale)] for (i, j, w) in trip if w != 0),
            'dtype': 'bool' if isbool else ('int' if integral else 'float'),
            'names': nv(nm), 'names_row': nv(nr), 'names_col': nv(nc), 'matrix_only': only}


def conv_impl(r):
    """Worker view -> the same comparable dict."""
    if 'ok' not in r:
        return {'err': True, 'detail': r}
    o = r['ok']
    m = o['matrix']

    def nv(x):
        return None if x is None else list(x['values'])
    return {'shape': m['shape'], 'triples': [[i, j, Fraction(w)] for i, j, w in m['triples']],     # floats convert exactly
            'dtype': m['dtype'],
            'names': nv(o.get('names')), 'names_row': nv(o.get('names_row')), 'names_col': nv(o.get('names_col')),
            'matrix_only': o['matrix_only']}


def same_entries(got, exp, approx):
    if not approx:
        return got == exp
    return set(got) == set(exp) and all(abs(got[k] - exp[k]) <= Fraction(1, 10 ** 12) * max(1, abs(exp[k])) for k in exp)


def oracle_check(ctx, site, case, impl_view, edges, fl, id_kind, family, approx=False):
    """Property oracle on the implementation's output (entries compared exactly: weights are converted to
    rationals without error and the generated weights are dyadic, so the float sums are exact; `approx` = rel 1e-12
    for the non-dyadic family). Returns True when it holds."""
    edges = [(a, b, Fraction(w)) for a, b, w in edges]
    exp = oracle_graph(edges, fl, id_kind)
    if fl['weighted'] and any(Fraction(float(abs(w))) * 2 ** 20 >= 2 ** 52 for _, _, w in edges) or \
            any(Fraction(float(v)) != v for v in exp['entries'].values()):
        approx = True       # some sum is not representable exactly in float64: never demand more than round-off allows
    if impl_view.get('err'):
        report(ctx, site, 'implementation raises on a valid input', case=case, expected=_js(exp), observed=impl_view.get('detail'),
                      defect=classify_error(impl_view.get('detail'), case), family=family)
        return False
    got = {(i, j): w for i, j, w in impl_view['triples']}
    problems = []
    if impl_view['shape'] != exp['shape']:
        problems.append('shape')
    if not same_entries(got, exp['entries'], approx):
        problems.append('entries')
    if impl_view['matrix_only'] != exp['matrix_only']:
        problems.append('matrix_only')
    if not impl_view['matrix_only']:
        if fl['bipartite']:
            if impl_view['names_row'] != exp['names_row'] or impl_view['names_col'] != exp['names_col'] or \
                    impl_view['names'] != exp['names_row']:
                problems.append('names')
        elif impl_view['names'] != exp['names_row']:
            problems.append('names')
    if not problems:
        return True
    defect = 'other'
    if problems == ['entries'] and not fl['weighted'] and not fl['directed'] and not fl['bipartite'] and has_reciprocal(edges):
        bad = {k for k in set(got) | set(exp['entries']) if got.get(k) != exp['entries'].get(k)}
        if all(exp['entries'].get(k) == 1 and got.get(k) == 2 and (k[1], k[0]) in exp['entries'] for k in bad):
            defect = 'unweighted_undirected_reciprocal'
    if problems == ['entries'] and fl['weighted'] and any(w != int(w) for _, _, w in edges):
        trunc = oracle_graph([(a, b, Fraction(int(w))) for a, b, w in edges], fl, id_kind)
        if same_entries(got, trunc['entries'], approx):
            defect = 'float_weights_truncated'
    report(ctx, site, 'matrix / names differ from the specification (%s)' % ','.join(problems), case=case,
                  expected=_js(exp), observed=impl_view, defect=defect, family=family,
                  weighted=fl['weighted'], directed=fl['directed'], bipartite=fl['bipartite'])
    return False


def classify_error(detail, case):
    if not isinstance(detail, dict):
        return 'other'
    msg = str(detail.get('msg', ''))
    kind = detail.get('err')
    if kind == 'TypeError' and 'only 0-dimensional arrays' in msg:
        return 'scan_header_int_of_array'
    if kind == 'IndexError' and 'too many indices' in msg and case.get('n_rows') == 1 and case.get('numeric'):
        return 'single_row_numeric'
    if kind == 'ValueError' and 'Some errors were detected' in msg and case.get('mixed_comments'):
        return 'mixed_comment_chars'
    return 'other'


def _js(exp):
    e = dict(exp)
    e['entries'] = sorted([i, j, w] for (i, j), w in exp['entries'].items())
    return e


# =============================================================================================
# generators
# =============================================================================================
def gen_edges(rng, max_edges, id_kind=None, bip=False, wkind=None):
    """Random edge multiset with gaps, duplicates, reciprocal pairs, self-loops; optional integer weights."""
    id_kind = id_kind or rng.choice(['int', 'int', 'str', 'mixed'])
    k = rng.randint(2, 7)
    if id_kind == 'int':
        pool_r = rng.sample(range(0, 16), k)
        pool_c = rng.sample(range(0, 16), rng.randint(2, 7)) if bip else pool_r
    elif id_kind == 'str':
        pool_r = rng.sample(STR_POOL, k)
        pool_c = rng.sample(STR_POOL, rng.randint(2, 7)) if bip else pool_r
    else:
        pool_r = rng.sample(STR_POOL, max(1, k // 2)) + rng.sample(range(0, 12), k - k // 2 or 1)
        pool_c = pool_r
    m = rng.randint(1, max_edges)
    pairs = []
    while len(pairs) < m:
        a, b = rng.choice(pool_r), rng.choice(pool_c)
        pairs.append((a, b))
        u = rng.random()
        if u < 0.25 and len(pairs) < m:
            pairs.append((a, b))                      # duplicate
        elif u < 0.5 and len(pairs) < m and not bip:
            pairs.append((b, a))                      # reciprocal
    if id_kind == 'mixed':
        if all(isinstance(x, int) for e in pairs for x in e):
            pairs[0] = (rng.choice(STR_POOL), pairs[0][1])
    wk = wkind or rng.choice(['none', 'pos', 'pos', 'signed'] + FLOAT_KINDS)
    return id_kind, pairs, gen_weights(rng, len(pairs), wk)


def all_flag_combos():
    for d, b, w, r, s in itertools.product([False, True], repeat=5):
        yield dict(directed=d, bipartite=b, weighted=w, reindex=r, sum_duplicates=s)


def rand_shape(rng):
    return rng.choice([None, None, (rng.randint(0, 20), rng.randint(0, 20))])


def norm_ids(id_kind, pairs):
    """What np.array makes of the identifiers: a mixed list becomes strings."""
    if id_kind == 'mixed':
        return 'str', [(str(a), str(b)) for a, b in pairs]
    return id_kind, list(pairs)


# =============================================================================================
def run(ctx, scratch):
    rng = ctx.rng
    quick = ctx.tier == 'quick'
    del MODEL_ERRORS[:]
    root = tempfile.mkdtemp(prefix='sknverif-c18-', dir='/var/tmp')
    try:
        with Impl(scratch) as impl:
            part_paths(ctx, impl, rng, quick, root)
            part_extract(ctx, impl, rng, quick, root)
            part_edges(ctx, impl, rng, quick)
            part_adjacency(ctx, impl, rng, quick)
            part_csv(ctx, impl, rng, quick, root)
            part_saveload(ctx, impl, rng, quick, root)
            part_graphml(ctx, impl, rng, quick, root)
            part_graphml_model(ctx, impl, rng, quick, root)
    finally:
        shutil.rmtree(root, ignore_errors=True)
    ctx.rule = ('paths: random POSIX strings over {foo, foobar, fo, data, x, .., ., empty} with sibling-prefix pairs, relative and '
                'absolute, model (vm_compute, Gen/PathCheck constants) vs is_within_directory vs component-prefix oracle; archives: '
                'real tar files (plain/gz/bz2) with nested, dot-dot, absolute and sibling-prefix member names extracted by the '
                "code's safe_extract into a scratch folder, file system diffed; edge lists: <=30 edges, integer ids with gaps / "
                'string ids / mixed, duplicates, reciprocal pairs, self-loops, integer weights, x all 32 flag combinations x shape x '
                'matrix_only, model vs implementation vs independent oracle; float weights (dyadic fractions, large values with a '
                'fractional part, near-integers k + 2^-20, mixtures where every weight is close to an integer, integral floats) on '
                'every route (list / array input, CSV with each delimiter, directed and undirected, duplicates summed) compared '
                'exactly, the model taking the int-cast decision exactly on rational weights; adjacency lists and dicts; CSV files written for real '
                "(delimiters , tab space ;, header comment lines # and %, explicit / sep / guessed delimiter) compared with the "
                'list of their rows and with the oracle, scan_header model vs implementation; save/load on random datasets compared '
                'field by field; generated GraphML files. adjacency_list:*: every list of <= 2 rows with rows of length <= 2 over {0,1,2} '
                'and every dict with keys among a, b (both insertion orders) and neighbours among a, b, c, flag combinations rotating '
                'through all 32 (all 32 each in the thorough tier), then random lists / string dicts / integer-key dicts with '
                'duplicates, empty lists, neighbours that are no key, gaps, shape, matrix_only; model (vm_compute) vs implementation '
                'vs a counting oracle written on the adjacency list. graphml:*: abstract documents (tree of tag, attributes, text, '
                'children) serialised by hand to real files (with / without the GraphML namespace, compact / indented), re-read with '
                'ElementTree in the harness to obtain exactly the tree the code sees, the model evaluated on that tree inside Coq, '
                'the real from_graphml run on the file, and adjacency (dense, exact), dtype, names, every node / edge attribute '
                'array and meta compared; exhaustive_small = every document with <= 2 nodes and <= 2 edges over all ordered pairs x '
                'directed / undirected x {no weight key, int key with default, double key} x per edge {no data, weight data, opposite '
                'directed override}; random = 0-6 nodes, 0-10 edges, duplicate / reversed edges, self-loops, edge-level directed, '
                'weight key of every type with / without default, custom weight_key, 0-3 node and edge attributes of every type '
                'with defaults / descriptions / empty texts / repeated data, ids with XML-special characters, canonical ids, '
                'a 600-character id, max_string_size 3, nodes after edges, keys after the graph; fixed families for the shapes '
                'the model was written around (including the two repaired ones: node key named weight, boolean false); '
                'malformed = documents outside the input space, where only the exception class is compared with the model. '
                'An independent reader of the standard (on the abstract tree) gives the expected nodes / entries for the property '
                'oracle. distinct = hash of (entry point, arguments); non-trivial = at least one edge / one member / one attribute '
                'and not an error case')
    ctx.notes.append('save/load, non-ASCII names in edge lists and non-dyadic float weights are checked by the oracle only (pickle / npz are '
                     'outside the model): partial. GraphML: ElementTree is the oracle for the parsed tree; the model covers everything '
                     'from_graphml does with that tree')
    ctx.assumptions = [
        'string identifiers are not parseable as numbers (such strings are read as integers by design) and are ASCII in the model diff',
        'weights are non-zero integers or floats (a zero weight lists no edge); generated float weights are dyadic so that sums are exact '
        '(one oracle-only family of non-dyadic weights is compared with rel 1e-12); at least one edge',
        'CSV fields contain no delimiter candidate, quote or newline; comment lines form a header at the top of the file',
        'archives contain regular files and directories only (no links); the current directory is absolute without double leading slash',
        'Dataset attribute names are identifiers (no dot or slash)',
        'GraphML documents: one graph element, declared nodes, keys carrying id / for / attr.name / attr.type, data literals in plain '
        'decimal notation of the declared type, ASCII blanks; int64 / float64 do not overflow; dyadic float literals are compared '
        'exactly, others with rel 1e-12; strings cut on characters = bytes (long ids are ASCII)',
        'adjacency lists with at least one neighbour overall (an adjacency list without any edge defines no graph: the code raises, '
        'or returns a 0 x 0 matrix when it reindexes)',
    ]


# ---------------------------------------------------------------------------------------------
# Part A.1 — is_within_directory: model vs implementation vs oracle
# ---------------------------------------------------------------------------------------------
COMP = ['foo', 'foobar', 'fo', 'data', 'x', '..', '.', '', 'foo.d', 'Foo']


def rand_path(rng, absolute=None, maxlen=4):
    n = rng.randint(0, maxlen)
    s = '/'.join(rng.choice(COMP) for _ in range(n))
    if absolute is None:
        absolute = rng.random() < 0.4
    if absolute:
        s = rng.choice(['/', '/', '/', '///']) + s
    if rng.random() < 0.15:
        s += '/'
    return s


def part_paths(ctx, impl, rng, quick, root):
    n = 600 if quick else 6000
    cwd_rel = ['w', 'w/data', 'w/data/foo', 'w/foo/foobar']
    batches = {c: [] for c in cwd_rel}
    for k in range(n):
        c = rng.choice(cwd_rel)
        d = rand_path(rng)
        u = rng.random()
        if u < 0.35:      # target built from the directory: inside, sibling with the same prefix, dot-dot escape
            t = join_path(d, rng.choice(['x', 'a/b', '../foobar/x', '../' + (d.rstrip('/').split('/')[-1] or 'foo') + 'bar/x',
                                         './x', 'x/../../y', '..', '', '../..']))
            if rng.random() < 0.3 and not d.endswith('/'):
                t = d + rng.choice(['bar/x', '2', '.x/y', 'x'])      # raw string extension (sibling sharing the prefix)
        else:
            t = rand_path(rng)
        if d.startswith('//') and not d.startswith('///'):
            continue
        batches[c].append((d, t))
    for c, pairs in batches.items():
        cwd = os.path.join(root, c)
        exprs = ['is_within_with pc_function pc_norm_directory pc_norm_target %s %s %s' % (cstr(cwd), cstr(d), cstr(t))
                 for d, t in pairs]
        r = impl.call('c18', 'within', dict(cwd=cwd, pairs=pairs), timeout=60)
        model = model_eval(ctx, 'c18path', ['Base.Util', 'Model.PathSafe', 'Gen.PathCheck'], exprs, prelude=STR_PRELUDE)
        has_model = model is not None
        if not has_model:
            model = [None] * len(pairs)
        got = r.get('ok') if 'ok' in r else [r] * len(pairs)
        for (d, t), mv, iv in zip(pairs, model, got):
            ctx.traces += 1
            cd, ct = norm_components(cwd, d), norm_components(cwd, t)
            spec = is_prefix(cd, ct)
            ctx.count('path:' + c, ('within', c, d, t), spec or (len(cd) > 0 and len(ct) > 0))
            case = dict(cwd='{ROOT}/' + c, directory=d, target=t)
            if has_model and iv != mv:
                report(ctx, 'is_within_directory', 'implementation differs from the model', case=case, expected=mv, observed=iv,
                              kind='correspondence')
            if iv is not True and iv is not False:
                report(ctx, 'is_within_directory', 'raises', case=case, observed=iv, defect='other')
            elif iv != spec:
                sib = iv and not spec and len(cd) > 0 and len(ct) >= len(cd) and ct[:len(cd) - 1] == cd[:-1] and \
                    ct[len(cd) - 1].startswith(cd[-1])
                report(ctx, 'is_within_directory', 'check differs from component-wise containment', case=case, expected=spec,
                              observed=iv, defect='sibling_prefix_admitted' if sib else 'other')
        if pairs and c == 'w/data/foo':
            ctx.sample(dict(kind='within', cwd='{ROOT}/' + c, directory=pairs[0][0], target=pairs[0][1], model=model[0], impl=got[0]))


# ---------------------------------------------------------------------------------------------
# Part A.2 — real archives through safe_extract, file system diffed
# ---------------------------------------------------------------------------------------------
def part_extract(ctx, impl, rng, quick, root):
    n = 120 if quick else 1000
    inside = ['adjacency.npz', 'names.npy', 'sub/labels.npy', './meta.p', 'sub/../top.npy', 'a/b/c/deep.npz', 'sub/./x.npy',
              '{ROOT}/work/netset/foo/abs_inside.npy', 'foo/adjacency.npz', 'foobar/x']
    outside = ['../foo_backup/evil.txt', '../foox/y', '../foobar/x', '../foo2', '../foo.bak/y', '../../evil.npy', '../evil', 'sub/../../foobar/z', '{ROOT}/outside/abs_evil',
               '{ROOT}/work/netset/foobar/abs_sibling', '{ROOT}/work/netset/foo/../foobar/abs_dotdot', '../foo_x/deep/w',
               '../fooo', 'a/../../../netset/foobar/q']
    cases = []
    # the named adversarial families first, one member each plus a benign companion
    for nm in outside:
        cases.append(([('names.npy', 'file'), (nm, 'file')], 'outside_single'))
        cases.append(([(nm, 'file')], 'outside_only'))
    for nm in inside:
        cases.append(([(nm, 'file')], 'inside_single'))
    cases.append(([('sub', 'dir'), ('sub/x.npy', 'file'), ('adjacency.npz', 'file')], 'inside_dirs'))
    cases.append(([('../foobar', 'dir')], 'outside_dir'))
    while len(cases) < n:
        k = rng.randint(1, 5)
        bad = rng.random() < 0.5
        mem = [(rng.choice(inside), 'file') for _ in range(k)]
        if bad:
            mem.insert(rng.randrange(len(mem) + 1), (rng.choice(outside), rng.choice(['file', 'file', 'dir'])))
        cases.append((mem, 'random_bad' if bad else 'random_good'))
    layouts = [('work', 'netset/foo'), ('work/netset', 'foo'), ('work', '{ROOT}/work/netset/foo'), ('work', './netset/foo/'),
               ('work/netset/foo', '.'), ('work/netset/foo', '')]
    jobs = []
    for idx, (mem, fam) in enumerate(cases):
        cwd_rel, path = layouts[idx % len(layouts)] if idx >= 8 else layouts[0]
        if path == '' and any(m[0].startswith('{ROOT}') for m in mem):
            path = '.'
        mode = rng.choice(['', '', 'gz', 'bz2'])
        jobs.append((mem, fam, cwd_rel, path, mode))
    sub = os.path.join(root, 'x')
    exprs = []
    for mem, fam, cwd_rel, path, mode in jobs:
        names = [m[0].replace('{ROOT}', sub) for m in mem]
        exprs.append('safe_extract_with pc_function pc_norm_directory pc_norm_target %s %s %s' %
                     (cstr(os.path.join(sub, cwd_rel)), cstr(path.replace('{ROOT}', sub)), clist(names, cstr)))
    # the real extractions first (they need no model), then the model's verdicts
    results = [impl.call('c18', 'extract', dict(root=sub, cwd=cwd_rel, path=path, members=[list(m) for m in mem], mode=mode), timeout=60)
               for (mem, fam, cwd_rel, path, mode) in jobs]
    model = model_eval(ctx, 'c18tar', ['Base.Util', 'Model.PathSafe', 'Gen.PathCheck'], exprs, prelude=STR_PRELUDE)
    has_model = model is not None
    if not has_model:
        model = [None] * len(jobs)
    dataset_rel = 'work/netset/foo'
    for (mem, fam, cwd_rel, path, mode), mv, r in zip(jobs, model, results):
        ctx.traces += 1
        case = dict(cwd='{ROOT}/' + cwd_rel, path=path, members=[list(m) for m in mem], mode=mode)
        ctx.count('tar:' + fam, ('extract', cwd_rel, path, tuple(mem)), True)
        if 'ok' not in r:
            report(ctx, 'safe_extract', 'harness worker failed on the archive', case=case, observed=r, defect='other')
            continue
        o = r['ok']
        cwd_abs = os.path.join(sub, cwd_rel)
        base = norm_components(cwd_abs, path.replace('{ROOT}', sub))
        targets = [norm_components(cwd_abs, join_path(path.replace('{ROOT}', sub), m[0].replace('{ROOT}', sub))) for m in mem]
        all_inside = all(is_prefix(base, t) for t in targets)
        accepted = o['outcome']['accepted']
        before = {f[0] for f in o['before']['files']} | set(o['before']['dirs'])
        new = [f[0] for f in o['after']['files'] if f[0] not in before] + [d for d in o['after']['dirs'] if d not in before]
        escaped = [p for p in new if not (p == dataset_rel or p.startswith(dataset_rel + '/'))
                   and not is_prefix(p.split('/'), dataset_rel.split('/'))]
        # an exception that is not the check's own refusal comes from tarfile itself (e.g. 'sub/../x' when sub is absent)
        refused = (not accepted) and 'path traversal' in o['outcome'].get('msg', '')
        if has_model and refused != (not mv):
            report(ctx, 'safe_extract', 'implementation differs from the model (accept/refuse)', case=case, expected=mv,
                          observed=o['outcome'], kind='correspondence')
        if escaped:
            sib = all(e.startswith('work/netset/foo') for e in escaped)
            report(ctx, 'safe_extract', 'extraction wrote outside the dataset folder', case=case, expected='nothing outside ' + dataset_rel,
                          observed=dict(outcome=o['outcome'], written_outside=escaped),
                          defect='sibling_prefix_escape' if sib else 'escape')
        elif not all_inside and not refused:
            report(ctx, 'safe_extract', 'a member resolving outside the folder was not refused', case=case,
                          expected='exception', observed=o['outcome'], defect='not_refused')
        elif not all_inside and new:
            report(ctx, 'safe_extract', 'refusal left files behind', case=case, expected='no write', observed=new, defect='partial_write')
        elif all_inside and refused:
            report(ctx, 'safe_extract', 'an archive staying inside the folder was refused', case=case, expected='extracted',
                          observed=o['outcome'], defect='false_refusal')
        elif all_inside and accepted:
            want = {'/'.join(t[len(sub.strip('/').split('/')):]) for t, m in zip(targets, mem) if m[1] == 'file'}
            have = {f[0] for f in o['after']['files']}
            if not want <= have:
                report(ctx, 'safe_extract', 'accepted members are missing after extraction', case=case, expected=sorted(want),
                              observed=sorted(have), defect='missing')
        if fam == 'outside_single' and mem[1][0] == '../foobar/x':
            ctx.sample(dict(kind='extract', case=case, model_accepts=mv, impl=o['outcome'], new_paths=new), limit=2)
    shutil.rmtree(sub, ignore_errors=True)


# ---------------------------------------------------------------------------------------------
# Part B.1 — from_edge_list / from_adjacency_list: model vs implementation vs oracle
# ---------------------------------------------------------------------------------------------
def part_edges(ctx, impl, rng, quick):
    cases = []      # (family, entry, impl_args, coq_expr, id_kind_norm, edges_for_oracle, flags)

    def add(fam, id_kind, pairs, weights, fl, as_array=False, model=True, approx=False):
        kind, npairs = norm_ids(id_kind, pairs)
        tuples = [list(p) + ([w] if weights is not None else []) for p, w in zip(pairs, weights or [None] * len(pairs))]
        args = dict(edges=tuples, flags=fl, as_array=as_array)
        edges = [(a, b, (weights[k] if weights is not None else 1)) for k, (a, b) in enumerate(npairs)]
        expr = edges_expr(npairs, weights, kind, fl) if model else None
        cases.append((fam, 'from_edge_list', 'edge_list', args, expr, kind, edges, fl, common_den(weights) if model else 1, approx))

    # exhaustive tiny inputs: every flag combination on a fixed set of hand-made multisets
    tiny = [('int', [(0, 1), (1, 0)], None), ('int', [(0, 1), (1, 0), (0, 1), (2, 2)], None),
            ('int', [(3, 1), (1, 3), (3, 1)], [2, 3, 5]), ('int', [(0, 0)], None), ('int', [(5, 7)], [4]),
            ('str', [('b', 'a'), ('a', 'b'), ('b', 'a'), ('c', 'a')], [2, 3, 5, 1]), ('str', [('n10', 'n2'), ('n2', 'n10')], None),
            ('mixed', [('a', 1), (1, 'a'), (2, 10)], None), ('int', [(0, 2), (0, 2), (2, 0)], [1, -1, 2])]
    for id_kind, pairs, weights in tiny:
        for fl in all_flag_combos():
            for mo in (None, True, False):
                f = dict(fl, shape=None, matrix_only=mo)
                add('tiny_%s' % id_kind, id_kind, pairs, weights, f)
            add('tiny_%s_shape' % id_kind, id_kind, pairs, weights, dict(fl, shape=(6, 9), matrix_only=None))
    # random multisets x all 32 flag combinations
    nsets = 30 if quick else 250
    for _ in range(nsets):
        bip_pool = rng.random() < 0.3
        id_kind, pairs, weights = gen_edges(rng, 12 if quick else 30, bip=bip_pool)
        for fl in all_flag_combos():
            if bip_pool and not fl['bipartite'] and id_kind == 'int' and rng.random() < 0.5:
                continue
            f = dict(fl, shape=rand_shape(rng), matrix_only=rng.choice([None, None, True, False]))
            arr = id_kind == 'int' and rng.random() < 0.25
            if arr and all(0 <= x < 120 for pr in pairs for x in pr) and (weights is None or all(isinstance(w, int) and 0 <= w < 120 for w in weights)):
                # the identifiers are integers whatever the integer type of the array (int32 is what .nonzero() / .indices give)
                arr = rng.choice([True, 'int32', 'int32', 'int16', 'uint8', 'uint64', 'int8'])
            add('rnd_%s%s' % (id_kind, '_' + arr if isinstance(arr, str) else ''), id_kind, pairs, weights, f, as_array=arr)
    # float weights, every family x integer / string identifiers x list / array input x all 32 flag combinations
    # (in the model the weights are numerators over their common denominator, the int cast is decided exactly)
    for rep_ in range(1 if quick else 6):
        for wk in FLOAT_KINDS:
            for id_kind in ('int', 'str'):
                _, pairs, weights = gen_edges(rng, 10 if quick else 30, id_kind=id_kind, wkind=wk)
                if len(pairs) < 3:                      # make sure a duplicate and a reciprocal edge are summed
                    pairs = pairs + [pairs[0], (pairs[0][1], pairs[0][0])]
                    weights = gen_weights(rng, len(pairs), wk)
                as_array = id_kind == 'int' and (rep_ + FLOAT_KINDS.index(wk)) % 2 == 0
                for fl in all_flag_combos():
                    add('float_%s_%s%s' % (wk, id_kind, '_array' if as_array else ''), id_kind, pairs, weights,
                        dict(fl, shape=None, matrix_only=None), as_array=as_array)
    # outside the model (oracle only): non-ASCII names; non-dyadic float weights (compared with rel 1e-12)
    for _ in range(6 if quick else 40):
        id_kind, pairs, weights = gen_edges(rng, 10, id_kind=rng.choice(['int', 'str']), wkind='pos')
        approx = False
        if id_kind == 'str':
            ren = {a: a + rng.choice(['é', 'ß', '名', '']) for a in {x for e in pairs for x in e}}
            pairs = [(ren[a], ren[b]) for a, b in pairs]
            fam = 'oracle_unicode'
        else:
            weights = [rng.choice([rng.randint(1, 9) + 1e-6, 100000.1, 1600000000.3, 1.000001, 31.999999]) for _ in pairs]
            fam = 'oracle_nondyadic_weights'
            approx = True
        for fl in all_flag_combos():
            add(fam, id_kind, pairs, weights, dict(fl, shape=None, matrix_only=None), model=False, approx=approx)
    # adjacency lists (list of lists of integers) and dicts (string keys)
    for _ in range(40 if quick else 300):
        n = rng.randint(1, 7)
        adj = [[rng.randrange(0, n + 3) for _ in range(rng.choice([0, 1, 2, 3]))] for _ in range(n)]
        if not any(adj):
            adj[0] = [0]
        fl = dict(rng.choice(list(all_flag_combos())), shape=rand_shape(rng), matrix_only=rng.choice([None, True, False]))
        edges = [(i, j, 1) for i, nb in enumerate(adj) for j in nb]
        expr = '(weights_integral 1%%Z None, view (from_adjacency_list_nat pp_sym_passes_weighted %s %s))' % (
            flags_lit(fl), clist(adj, lambda r: clist(r, cnat)))
        cases.append(('adj_list', 'from_adjacency_list', 'adjacency_list', dict(adj=adj, flags=fl), expr, 'int', edges, fl, 1, False))
        keys = rng.sample(STR_POOL, rng.randint(1, 5))
        dadj = [[k, [rng.choice(STR_POOL) for _ in range(rng.choice([0, 1, 2, 3]))]] for k in keys]
        if not any(nb for _, nb in dadj):
            dadj[0][1] = [keys[0]]
        edges = [(k, j, 1) for k, nb in dadj for j in nb]
        expr = '(weights_integral 1%%Z None, view (from_adjacency_dict_str pp_sym_passes_weighted %s %s))' % (
            flags_lit(fl), clist(dadj, lambda r: '(%s, %s)' % (cstr(r[0]), clist(r[1], cstr))))
        cases.append(('adj_dict', 'from_adjacency_list', 'adjacency_list', dict(adj=dadj, flags=fl, dict=True), expr, 'str', edges, fl, 1, False))
    # model
    model = [None] * len(cases)
    for kind in ('int', 'str'):
        idx = [i for i, c in enumerate(cases) if c[5] == kind and c[4] is not None]
        vals = model_eval(ctx, 'c18' + kind, ['Base.Util', 'Model.Parse', 'Gen.ParseCalls'], [cases[i][4] for i in idx],
                          prelude=STR_PRELUDE)
        for i, v in zip(idx, vals or []):
            model[i] = conv_view(v, den=cases[i][8], weighted=cases[i][7]['weighted'])
    # implementation, diff, oracle
    for i, (fam, site, fn, args, expr, kind, edges, fl, den, approx) in enumerate(cases):
        r = impl.call('c18', fn, args, timeout=30)
        ctx.traces += 1
        got = conv_impl(r)
        recip = has_reciprocal(edges)
        ctx.count('%s:%s' % (site, fam), (fn, args), True)
        if model[i] is not None and {k: v for k, v in got.items() if k != 'detail'} != model[i]:
            report(ctx, site, 'implementation differs from the model', case=args, expected=model[i], observed=got,
                          kind='correspondence', family=fam)
        oracle_check(ctx, site, args, got, edges, fl, kind, fam, approx=approx)
        if i in (3, 1500):
            ctx.sample(dict(kind=fn, family=fam, args=args, model=model[i], impl=got, reciprocal=recip), limit=4)


# ---------------------------------------------------------------------------------------------
# Part B.2 — CSV files
# ---------------------------------------------------------------------------------------------
def csv_ids(rng, numeric):
    if numeric:
        return rng.sample(range(0, 14), rng.randint(2, 6))
    return rng.sample([s for s in STR_POOL], rng.randint(2, 6))


def ascii_code(ch):
    return '"%s"%%char' % ch if 32 < ord(ch) < 127 and ch != '"' else '"%03d"%%char' % ord(ch)


def conv_char(x):
    return chr(int(x)) if len(x) == 3 and x.isdigit() else x


def part_csv(ctx, impl, rng, quick, root):
    sub = os.path.join(root, 'csv')
    n = 160 if quick else 1500
    scan_cases = []

    def one_csv(k, numeric, d, wk, fl, hk, how, tag=''):
        ids = csv_ids(rng, numeric)
        m = 1 if k % 40 == 7 else rng.randint(2, 12 if quick else 30)
        pairs = [(rng.choice(ids), rng.choice(ids)) for _ in range(m)]
        if m > 2 and rng.random() < 0.5:
            pairs[1] = (pairs[0][1], pairs[0][0])
        if m > 3 and tag:
            pairs[2] = pairs[0]                      # a duplicate edge whose weights are summed
        weights = gen_weights(rng, m, wk)
        header = {'none': [], 'hash': ['# source: test', '# n m'], 'percent': ['% sym unweighted'], 'mixed': ['# first', '% second']}.get(hk)
        if header is None:       # 'long<L>': a comment block of L lines (a licence, a description): as long as / longer than the 100 scanned rows
            header = ['# line %d of the description' % i for i in range(int(hk[4:]))]
        rows = [[str(a), str(b)] + ([repr(w)] if weights is not None else []) for (a, b), w in zip(pairs, weights or [None] * m)]
        text = ''.join(h + '\n' for h in header) + ''.join(d.join(r) + '\n' for r in rows)
        args = dict(root=sub, text=text, flags=fl)
        if how != 'guess':
            args[how] = d
        case = dict(args, n_rows=m, numeric=numeric, mixed_comments=(hk == 'mixed'), delimiter=d, how=how, header=hk, weights=wk)
        case.pop('root')
        id_kind = 'int' if numeric else 'str'
        edges = [(a, b, (weights[i] if weights is not None else 1)) for i, (a, b) in enumerate(pairs)]
        r = impl.call('c18', 'csv_file', args, timeout=30)
        ctx.traces += 1
        fam = 'csv%s:%s:%s' % (tag, 'num' if numeric else 'str', {',': 'comma', '\t': 'tab', ' ': 'space', ';': 'semicolon'}[d])
        ctx.count(fam, ('csv', text, sorted(fl.items(), key=str), how), True)
        got = conv_impl(r)
        ok = oracle_check(ctx, 'from_csv', case, got, edges, fl, id_kind, fam)
        # the same rows through from_edge_list (metamorphic form of "a CSV file yields the same graph as its rows")
        tuples = [list(p) + ([w] if weights is not None else []) for p, w in zip(pairs, weights or [None] * m)]
        r2 = impl.call('c18', 'edge_list', dict(edges=tuples, flags=fl), timeout=30)
        ctx.traces += 1
        got2 = conv_impl(r2)
        if ok and {k2: v for k2, v in got.items() if k2 != 'dtype'} != {k2: v for k2, v in got2.items() if k2 != 'dtype'}:
            report(ctx, 'from_csv', 'file and list of its rows give different graphs', case=case, expected=got2, observed=got,
                   defect='other', family=fam)
        scan_cases.append((text, d, case, fam))
        if k == 5:
            ctx.sample(dict(kind='from_csv', case=case, impl=got, rows=got2), limit=5)

    for k in range(n):
        numeric = rng.random() < 0.5
        fl = dict(rng.choice(list(all_flag_combos())), shape=rand_shape(rng) if numeric else None, matrix_only=rng.choice([None, True, False]))
        one_csv(k, numeric, DELIMS[k % 4], rng.choice(['none', 'none', 'pos', 'pos'] + FLOAT_KINDS), fl,
                rng.choice(['none', 'none', 'hash', 'percent', 'mixed']), rng.choice(['guess', 'guess', 'delimiter', 'sep']))
    # long comment headers around the number of rows that scan_header looks at (100)
    for k, L in enumerate([99, 100, 101, 150] * (1 if quick else 4)):
        numeric = k % 2 == 0
        fl = dict(rng.choice(list(all_flag_combos())), shape=None, matrix_only=None)
        one_csv(2000 + k, numeric, DELIMS[k % 4], 'none', fl, 'long%d' % L, 'guess', tag='_longheader')
    # float weights: every family x every delimiter x numeric / named identifiers x directed / undirected, duplicates summed
    for rep_ in range(1 if quick else 4):
        for wk in FLOAT_KINDS:
            for d in DELIMS:
                for numeric in (True, False):
                    for directed in (True, False):
                        fl = dict(directed=directed, bipartite=False, weighted=True, reindex=rng.random() < 0.3, sum_duplicates=True,
                                  shape=None, matrix_only=None)
                        one_csv(1000 + rep_, numeric, d, wk, fl, rng.choice(['none', 'hash']), rng.choice(['guess', 'delimiter']),
                                tag='_float')
    # adjacency-list files (numeric; an empty line means no neighbour) and adjacency dicts
    for k in range(30 if quick else 300):
        nrow = rng.randint(2, 6)
        d = DELIMS[k % 4]
        adj = [[rng.randrange(0, nrow + 2) for _ in range(rng.choice([0, 1, 2, 4, 5]))] for _ in range(nrow)]
        adj[0] = [1, 2, 3, 0]          # layout unambiguous: not every row has 2 or 3 fields
        text = ''.join(d.join(str(j) for j in nb) + '\n' for nb in adj)
        fl = dict(rng.choice(list(all_flag_combos())), shape=None, matrix_only=None)
        how = rng.choice(['guess', 'delimiter'])
        args = dict(root=sub, text=text, flags=fl)
        if how == 'delimiter':
            args['delimiter'] = d
        if rng.random() < 0.5:
            args['data_structure'] = 'adjacency_list'
        case = dict(args, numeric=True, n_rows=nrow, how=how, delimiter=d)
        case.pop('root')
        edges = [(i, j, 1) for i, nb in enumerate(adj) for j in nb]
        r = impl.call('c18', 'csv_file', args, timeout=30)
        ctx.traces += 1
        ctx.count('csv:adjacency_list', ('csvadj', text, sorted(fl.items(), key=str), how), True)
        oracle_check(ctx, 'from_csv', case, conv_impl(r), edges, fl, 'int', 'csv:adjacency_list')
        scan_cases.append((text, d, case, 'csv:adjacency_list'))
    # scan_header: model vs implementation on the same files
    delims_lit = clist(['\t', ',', ';', ' '], ascii_code)
    exprs = ['scan_header 100 %s ["#"%%char; "%%"%%char] %s' % (delims_lit, cstr(t)) for t, _, _, _ in scan_cases]
    model = model_eval(ctx, 'c18scan', ['Base.Util', 'Model.Parse'], exprs, prelude=STR_PRELUDE)
    has_model = model is not None
    if not has_model:
        model = [None] * len(scan_cases)
    for (text, d, case, fam), mv in zip(scan_cases, model):
        r = impl.call('c18', 'scan_header', dict(root=sub, text=text), timeout=30)
        ctx.traces += 1
        ctx.count('scan_header:' + fam, ('scan', text), True)
        exp = None
        if mv is not None:
            hl, dd, cg, el = mv[1]
            exp = [hl, conv_char(dd), conv_char(cg), 'edge_list' if el else 'adjacency_list']
        if 'ok' in r:
            if has_model and r['ok'] != exp:
                report(ctx, 'scan_header', 'implementation differs from the model', case=dict(text=text), expected=exp,
                              observed=r['ok'], kind='correspondence', family=fam)
            if r['ok'][1] != d:
                report(ctx, 'scan_header', 'the delimiter of the file is not the one guessed', case=dict(text=text), expected=d,
                              observed=r['ok'], defect='other', family=fam)
        else:
            report(ctx, 'scan_header', 'implementation raises on a regular file', case=dict(text=text), expected=exp, observed=r,
                          defect=classify_error(r, case), family=fam)
    shutil.rmtree(sub, ignore_errors=True)


# ---------------------------------------------------------------------------------------------
# Part C — save / load
# ---------------------------------------------------------------------------------------------
def rand_csr(rng, square=None):
    r = rng.randint(1, 6)
    c = r if square or (square is None and rng.random() < 0.5) else rng.randint(1, 6)
    dt = rng.choice(['bool', 'int', 'float'])
    coo = {}
    for _ in range(rng.randint(0, r * c)):
        i, j = rng.randrange(r), rng.randrange(c)
        coo[(i, j)] = {'bool': True, 'int': rng.randint(1, 9), 'float': rng.choice([0.5, 1.25, 3.0, -2.5])}[dt]
    return dict(kind='csr', shape=[r, c], dtype=dt, coo=[[i, j, v] for (i, j), v in sorted(coo.items())])


def rand_dataset(rng):
    items = []
    n = rng.randint(1, 6)
    if rng.random() < 0.8:
        a = rand_csr(rng, square=True)
        n = a['shape'][0]
        items.append(['adjacency', a])
    if rng.random() < 0.4:
        items.append(['biadjacency', rand_csr(rng, square=False)])
    if rng.random() < 0.7:
        items.append(['names', dict(kind='array', dtype='str', values=[rng.choice(STR_POOL + ['é', 'x y', '']) for _ in range(n)])])
    if rng.random() < 0.5:
        items.append(['labels', dict(kind='array', dtype='int', values=[rng.randint(-1, 3) for _ in range(n)])])
    if rng.random() < 0.4:
        items.append(['position', dict(kind='array', dtype='float', values=[[rng.random(), rng.random()] for _ in range(n)])])
    if rng.random() < 0.3:
        items.append(['labels_row', dict(kind='array', dtype='bool', values=[rng.random() < 0.5 for _ in range(n)])])
    if rng.random() < 0.4:
        items.append(['meta', dict(kind='dataset', items=[['name', dict(kind='py', value='ds-%d' % rng.randint(0, 99))],
                                                          ['description', dict(kind='py', value='a: b\nc')]])])
    if rng.random() < 0.3:
        items.append(['title', dict(kind='py', value=rng.choice(['hello', '', 'x.y', 'ünï']))])
    if rng.random() < 0.2:
        items.append(['extra', dict(kind='py', value=rng.choice([[1, 2, 3], {'k': [1, 'a']}, 3.5, None, True]))])
    if rng.random() < 0.15:
        items.append(['objs', dict(kind='array', dtype='object', values=[{'a': 1}, None, 'z'])])
    if not items:
        items.append(['adjacency', rand_csr(rng, square=True)])
    return dict(kind='dataset', items=items)


def part_saveload(ctx, impl, rng, quick, root):
    sub = os.path.join(root, 'sl')
    for k in range(80 if quick else 600):
        data = rand_dataset(rng) if k % 5 else rand_csr(rng)
        cwd_rel, folder = rng.choice([('w', 'bundle'), ('w', 'nested/dir/bundle'), ('w/deep', '{ROOT}/w/abs_bundle'), ('w', './b2')])
        args = dict(root=sub, cwd=cwd_rel, folder=folder, data=data, twice=rng.random() < 0.3, pathlib=rng.random() < 0.3)
        if k % 4 == 1:
            # a multi-step history on one folder: a richer dataset (nested Dataset, strings, lists, arrays) was saved there
            # before; save followed by load must return the LAST dataset and nothing of the earlier one
            before = rand_dataset(rng)
            have = {it[0] for it in before['items']}
            for extra in (['meta', dict(kind='dataset', items=[['name', dict(kind='py', value='old')]])],
                          ['source', dict(kind='py', value='stale text')],
                          ['names_old', dict(kind='array', dtype='str', values=['p', 'q'])],
                          ['history', dict(kind='py', value=[1, 'two', 3.0])]):
                if extra[0] not in have:
                    before['items'].append(extra)
            args['before'] = before
        r = impl.call('c18', 'save_load', args, timeout=60)
        ctx.traces += 1
        case = {k2: v for k2, v in args.items() if k2 != 'root'}
        nattr = len(data['items']) if data['kind'] == 'dataset' else 1
        ctx.count('save_load:' + ('dataset' if data['kind'] == 'dataset' else 'matrix'), ('sl', case), nattr > 0)
        if 'ok' not in r:
            report(ctx, 'save/load', 'round trip raises', case=case, observed=r, defect='other')
            continue
        o = r['ok']
        if o['diffs']:
            report(ctx, 'save/load', 'loaded dataset differs from the saved one', case=case, expected='equal dataset',
                          observed=o['diffs'], defect='other')
        bundle = norm_components(os.path.join(sub, cwd_rel), folder.replace('{ROOT}', sub))
        bundle_rel = '/'.join(bundle[len(sub.strip('/').split('/')):])
        stray = [f[0] for f in o['fs']['files'] if not f[0].startswith(bundle_rel + '/')]
        if stray:
            report(ctx, 'save/load', 'save wrote outside the bundle folder', case=case, expected=bundle_rel, observed=stray, defect='other')
        if k == 1:
            ctx.sample(dict(kind='save_load', case=case, files=[f[0] for f in o['fs']['files']], diffs=o['diffs']), limit=6)
    shutil.rmtree(sub, ignore_errors=True)


# ---------------------------------------------------------------------------------------------
# Part D — GraphML
# ---------------------------------------------------------------------------------------------
def xml_escape(s):
    return s.replace('&', '&amp;').replace('<', '&lt;').replace('"', '&quot;')


def part_graphml(ctx, impl, rng, quick, root):
    sub = os.path.join(root, 'gml')
    for k in range(60 if quick else 500):
        n = rng.randint(1, 7)
        canonical = rng.random() < 0.3
        ids = ['n%d' % i for i in range(n)] if canonical or rng.random() < 0.5 else rng.sample(STR_POOL + ['x y', 'é', 'a&b'], n)
        default_undirected = rng.random() < 0.5
        wtype = rng.choice([None, 'int', 'double'])
        wdefault = rng.choice([None, 2]) if wtype else None
        pairs = [(i, j) for i in range(n) for j in range(n) if i != j]
        rng.shuffle(pairs)
        chosen, seen = [], set()
        for (i, j) in pairs[:rng.randint(0, min(len(pairs), 8))]:
            if (j, i) in seen or (i, j) in seen:
                continue
            seen.add((i, j))
            chosen.append((i, j))
        lines = ['<?xml version="1.0" encoding="UTF-8"?>', '<graphml xmlns="http://graphml.graphdrawing.org/xmlns">']
        if wtype:
            lines.append('<key id="d0" for="edge" attr.name="weight" attr.type="%s">%s</key>' %
                         (wtype, '<default>%d</default>' % wdefault if wdefault else ''))
        lines.append('<key id="d1" for="node" attr.name="color" attr.type="string"><default>yellow</default></key>')
        lines.append('<graph id="G" edgedefault="%s"%s>' % ('undirected' if default_undirected else 'directed',
                                                            ' parse.nodeids="canonical"' if canonical else ''))
        colors = []
        for i in range(n):
            col = rng.choice([None, 'green', 'red'])
            colors.append(col or 'yellow')
            lines.append('<node id="%s">%s</node>' % (xml_escape(ids[i]), '<data key="d1">%s</data>' % col if col else ''))
        expect = {}
        expect_nodefault = {}       # what one gets if the declared default weight is ignored (weight 1)
        for (i, j) in chosen:
            dattr = rng.choice([None, None, 'true', 'false'])
            und = default_undirected if dattr is None else dattr == 'false'
            w = rng.randint(1, 9) if wtype and rng.random() < 0.7 else None
            val = w if w is not None else (wdefault if wdefault else 1)
            expect[(i, j)] = val
            expect_nodefault[(i, j)] = w if w is not None else 1
            if und:
                expect[(j, i)] = val
                expect_nodefault[(j, i)] = expect_nodefault[(i, j)]
            lines.append('<edge source="%s" target="%s"%s>%s</edge>' % (
                xml_escape(ids[i]), xml_escape(ids[j]), ' directed="%s"' % dattr if dattr else '',
                '<data key="d0">%d</data>' % w if w is not None else ''))
        lines += ['</graph>', '</graphml>']
        text = '\n'.join(lines) + '\n'
        r = impl.call('c18', 'graphml', dict(root=sub, text=text), timeout=30)
        ctx.traces += 1
        ctx.count('graphml:%s' % ('undirected' if default_undirected else 'directed'), ('graphml', text), len(chosen) > 0)
        case = dict(text=text)
        if 'ok' not in r:
            report(ctx, 'from_graphml', 'raises on a valid file', case=case, observed=r, defect='other')
            continue
        o = r['ok']
        got = {(i, j): w for i, j, w in o['matrix']['triples']}
        problems = []
        if o['matrix']['shape'] != [n, n]:
            problems.append('nodes')
        if {k2: float(v) for k2, v in got.items()} != {k2: float(v) for k2, v in expect.items()}:
            problems.append('edges/weights/direction')
        if canonical:
            if o['names'] is not None:
                problems.append('names')
        elif o['names'] is None or o['names']['values'] != ids:
            problems.append('names')
        if (o.get('node_attribute') or {}).get('color', {}).get('values') != colors:
            problems.append('node attribute')
        defect = 'other'
        if problems == ['edges/weights/direction'] and wdefault and \
                {k2: float(v) for k2, v in got.items()} == {k2: float(v) for k2, v in expect_nodefault.items()}:
            defect = 'graphml_weight_default_ignored'
        if problems:
            report(ctx, 'from_graphml', 'parsed graph differs from the file (%s)' % ', '.join(problems), case=case,
                          expected=dict(n=n, ids=None if canonical else ids, entries=sorted([i, j, w] for (i, j), w in expect.items()), colors=colors),
                          observed=o, defect=defect)
        if k == 2:
            ctx.sample(dict(kind='graphml', text=text, impl=o), limit=7)
    shutil.rmtree(sub, ignore_errors=True)


# ---------------------------------------------------------------------------------------------
# Part D.2 — GraphML: abstract documents, serialised for real, model (vm_compute) vs from_graphml vs an
#            independent reader of the standard
# ---------------------------------------------------------------------------------------------
GML_NS = 'http://graphml.graphdrawing.org/xmlns'
XML_IDS = ['a&b', 'x<y', 'q"r', "it's", 'c>d', '&amp;', 'x y', 'n1', 'n10', 'A', 'a', 'B', 'node-7', 'é', '名', 'a]]>b', '<!--', "'", '0']
ATTR_NAMES = ['color', 'size', 'flag', 'label', 'score', 'rank', 'note']
GML_TYPES = ['boolean', 'int', 'long', 'float', 'double', 'string']


def el(tag, attrs=(), text=None, children=()):
    return (tag, list(attrs), text, list(children))


def xml_text(s):
    return s.replace('&', '&amp;').replace('<', '&lt;').replace('>', '&gt;')


def xml_attr(s):
    return xml_text(s).replace('"', '&quot;')


def serialise(tree, ns=True, pretty=False):
    """Abstract tree -> GraphML text, written by hand (no ElementTree on this side)."""
    out = ['<?xml version="1.0" encoding="UTF-8"?>' + ('\n' if pretty else '')]

    def rec(e, depth, top):
        tag, attrs, text, children = e
        pad = ('  ' * depth) if pretty else ''
        a = ''.join(' %s="%s"' % (k, xml_attr(v)) for k, v in attrs)
        if top and ns:
            a = ' xmlns="%s"' % GML_NS + a
        nl = '\n' if pretty else ''
        if not children and text is None:
            out.append('%s<%s%s/>%s' % (pad, tag, a, nl))
        elif not children:
            out.append('%s<%s%s>%s</%s>%s' % (pad, tag, a, xml_text(text), tag, nl))
        else:
            out.append('%s<%s%s>%s' % (pad, tag, a, nl))
            for c in children:
                rec(c, depth + 1, False)
            out.append('%s</%s>%s' % (pad, tag, nl))
    rec(tree, 0, True)
    return ''.join(out)


def et_tree(text):
    """What ElementTree hands to the code: (tag with namespace, attributes in order, text, children)."""
    from xml.etree import ElementTree

    def conv(e):
        return (e.tag, list(e.attrib.items()), e.text, [conv(c) for c in e])
    return conv(ElementTree.fromstring(text.encode('utf-8')))


def same_tree(gen, parsed, ns):
    """The serialiser round-trips through ElementTree (whitespace between child elements apart)."""
    tag, attrs, text, children = gen
    ptag, pattrs, ptext, pchildren = parsed
    if ptag != ('{%s}%s' % (GML_NS, tag) if ns else tag) or pattrs != attrs or len(children) != len(pchildren):
        return False
    if children:
        if ptext is not None and ptext.strip() != '':
            return False
    elif (ptext or None) != (text or None):      # an empty text comes back as None
        return False
    return all(same_tree(c, pc, ns) for c, pc in zip(children, pchildren))


GML_PRELUDE = STR_PRELUDE + '\nDefinition T (s : string) : string := ("{%s}" ++ s)%%string.' % GML_NS


def coq_xml(t):
    tag, attrs, text, children = t
    ctag = '(T %s)' % cstr(tag[len(GML_NS) + 2:]) if tag.startswith('{%s}' % GML_NS) else cstr(tag)
    return '(Elem %s %s %s %s)' % (ctag, clist(attrs, lambda kv: '(%s, %s)' % (cstr(kv[0]), cstr(kv[1]))),
                                   copt(text, cstr), clist([coq_xml(c) for c in children]))


# -- independent reader of the standard (the property oracle); works on the abstract tree, never on the code's data structures
def gml_reading(tree, weight_key='weight'):
    """Nodes, edges, weights and direction as the GraphML standard reads them. None when the document leaves the
    weight key ambiguous (two edge keys with the weight name)."""
    keys = [c for c in tree[3] if c[0] == 'key']
    graphs = [c for c in tree[3] if c[0] == 'graph']
    g = graphs[0]
    ga = dict(g[1])
    wkeys = [k for k in keys if dict(k[1]).get('attr.name') == weight_key and dict(k[1]).get('for', 'all') in ('edge', 'all')]
    if len(wkeys) > 1:
        return None
    wtype, wid, wdefault = None, None, None
    if wkeys:
        ka = dict(wkeys[0][1])
        wtype, wid = ka['attr.type'], ka['id']
        for c in wkeys[0][3]:
            if c[0] == 'default':
                wdefault = c[2]

    def conv(text):
        if wtype == 'boolean':
            return Fraction(1 if (text or '').strip() in ('true', '1') else 0)
        return Fraction((text or '').strip())
    nodes = [c for c in g[3] if c[0] == 'node']
    ids = [dict(c[1])['id'] for c in nodes]
    canonical = ga.get('parse.nodeids') == 'canonical'
    index = {x: (int(x[1:]) if canonical else k) for k, x in enumerate(ids)}
    n = len(ids)
    listed = {}
    for e in (c for c in g[3] if c[0] == 'edge'):
        ea = dict(e[1])
        i, j = index[ea['source']], index[ea['target']]
        mirrored = (ea['directed'] != 'true') if 'directed' in ea else (ga['edgedefault'] == 'undirected')
        texts = [c[2] for c in e[3] if c[0] == 'data' and dict(c[1]).get('key') == wid and wid is not None]
        w = conv(texts[-1]) if texts else (conv(wdefault) if wdefault is not None else Fraction(1))
        listed.setdefault((i, j), []).append(w)
        if mirrored:
            listed.setdefault((j, i), []).append(w)
    boolean = wtype in (None, 'boolean')
    dense = [[(Fraction(int(any(x != 0 for x in listed.get((i, j), [])))) if boolean else sum(listed.get((i, j), []), Fraction(0)))
              for j in range(n)] for i in range(n)]
    return dict(n=n, names=None if canonical else ids, dense=dense)


LIT = {'int': ['0', '1', '2', '3', '7', '-1', '-4', '12'], 'long': ['0', '1', '5', '-2', '40'],
       'float': ['0.5', '1.5', '2', '0.25', '-0.75', '3.0', '0', '10.125'], 'double': ['0.5', '2.25', '1', '-1.5', '0.0', '8', '.5', '4.'],
       'boolean': ['true', 'false', '1', '0'], 'string': ['red', 'x&y', 'a<b', 'two words', 'None', 'é', '0', 'long-' * 3]}


def gen_gml(rng, n=None, m=None, opts=None):
    """One abstract document inside the documented input space (one graph, declared nodes, keys with id / for /
    attr.name / attr.type, literals of the declared type). Returns (tree, call options, tags)."""
    o = dict(opts or {})
    n = rng.randint(0, 6) if n is None else n
    canonical = o.get('canonical', rng.random() < 0.15)
    long_id = not canonical and n > 0 and rng.random() < 0.03
    ids = ['n%d' % i for i in range(n)] if canonical or rng.random() < 0.3 else rng.sample(XML_IDS, n)
    if long_id:
        ids[0] = 'L' + 'x' * 600
    undirected = o.get('undirected', rng.random() < 0.5)
    wname = 'cost' if rng.random() < 0.12 else 'weight'
    wtype = o.get('wtype', rng.choice([None, None, 'int', 'int', 'double', 'float', 'long', 'boolean_true']))
    kid = [0]

    def new_id():
        kid[0] += 1
        return 'd%d' % (kid[0] - 1)
    keys = []
    wid = None
    if wtype:
        wid = new_id()
        jt = 'boolean' if wtype == 'boolean_true' else wtype
        ch = []
        if rng.random() < 0.5:
            ch.append(el('default', [], 'true' if jt == 'boolean' else rng.choice(LIT[jt])))
        if rng.random() < 0.15:
            ch.insert(0, el('desc', [], 'the weight'))
        keys.append(el('key', [('id', wid), ('for', rng.choice(['edge', 'edge', 'all'])), ('attr.name', wname), ('attr.type', jt)], None, ch))
    cols = {'node': [], 'edge': []}
    for dom in ('node', 'edge'):
        names = rng.sample(ATTR_NAMES + (['weight'] if wname != 'weight' else []), rng.choice([0, 0, 1, 2, 3]))
        for nm in names:
            ty = rng.choice(GML_TYPES)
            ch = []
            if rng.random() < 0.2:
                ch.append(el('desc', [], rng.choice(['about ' + nm, None, ''])))
            if rng.random() < 0.5:
                ch.append(el('default', [], rng.choice(LIT[ty] + ([None, ''] if ty in ('string', 'boolean') else []))))
            k = new_id()
            attrs = [('id', k), ('for', dom), ('attr.name', nm), ('attr.type', ty)]
            rng.shuffle(attrs)
            keys.append(el('key', attrs, None, ch))
            cols[dom].append((k, ty))
    if rng.random() < 0.1:
        keys.append(el('key', [('id', new_id()), ('for', rng.choice(['graph', 'all'])), ('attr.name', 'misc'), ('attr.type', 'string')]))
    rng.shuffle(keys)

    def data_children(dom, extra=()):
        ch = []
        for k, ty in cols[dom]:
            for _ in range(rng.choice([0, 0, 1, 1, 2]) if rng.random() < 0.15 else rng.choice([0, 1])):
                ch.append(el('data', [('key', k)], rng.choice(LIT[ty] + ([None] if ty in ('string', 'boolean') else []))))
        ch += list(extra)
        rng.shuffle(ch)
        return ch
    nodes = []
    for i in range(n):
        ch = data_children('node')
        if rng.random() < 0.05:
            ch.append(el('port', [('name', 'p')]))
        nodes.append(el('node', [('id', ids[i])], None, ch))
    m = (rng.randint(0, 10) if n else 0) if m is None else m
    edges = []
    pairs = []
    for _ in range(m):
        u = rng.random()
        if pairs and u < 0.2:
            a, b = rng.choice(pairs)                     # duplicate
        elif pairs and u < 0.4:
            b, a = rng.choice(pairs)                     # reversed
        elif u < 0.5:
            a = b = rng.randrange(n)                     # self-loop
        else:
            a, b = rng.randrange(n), rng.randrange(n)
        pairs.append((a, b))
        attrs = [('source', ids[a]), ('target', ids[b])]
        if rng.random() < 0.3:
            attrs.append(('directed', rng.choice(['true', 'false'])))
        if rng.random() < 0.2:
            attrs.insert(0, ('id', 'e%d' % len(edges)))
        extra = []
        if wid is not None and rng.random() < 0.6:
            jt = 'boolean' if wtype == 'boolean_true' else wtype
            for _ in range(2 if rng.random() < 0.1 else 1):
                extra.append(el('data', [('key', wid)], rng.choice(['true', '1']) if jt == 'boolean' else rng.choice(LIT[jt])))
        edges.append(el('edge', attrs, None, data_children('edge', extra)))
    body = nodes + edges
    if rng.random() < 0.2:
        rng.shuffle(body)
    if rng.random() < 0.05:
        body.insert(0, el('data', [('key', 'd0')], 'graph level'))
    gattrs = [('id', 'G'), ('edgedefault', 'undirected' if undirected else 'directed')]
    if canonical:
        gattrs.append(('parse.nodeids', 'canonical'))
    elif rng.random() < 0.1:
        gattrs.append(('parse.nodeids', 'free'))
    graph = el('graph', gattrs, None, body)
    top = list(keys)
    if rng.random() < 0.15:
        top.insert(rng.randrange(len(top) + 1), el('desc', [], rng.choice(['a test graph', None, ''])))
    pos = len(top) if rng.random() < 0.8 else rng.randrange(len(top) + 1)
    top.insert(pos, graph)
    tree = el('graphml', [], None, top)
    call = dict(weight_key=None if wname == 'weight' else wname, max_string_size=o.get('mss', 3 if rng.random() < 0.08 else None))
    tags = dict(n=n, m=m, undirected=undirected, canonical=canonical, wtype=wtype, long_id=long_id)
    return tree, call, tags


def gml_fixed_families():
    """Hand-made documents: (family, tree, call options, in_quantifier). The shapes the model was written around."""
    def doc(keys, gattrs, body, extra_top=()):
        return el('graphml', [], None, list(keys) + [el('graph', gattrs, None, body)] + list(extra_top))
    D, U = [('edgedefault', 'directed')], [('edgedefault', 'undirected')]
    nd = [el('node', [('id', x)]) for x in 'abc']

    def e(s, t, w=None, wid='d0', **a):
        return el('edge', [('source', s), ('target', t)] + sorted(a.items()), None, [el('data', [('key', wid)], w)] if w is not None else [])
    wint = el('key', [('id', 'd0'), ('for', 'edge'), ('attr.name', 'weight'), ('attr.type', 'int')], None, [el('default', [], '2')])
    wdbl = el('key', [('id', 'd0'), ('for', 'edge'), ('attr.name', 'weight'), ('attr.type', 'double')])
    out = []
    out.append(('duplicates_selfloops', doc([], U, nd + [e('a', 'b'), e('a', 'b'), e('b', 'a'), e('c', 'c')]), {}, True))
    out.append(('duplicates_selfloops', doc([wint], U, nd + [e('a', 'b', '3'), e('a', 'b'), e('b', 'a', '5'), e('c', 'c')]), {}, True))
    out.append(('duplicates_selfloops', doc([wint], D, nd + [e('a', 'b', '3'), e('a', 'b'), e('b', 'a', '5'), e('c', 'c'), e('c', 'a', '0'), e('b', 'c', '-2'), e('b', 'c', '2')]), {}, True))
    out.append(('edge_directed_attribute', doc([wdbl], D, nd + [e('a', 'b', '1.5', directed='false'), e('b', 'c'), e('c', 'a', '0.25', directed='true')]), {}, True))
    out.append(('edge_directed_attribute', doc([wdbl], U, nd + [e('a', 'b', '1.5', directed='true'), e('b', 'c'), e('c', 'a', '0.25', directed='maybe')]), {}, True))
    out.append(('node_order', doc([], D, [e('a', 'b'), nd[0], e('b', 'c'), nd[1], nd[2]]), {}, True))
    out.append(('node_order', el('graphml', [], None, [el('graph', D, None, nd + [e('a', 'b')]), wint]), {}, True))
    out.append(('empty', doc([], D, []), {}, True))
    out.append(('empty', doc([wint], U, [nd[0]]), {}, True))
    out.append(('canonical', doc([], D + [('parse.nodeids', 'canonical')], [el('node', [('id', 'n%d' % k)]) for k in (0, 1, 2)] + [e('n2', 'n0')]), {}, True))
    out.append(('canonical', doc([], U + [('parse.nodeids', 'canonical')], [el('node', [('id', 'n%d' % k)]) for k in (1, 0, 2)] + [e('n2', 'n0'), e('n1', 'n1')]), {}, True))
    out.append(('long_weights', doc([el('key', [('id', 'd0'), ('for', 'edge'), ('attr.name', 'weight'), ('attr.type', 'long')])], D, nd + [e('a', 'b', '3'), e('a', 'b', ' 4 ')]), {}, True))
    out.append(('multi_weight_data', doc([wint], D, nd + [el('edge', [('source', 'a'), ('target', 'b')], None,
                                                         [el('data', [('key', 'd0')], '2'), el('data', [('key', 'd0')], '5')])]), {}, True))
    out.append(('weight_key_argument', doc([wint, el('key', [('id', 'd1'), ('for', 'edge'), ('attr.name', 'cost'), ('attr.type', 'double')])], D,
                                           nd + [el('edge', [('source', 'a'), ('target', 'b')], None,
                                                    [el('data', [('key', 'd0')], '2'), el('data', [('key', 'd1')], '0.5')])]), dict(weight_key='cost'), True))
    attrs = [el('key', [('id', 'd0'), ('for', 'node'), ('attr.name', 'color'), ('attr.type', 'string')], None, [el('default', [], 'yellow')]),
             el('key', [('id', 'd1'), ('for', 'node'), ('attr.name', 'flag'), ('attr.type', 'boolean')], None, [el('default', [], 'false')]),
             el('key', [('id', 'd2'), ('for', 'node'), ('attr.name', 'cnt'), ('attr.type', 'int')], None, [el('default', [], '7')]),
             el('key', [('id', 'd3'), ('for', 'edge'), ('attr.name', 'len'), ('attr.type', 'double')], None, [el('default', [], '0.5')]),
             el('key', [('id', 'd4'), ('for', 'edge'), ('attr.name', 'lab'), ('attr.type', 'string')]),
             el('key', [('id', 'd5'), ('for', 'node'), ('attr.name', 'emp'), ('attr.type', 'string')], None, [el('default', [], None)]),
             el('key', [('id', 'd6'), ('for', 'edge'), ('attr.name', 'n'), ('attr.type', 'long')], None, [el('desc', [], 'a long')]),
             el('desc', [], 'file desc')]
    body = [el('node', [('id', 'a')], None, [el('data', [('key', 'd0')], 'green'), el('data', [('key', 'd1')], 'false')]),
            el('node', [('id', 'b')], None, [el('data', [('key', 'd2')], '3'), el('data', [('key', 'd0')], None)]),
            el('edge', [('source', 'a'), ('target', 'b')], None, [el('data', [('key', 'd3')], '1.25'), el('data', [('key', 'd4')], 'x&y'), el('data', [('key', 'd6')], '4')]),
            el('edge', [('source', 'b'), ('target', 'a'), ('directed', 'true')])]
    out.append(('attributes', doc(attrs, U, body), {}, True))
    out.append(('attributes', doc(attrs, U, body), dict(max_string_size=4), True))
    out.append(('attributes', doc([el('key', [('id', 'd0'), ('for', 'node'), ('attr.name', 's'), ('attr.type', 'string')], None, [el('desc', [], None)])], D, [nd[0]],
                                  [el('desc', [], None)]), {}, True))
    # legal documents on which the code does not keep the weights (reported): the model follows the code, the reader does not
    nodew = el('key', [('id', 'd0'), ('for', 'node'), ('attr.name', 'weight'), ('attr.type', 'double')], None, [el('default', [], '5')])
    out.append(('node_key_named_weight', doc([nodew], D, nd[:2] + [e('a', 'b')]), {}, True))
    out.append(('node_key_named_weight', doc([nodew, el('key', [('id', 'd1'), ('for', 'edge'), ('attr.name', 'weight'), ('attr.type', 'int')])], D,
                                            nd[:2] + [e('a', 'b', '3', wid='d1'), e('b', 'a', wid='d1')]), {}, True))
    out.append(('node_key_named_weight', doc([el('key', [('id', 'd1'), ('for', 'edge'), ('attr.name', 'weight'), ('attr.type', 'int')]), nodew], D,
                                            nd[:2] + [e('a', 'b', '3', wid='d1')]), {}, True))
    wbool = el('key', [('id', 'd0'), ('for', 'edge'), ('attr.name', 'weight'), ('attr.type', 'boolean')])
    out.append(('boolean_weight', doc([wbool], D, nd[:2] + [e('a', 'b', 'false'), e('b', 'a', 'true')]), {}, True))
    out.append(('boolean_weight', doc([el('key', wbool[1], None, [el('default', [], 'false')])], U, nd + [e('a', 'b'), e('b', 'c', 'true'), e('c', 'a', '0')]), {}, True))
    # outside the documented input space: the exception class is compared with the model's
    bad = []
    bad.append(doc([], D, [nd[0], e('a', 'zz')]))                                                   # undeclared node
    bad.append(doc([], [], nd[:2] + [e('a', 'b')]))                                                 # no edgedefault
    bad.append(el('graphml', [], None, [wint]))                                                     # no graph
    bad.append(doc([wint], D, nd[:2] + [e('a', 'b', '1.5')]))                                       # int literal
    bad.append(doc([wint], D, nd[:2] + [e('a', 'b', 'x')]))
    bad.append(doc([wint], D, nd[:2] + [el('edge', [('source', 'a'), ('target', 'b')], None, [el('data', [('key', 'd0')], None)])]))
    bad.append(doc([wdbl], D, nd[:2] + [el('edge', [('source', 'a'), ('target', 'b')], None, [el('data', [('key', 'd0')], None)])]))
    bad.append(doc([wint], D, nd[:2] + [e('a', 'b', '1', wid='nokey')]))                             # unknown key
    bad.append(doc([wint], D, nd[:2] + [el('edge', [('source', 'a'), ('target', 'b')], None, [el('data', [], '1')])]))
    ek = el('key', [('id', 'd1'), ('for', 'edge'), ('attr.name', 'zz'), ('attr.type', 'int')])
    nk = el('key', [('id', 'd2'), ('for', 'node'), ('attr.name', 'yy'), ('attr.type', 'int')])
    bad.append(doc([ek], D, [el('node', [('id', 'a')], None, [el('data', [('key', 'd1')], '1')])]))  # node data on an edge key
    bad.append(doc([ek, nk], D, [el('node', [('id', 'a')], None, [el('data', [('key', 'd1')], '1')])]))
    bad.append(doc([nk], D, nd[:2] + [e('a', 'b', '1', wid='d2')]))
    bad.append(doc([el('key', [('id', 'd1'), ('for', 'node'), ('attr.type', 'int')])], D, [nd[0]]))  # key without attr.name
    bad.append(doc([el('key', [('id', 'd1'), ('attr.name', 'c'), ('attr.type', 'int')])], D, [nd[0]]))   # key without for
    bad.append(doc([el('key', [('for', 'node'), ('attr.name', 'c'), ('attr.type', 'int')])], D, [nd[0]]))  # key without id
    bad.append(doc([el('key', [('id', 'd1'), ('for', 'node'), ('attr.name', 'c')])], D, [nd[0]]))
    bad.append(doc([], D + [('parse.nodeids', 'canonical')], [el('node', [('id', 'n0')]), el('node', [('id', 'n1')]), e('n2', 'n0')]))
    bad.append(doc([], D + [('parse.nodeids', 'canonical')], [el('node', [('id', 'n0')]), el('node', [('id', 'n1')]), e('n-1', 'n0')]))
    bad.append(doc([], D + [('parse.nodeids', 'canonical')], [el('node', [('id', 'n0')]), el('node', [('id', 'n1')]), e('nx', 'n0')]))
    sk = el('key', [('id', 'd1'), ('for', 'edge'), ('attr.name', 'zz'), ('attr.type', 'short')])
    bad.append(doc([sk], D, nd[:2] + [e('a', 'b')]))                                                 # unknown attr.type, unused: float zeros
    bad.append(doc([sk], D, nd[:2] + [e('a', 'b', '1', wid='d1')]))
    bad.append(doc([el('key', [('id', 'd0'), ('for', 'edge'), ('attr.name', 'weight'), ('attr.type', 'string')])], D, nd[:2] + [e('a', 'b', '3')]))
    bad.append(doc([el('key', [('id', 'd0'), ('for', 'edge'), ('attr.name', 'weight'), ('attr.type', 'short')])], D, nd[:2] + [e('a', 'b')]))
    bad.append(doc([], D, nd[:2] + [el('hyperedge', [], None, [el('endpoint', [('node', 'a')])])]))
    bad.append(el('graphml', [], None, [el('graph', D, None, nd[:2] + [e('a', 'b')]), el('graph', D, None, nd + [e('a', 'c')])]))   # two graphs
    bad.append(el('graphml', [], None, [el('graph', D, None, nd[:2] + [e('a', 'b')]), el('graph', U, None, [e('a', 'c')] + nd)]))
    bad.append(doc([], D, [el('node', []), nd[1]]))                                                  # node without id
    bad.append(doc([], D, nd[:2] + [el('edge', [('source', 'a')])]))
    bad.append(doc([], D, [nd[0], nd[1], nd[0], e('a', 'b')]))                                       # duplicate ids: the last one wins
    for b in bad:
        out.append(('malformed', b, {}, False))
    return out


def gml_small_exhaustive():
    """Every document with <= 2 nodes and <= 2 edges over all ordered pairs (self-loops, duplicates, reversed pairs) x
    directed / undirected x {no weight key, int key with default 2, double key without default} x per edge
    {no data, weight data, weight data + the opposite directed override}."""
    out = []
    for n in (0, 1, 2):
        ids = ['a', 'b'][:n]
        pairs = [(a, b) for a in ids for b in ids]
        elists = [[]] + [[p] for p in pairs] + [[p, q] for p in pairs for q in pairs]
        for und in (False, True):
            for wk in (None, 'int', 'double'):
                key = [] if wk is None else [el('key', [('id', 'w'), ('for', 'edge'), ('attr.name', 'weight'), ('attr.type', wk)], None,
                                                 [el('default', [], '2')] if wk == 'int' else [])]
                modes = [0] if wk is None else [0, 1, 2]
                if wk is None:
                    modes = [0, 2]
                for es in elists:
                    for combo in itertools.product(modes, repeat=len(es)):
                        body = [el('node', [('id', x)]) for x in ids]
                        for k, ((a, b), mode) in enumerate(zip(es, combo)):
                            attrs = [('source', a), ('target', b)]
                            if mode == 2:
                                attrs.append(('directed', 'true' if und else 'false'))
                            ch = []
                            if mode >= 1 and wk is not None:
                                ch.append(el('data', [('key', 'w')], {'int': ['3', '-3'], 'double': ['0.5', '1.25']}[wk][k]))
                            body.append(el('edge', attrs, None, ch))
                        tree = el('graphml', [], None, key + [el('graph', [('edgedefault', 'undirected' if und else 'directed')], None, body)])
                        out.append(tree)
    return out


PT = {'PBool': 'bool', 'PInt': 'int', 'PFloat': 'float', 'PNone': 'float', 'PStr': 'str'}


def _pv(v):
    if v[0] == 'PB':
        return v[1]
    if v[0] == 'PI':
        return v[1]
    if v[0] == 'PF':
        return Fraction(v[1], v[2])
    return v[1]


def conv_gm_model(v):
    """Coq `gm_view` value -> comparable dict."""
    if v[0] == 'inl':
        return {'err': v[1][0]}
    (n, dtype, dense, ncoo, names, (nattr, eattr), meta) = v[1]

    def cols(x):
        if x is None:
            return None
        return {nm: {'kind': PT[ty[0]], 'values': [_pv(c) for c in vals]} for (nm, ty, vals) in x[1]}

    def od(x):
        return None if x is None else x[1]
    m = None
    if meta is not None:
        desc, attrs = meta[1]
        m = {}
        if desc is not None:
            m['description'] = desc[1]
        if attrs is not None:
            dn, de = attrs[1]
            m['attributes'] = {'node': {k: od(t) for k, t in dn}, 'edge': {k: od(t) for k, t in de}}
    return {'n': n, 'dtype': PT[dtype[0]], 'dense': [[Fraction(a, b) for (a, b) in row] for row in dense],
            'names': None if names is None else list(names[1]), 'node_attribute': cols(nattr), 'edge_attribute': cols(eattr), 'meta': m}


def conv_gm_impl(r):
    if 'ok' not in r:
        return {'err': r.get('err', 'crash'), 'detail': r}
    o = r['ok']

    def cols(x):
        if x is None:
            return None
        return {nm: {'kind': c['kind'], 'values': [Fraction(v) if c['kind'] == 'float' else v for v in c['values']]} for nm, c in x.items()}
    return {'n': o['n'], 'dtype': o['dtype'], 'dense': [[Fraction(v) for v in row] for row in o['dense']], 'names': o['names'],
            'node_attribute': cols(o['node_attribute']), 'edge_attribute': cols(o['edge_attribute']), 'meta': o['meta']}


def _close(a, b):
    if isinstance(a, Fraction) and isinstance(b, Fraction) and not isinstance(a, bool):
        return a == b or abs(a - b) <= Fraction(1, 10 ** 12) * max(1, abs(b))
    return type(a) is type(b) and a == b


def gm_same(model, got):
    """Model and implementation agree: exactly, except that a decimal literal that is not a binary fraction is compared with rel 1e-12."""
    if ('err' in model) != ('err' in got):
        return False
    if 'err' in model:
        return model['err'] == got['err']
    for k in ('n', 'dtype', 'names', 'meta'):
        if model[k] != got[k]:
            return False
    if [len(r) for r in model['dense']] != [len(r) for r in got['dense']] or \
            not all(_close(a, b) for ra, rb in zip(model['dense'], got['dense']) for a, b in zip(ra, rb)):
        return False
    for k in ('node_attribute', 'edge_attribute'):
        a, b = model[k], got[k]
        if (a is None) != (b is None):
            return False
        if a is not None:
            if list(a) != list(b):
                return False
            for nm in a:
                if a[nm]['kind'] != b[nm]['kind'] or len(a[nm]['values']) != len(b[nm]['values']) or \
                        not all(_close(x, y) for x, y in zip(a[nm]['values'], b[nm]['values'])):
                    return False
    return True


def _jsv(x):
    if isinstance(x, Fraction):
        return float(x) if x.denominator != 1 else int(x)
    if isinstance(x, dict):
        return {k: _jsv(v) for k, v in x.items()}
    if isinstance(x, (list, tuple)):
        return [_jsv(v) for v in x]
    return x


def part_graphml_model(ctx, impl, rng, quick, root):
    sub = os.path.join(root, 'gmlm')
    cases = []      # (family, tree, call, in_quantifier, ns, pretty)
    for k, tree in enumerate(gml_small_exhaustive()):
        cases.append(('exhaustive_small', tree, {}, True, k % 2 == 0, k % 3 == 0))
    for fam, tree, call, inq in gml_fixed_families():
        for ns in (True, False):
            cases.append((fam, tree, call, inq, ns, not ns))
    for k in range(300 if quick else 4000):
        tree, call, tags = gen_gml(rng)
        fam = 'random_%s%s' % ('undirected' if tags['undirected'] else 'directed', '_canonical' if tags['canonical'] else '')
        cases.append((fam, tree, {kk: v for kk, v in call.items() if v is not None}, True, rng.random() < 0.6, rng.random() < 0.5))
    texts, exprs = [], []
    for fam, tree, call, inq, ns, pretty in cases:
        text = serialise(tree, ns=ns, pretty=pretty)
        parsed = et_tree(text)
        if not same_tree(tree, parsed, ns):
            raise RuntimeError('harness: the GraphML serialiser does not round-trip: %r' % (text[:400],))
        texts.append(text)
        exprs.append('gm_view (from_graphml %s %d %s)' % (cstr(call.get('weight_key', 'weight')), call.get('max_string_size', 512), coq_xml(parsed)))
    model = model_eval(ctx, 'c18gml', ['Base.Util', 'Model.Graphml'], exprs, prelude=GML_PRELUDE, shard=max(40, (len(exprs) + 15) // 16))
    for idx, ((fam, tree, call, inq, ns, pretty), text) in enumerate(zip(cases, texts)):
        r = impl.call('c18', 'graphml_doc', dict(root=sub, text=text, **call), timeout=30)
        ctx.traces += 1
        got = conv_gm_impl(r)
        edges = [c for g in tree[3] if g[0] == 'graph' for c in g[3] if c[0] == 'edge']
        ctx.count('graphml:' + fam, ('gmlm', text, sorted(call.items())), inq and len(edges) > 0 and 'err' not in got)
        case = dict(text=text, **call)
        mv = None
        if model is not None:
            mv = conv_gm_model(model[idx])
            if mv.get('err') == 'Unmodelled':
                ctx.margin_dropped += 1
            elif not gm_same(mv, got):
                report(ctx, 'from_graphml', 'implementation differs from the model', case=case, expected=_jsv(mv), observed=_jsv(got),
                       kind='correspondence', family=fam)
        if not inq:
            continue
        exp = gml_reading(tree, call.get('weight_key', 'weight'))
        if exp is None:
            continue
        if 'err' in got:
            report(ctx, 'from_graphml', 'raises on a valid document', case=case, expected=_jsv(exp), observed=got.get('detail'),
                   defect=gml_defect(tree, call, None, exp), family=fam)
            continue
        problems = []
        if got['n'] != exp['n']:
            problems.append('nodes')
        if got['names'] != (None if exp['names'] is None else [x[:512] for x in exp['names']]):
            problems.append('names')
        if got['n'] == exp['n'] and not all(_close(a, b) for ra, rb in zip(got['dense'], exp['dense']) for a, b in zip(ra, rb)):
            problems.append('edges/weights/direction')
        if problems:
            report(ctx, 'from_graphml', 'parsed graph differs from the document (%s)' % ', '.join(problems), case=case,
                   expected=_jsv(exp), observed=_jsv({k2: got[k2] for k2 in ('n', 'names', 'dense', 'dtype')}),
                   defect=gml_defect(tree, call, got, exp), family=fam)
        if fam == 'attributes' and ns and call == {}:
            ctx.sample(dict(kind='graphml_model', text=text, model=_jsv(mv), impl=_jsv(got)), limit=8)
    shutil.rmtree(sub, ignore_errors=True)


def gml_defect(tree, call, got, exp):
    """Stable label of the known ways from_graphml loses weights."""
    wk = call.get('weight_key', 'weight')
    keys = [dict(c[1]) for c in tree[3] if c[0] == 'key']
    named = [k for k in keys if k.get('attr.name') == wk]
    if any(k.get('for', 'all') not in ('edge', 'all') for k in named):
        return 'graphml_node_key_named_weight'
    if any(k.get('attr.type') == 'boolean' for k in named):
        return 'graphml_boolean_cast'
    if got is not None and named:
        nodefault = el(tree[0], tree[1], tree[2], [el(c[0], c[1], c[2], [d for d in c[3] if d[0] != 'default']) if c[0] == 'key' and dict(c[1]).get('attr.name') == wk
                                                    else c for c in tree[3]])
        alt = gml_reading(nodefault, wk)
        if alt is not None and got['n'] == alt['n'] and all(_close(a, b) for ra, rb in zip(got['dense'], alt['dense']) for a, b in zip(ra, rb)):
            return 'graphml_weight_default_ignored'
    return 'other'


# ---------------------------------------------------------------------------------------------
# Part B.3 — from_adjacency_list (list of lists, dict): model vs implementation vs the counting oracle
# ---------------------------------------------------------------------------------------------
def adj_oracle(rows, fl, id_kind):
    """rows: [(key, [neighbours])] in insertion order. Entry (i, j) = number of occurrences of j in the lists of i
    (1 when duplicates are not summed or the graph is unweighted), symmetrised when undirected, rows = keys and
    columns = neighbours when bipartite; names when reindexed. Written on the adjacency list, not on an edge list."""
    reindexed = id_kind == 'str' or fl['reindex']
    keys = [k for k, nb in rows for _ in nb]          # a key with an empty list lists no edge
    nbs = [b for _, nb in rows for b in nb]
    row_ids, col_ids = (keys, nbs) if fl['bipartite'] else (keys + nbs, keys + nbs)
    if reindexed:
        names_row, names_col = sorted(set(row_ids)), sorted(set(col_ids))
        ri = {a: k for k, a in enumerate(names_row)}
        ci = {a: k for k, a in enumerate(names_col)}
        n_row, n_col = len(names_row), len(names_col)
    else:
        names_row = names_col = None
        ri = {a: a for a in row_ids}
        ci = {a: a for a in col_ids}
        n_row, n_col = max(row_ids) + 1, max(col_ids) + 1
        if fl['shape'] is not None:
            n_row = max(n_row, fl['shape'][0])
            n_col = max(n_col, fl['shape'][1 if fl['bipartite'] else 0])
    count = {}
    for k, nb in rows:
        for b in nb:
            count[(ri[k], ci[b])] = count.get((ri[k], ci[b]), 0) + 1
    base = {p: (c if fl['weighted'] and fl['sum_duplicates'] else 1) for p, c in count.items()}
    if fl['bipartite'] or fl['directed']:
        ent = dict(base)
    else:
        ent = {}
        for (i, j) in set(base) | {(j, i) for (i, j) in base}:
            x, y = base.get((i, j), 0), base.get((j, i), 0)
            ent[(i, j)] = x + y if fl['weighted'] else max(x, y)
    mo = fl['matrix_only'] if fl['matrix_only'] is not None else not reindexed
    return dict(shape=[n_row, n_col], entries=ent, names_row=names_row, names_col=names_col, matrix_only=mo, reindexed=reindexed)


def part_adjacency(ctx, impl, rng, quick):
    flags = list(all_flag_combos())
    cases = []          # (family, form, rows, flags)
    # exhaustive small: lists of <= 2 rows, every row any list of length <= 2 over {0, 1, 2} (node 2 appears only as a neighbour)
    rows_opts = [[]] + [[a] for a in range(3)] + [[a, b] for a in range(3) for b in range(3)]
    small = [[r] for r in rows_opts] + [[r, q] for r in rows_opts for q in rows_opts]
    k = 0
    for adj in small:
        for rep_ in range(4 if quick else 32):
            fl = dict(flags[(k * 7 + rep_ * (1 if not quick else 9)) % 32] if quick else flags[rep_], shape=None, matrix_only=None)
            k += 1
            cases.append(('list_exhaustive_small', 'list', list(enumerate(adj)), fl))
    # exhaustive small dicts: keys among a, b (both insertion orders), neighbours among a, b, c (c is never a key)
    sopts = [[]] + [[a] for a in 'abc'] + [[a, b] for a in 'abc' for b in 'abc']
    dsmall = [[('a', r)] for r in sopts] + [[('b', r)] for r in sopts] + \
             [[('a', r), ('b', q)] for r in sopts for q in sopts] + [[('b', r), ('a', q)] for r in sopts for q in sopts]
    for rows in dsmall:
        for rep_ in range(2 if quick else 32):
            fl = dict(flags[(k * 5 + rep_ * 11) % 32] if quick else flags[rep_], shape=None, matrix_only=None)
            k += 1
            cases.append(('dict_exhaustive_small', 'dict_str', rows, fl))
    # random: duplicates, empty lists, neighbours beyond the number of rows, keys missing for some neighbours, gaps
    for _ in range(150 if quick else 2000):
        fl = dict(rng.choice(flags), shape=rand_shape(rng), matrix_only=rng.choice([None, None, True, False]))
        n = rng.randint(1, 7)
        adj = []
        for _i in range(n):
            ln = rng.choice([0, 0, 1, 2, 3, 5])
            nb = [rng.randrange(0, n + 3) for _ in range(ln)]
            if nb and rng.random() < 0.4:
                nb += [nb[0]] * rng.randint(1, 2)               # duplicates
            adj.append(nb)
        cases.append(('list_random', 'list', list(enumerate(adj)), fl))
        keys = rng.sample(STR_POOL, rng.randint(1, 5))
        rows = []
        for key in keys:
            nb = [rng.choice(STR_POOL if rng.random() < 0.5 else keys) for _ in range(rng.choice([0, 0, 1, 2, 3, 4]))]
            if nb and rng.random() < 0.4:
                nb += [nb[-1]]
            rows.append((key, nb))
        cases.append(('dict_random', 'dict_str', rows, dict(fl, shape=None)))
        ikeys = rng.sample(range(0, 12), rng.randint(1, 5))
        rows = [(key, [rng.choice(ikeys + [rng.randrange(0, 14)]) for _ in range(rng.choice([0, 1, 2, 3]))]) for key in ikeys]
        cases.append(('dict_int_keys', 'dict_int', rows, fl))
    exprs = []
    for fam, form, rows, fl in cases:
        if form == 'list':
            e = 'from_adjacency_list_nat pp_sym_passes_weighted %s %s' % (flags_lit(fl), clist([nb for _, nb in rows], lambda r: clist(r, cnat)))
        elif form == 'dict_int':
            e = 'from_adjacency_dict_nat pp_sym_passes_weighted %s %s' % (flags_lit(fl), clist(rows, lambda r: '(%s, %s)' % (cnat(r[0]), clist(r[1], cnat))))
        else:
            e = 'from_adjacency_dict_str pp_sym_passes_weighted %s %s' % (flags_lit(fl), clist(rows, lambda r: '(%s, %s)' % (cstr(r[0]), clist(r[1], cstr))))
        exprs.append('(weights_integral 1%%Z None, view (%s))' % e)
    model = [None] * len(cases)
    for kind in ('int', 'str'):
        idx = [i for i, c in enumerate(cases) if (c[1] == 'dict_str') == (kind == 'str')]
        vals = model_eval(ctx, 'c18adj' + kind, ['Base.Util', 'Model.Parse', 'Model.AdjacencyList', 'Gen.ParseCalls'], [exprs[i] for i in idx],
                          prelude=STR_PRELUDE, shard=max(50, (len(idx) + 7) // 8))
        for i, v in zip(idx, vals or []):
            model[i] = conv_view(v, den=1, weighted=cases[i][3]['weighted'])
    for i, (fam, form, rows, fl) in enumerate(cases):
        if form == 'list':
            args = dict(adj=[nb for _, nb in rows], flags=fl)
        else:
            args = dict(adj=[[key, nb] for key, nb in rows], flags=fl, dict=True)
        r = impl.call('c18', 'adjacency_list', args, timeout=30)
        ctx.traces += 1
        got = conv_impl(r)
        empty = not any(nb for _, nb in rows)
        ctx.count('adjacency_list:' + fam, ('adj', form, rows, sorted(fl.items(), key=str)), not empty)
        case = dict(args, form=form)
        if model[i] is not None:
            if empty:           # no edge at all is outside the quantifier ("at least one edge"): the code raises, or returns a
                pass            # 0 x 0 matrix when it reindexes; the model has no graph; nothing is compared
            elif {k2: v for k2, v in got.items() if k2 != 'detail'} != model[i]:
                report(ctx, 'from_adjacency_list', 'implementation differs from the model', case=case, expected=model[i], observed=got,
                       kind='correspondence', family=fam)
        if empty:
            continue
        id_kind = 'str' if form == 'dict_str' else 'int'
        exp = adj_oracle(rows, fl, id_kind)
        if got.get('err'):
            report(ctx, 'from_adjacency_list', 'implementation raises on a valid input', case=case, expected=_js(exp), observed=got.get('detail'),
                   defect='other', family=fam)
            continue
        problems = []
        if got['shape'] != exp['shape']:
            problems.append('shape')
        if {(a, b): w for a, b, w in got['triples']} != {p: Fraction(w) for p, w in exp['entries'].items()}:
            problems.append('entries')
        if got['matrix_only'] != exp['matrix_only']:
            problems.append('matrix_only')
        if not got['matrix_only']:
            if fl['bipartite']:
                if got['names_row'] != exp['names_row'] or got['names_col'] != exp['names_col'] or got['names'] != exp['names_row']:
                    problems.append('names')
            elif got['names'] != exp['names_row']:
                problems.append('names')
        if problems:
            report(ctx, 'from_adjacency_list', 'matrix / names differ from the adjacency list (%s)' % ','.join(problems), case=case,
                   expected=_js(exp), observed=got, defect='adjacency_list_' + '_'.join(problems), family=fam,
                   weighted=fl['weighted'], directed=fl['directed'], bipartite=fl['bipartite'])
        if fam == 'dict_random' and i % 97 == 0:
            ctx.sample(dict(kind='from_adjacency_list', family=fam, args=args, model=model[i], impl=got), limit=9)

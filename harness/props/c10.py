"""C10 — hop distances, shortest-path DAGs, search orders, get_dag: model (Coq, vm_compute) vs implementation."""
import itertools

from .. import gen
from ..common import cnat, cz, cbool, clist, copt, safe_coq_eval
from ..impl import Impl

GEN_FILES = ['Routing.v']


def pmat(nrow, ncol, edges):
    rows = gen.rows_of(nrow, edges)
    return '{| p_ncol := %d; p_rows := %s |}' % (ncol, clist(rows, lambda r: clist(r, cnat)))


def mspec(nrow, ncol, edges, dtype='int', fmt='csr', rng=None):
    """Weights are ignored by this module: besides unit weights, signed weights (whose sums over the reached
    in-neighbours can cancel) and small unsigned integers (whose sums can wrap) are valid inputs."""
    zeros = []
    if rng is not None and fmt == 'csr' and rng.random() < 0.2:
        # explicitly stored zeros (what `A[i, j] = 0` or `A.data[k] = 0` leaves behind): a stored zero is not an edge
        have = set(edges)
        free = [(i, j) for i in range(nrow) for j in range(ncol) if (i, j) not in have]
        zeros = [[i, j, 0] for (i, j) in rng.sample(free, min(len(free), rng.randint(1, 3)))]
    if rng is not None and dtype != 'bool':
        kind = rng.choice(['unit', 'unit', 'signed', 'uint8'])
        if kind == 'signed':
            return {'shape': [nrow, ncol], 'coo': [[i, j, rng.choice([-2, -1, 1, 2])] for (i, j) in edges] + zeros, 'dtype': dtype, 'fmt': fmt}
        if kind == 'uint8':
            return {'shape': [nrow, ncol], 'coo': [[i, j, rng.choice([128, 64, 255, 1])] for (i, j) in edges] + zeros, 'dtype': 'uint8', 'fmt': fmt}
    return {'shape': [nrow, ncol], 'coo': [[i, j, 1] for (i, j) in edges] + zeros, 'dtype': dtype, 'fmt': fmt}


def src_lit(s):
    return copt(s, lambda l: clist(l, cnat))


def src_impl(rng, s):
    """A source set is passed as int (singleton), list or array — all documented forms."""
    if s is None:
        return None
    if len(s) == 1 and rng.random() < 0.5:
        return {'int': s[0]}
    if rng.random() < 0.5:
        return {'array': list(s)}
    return list(s)


def conv_dist(v):
    """Coq value of get_distances -> canonical python."""
    if v[0] == 'Err':
        return {'err': v[1][0]}
    d, c = v[1]
    if c is None:
        return {'ok': {'all': list(d)}}
    return {'ok': {'row': list(d), 'col': list(c[1])}}


def conv_graph(v):
    if v[0] == 'Err':
        return {'err': v[1][0]}
    rows = v[1]
    return {'ok': sorted({(i, j) for i, r in enumerate(rows) for j in r})}


def canon_impl(r):
    if 'ok' in r:
        return {'ok': r['ok']}
    if 'err' in r:
        return {'err': r['err']}
    return r


def subsets(n, rng, limit):
    allsub = [list(c) for k in range(1, n + 1) for c in itertools.combinations(range(n), k)]
    if len(allsub) <= limit:
        return allsub
    return rng.sample(allsub, limit)


def run(ctx, scratch):
    rng = ctx.rng
    quick = ctx.tier == 'quick'
    cases = []   # (kind, family, impl_args, coq_expr, meta)

    def add_dist(fam, nrow, ncol, edges, source=None, source_row=None, source_col=None, transpose=False, fb=False):
        args = dict(m=mspec(nrow, ncol, edges, dtype=rng.choice(['int', 'bool', 'float']), rng=rng),
                    source=src_impl(rng, source), source_row=src_impl(rng, source_row),
                    source_col=src_impl(rng, source_col), transpose=transpose, force_bipartite=fb)
        expr = 'get_distances %s %s %s %s %s %s' % (pmat(nrow, ncol, edges), src_lit(source), src_lit(source_row),
                                                    src_lit(source_col), cbool(transpose), cbool(fb))
        plain = nrow == ncol and source is not None and source_row is None and source_col is None and not fb and \
            all(s < nrow for s in source)
        cases.append(('dist', fam, args, expr, ('dist', nrow, edges, source, transpose) if plain else None))

    def add_sp(fam, nrow, ncol, edges, source=None, source_row=None, source_col=None, fb=False):
        args = dict(m=mspec(nrow, ncol, edges, rng=rng), source=src_impl(rng, source), source_row=src_impl(rng, source_row),
                    source_col=src_impl(rng, source_col), force_bipartite=fb)
        expr = 'get_shortest_path false true %s %s %s %s %s' % (  # the routing the property demands (the binding the code uses is the obligation shortest_path_routing)
            
            pmat(nrow, ncol, edges), src_lit(source), src_lit(source_row), src_lit(source_col), cbool(fb))
        plain = nrow == ncol and source is not None and source_row is None and source_col is None and not fb and \
            all(s < nrow for s in source)
        cases.append(('sp', fam, args, expr, ('sp', nrow, edges, source, False) if plain else None))

    def add_dag(fam, n, edges, order, order_dtype='int64'):
        args = dict(m=mspec(n, n, edges, rng=rng), order=order, order_dtype=order_dtype)
        expr = '@Ok graph (get_dag %s %s)' % (clist(gen.rows_of(n, edges), lambda r: clist(r, cnat)), clist(order, cz))
        cases.append(('dag', fam, args, expr, None))

    # ---- exhaustive small digraphs: all non-empty source sets, both transpose values
    for n in (1, 2, 3):
        graphs = list(gen.all_directed(n, loops=True))
        if quick and n == 3:
            graphs = rng.sample(graphs, 150)
        for E in graphs:
            for S in subsets(n, rng, 7):
                for tr in (False, True):
                    add_dist('exh_dir_%d' % n, n, n, E, source=S, transpose=tr)
            add_sp('exh_dir_%d' % n, n, n, E, source=subsets(n, rng, 1)[0])
            add_sp('exh_dir_%d' % n, n, n, E, source=subsets(n, rng, 1)[0], fb=True)
    graphs4 = list(gen.all_directed(4, loops=False))
    for E in rng.sample(graphs4, 150 if quick else 1500):
        S = subsets(4, rng, 1)[0]
        add_dist('exh_dir_4', 4, 4, E, source=S, transpose=rng.random() < 0.5, fb=rng.random() < 0.2)
        add_sp('exh_dir_4', 4, 4, E, source=S, fb=rng.random() < 0.3)
    # ---- all biadjacency matrices up to 3x3 (2x3, 3x2, 3x3 sampled in quick), row / column / mixed sources
    for (r, c) in ((1, 2), (2, 2), (2, 3), (3, 2), (3, 3)):
        mats = list(gen.all_biadj(r, c))
        if len(mats) > (40 if quick else 600):
            mats = rng.sample(mats, 40 if quick else 600)
        for E in mats:
            tr = rng.random() < 0.4       # transposed biadjacency: rows and columns swap roles
            sr = subsets(c if tr else r, rng, 1)[0]
            sc = subsets(r if tr else c, rng, 1)[0]
            mode = rng.choice(['row', 'col', 'mixed', 'source', 'source_fb'])
            kw = dict(row=dict(source_row=sr), col=dict(source_col=sc), mixed=dict(source_row=sr, source_col=sc),
                      source=dict(source=sr), source_fb=dict(source=sr, fb=True))[mode]
            if mode == 'source' and r == c:
                kw = dict(source=sr, fb=True)
            if tr:
                add_dist('exh_bip_T_%s' % mode, r, c, E, transpose=True, **kw)
            else:
                add_dist('exh_bip_%s' % mode, r, c, E, **kw)
                add_sp('exh_bip_%s' % mode, r, c, E, **kw)
    # ---- structured random
    nmax = 12 if quick else 30
    for _ in range(250 if quick else 2500):
        directed = rng.random() < 0.5
        n, E, fam = gen.random_graph(rng, nmax, directed=directed)
        k = rng.randint(1, min(3, n))
        S = sorted(rng.sample(range(n), k))
        add_dist('rnd_' + fam, n, n, E, source=S, transpose=rng.random() < 0.3)
        if rng.random() < 0.5:
            add_sp('rnd_' + fam, n, n, E, source=S, fb=rng.random() < 0.2)
        order = [rng.randint(-2, 4) for _ in range(n)]
        add_dag('rnd_' + fam, n, E, order)
        # a rank vector in a narrow / unsigned integer type (ranks computed elsewhere, stored compactly): the comparison of two ranks
        # is a comparison of integers, whatever the storage (100 - (-100) does not fit int8, 3 - 200 does not fit uint8)
        odt = rng.choice(['int8', 'int16', 'uint8', 'uint16', 'int32'])
        lo, hi = {'int8': (-120, 120), 'int16': (-30000, 30000), 'uint8': (0, 250), 'uint16': (0, 65000), 'int32': (-2 ** 31 + 5, 2 ** 31 - 5)}[odt]
        pool = [lo, hi, (lo + hi) // 2, -1 if lo < 0 else 1, 0, rng.randint(lo, hi), rng.randint(lo, hi)]
        add_dag('rnd_order_%s_%s' % (odt, fam), n, E, [rng.choice(pool) for _ in range(n)], order_dtype=odt)
    for _ in range(60 if quick else 600):
        r, c, E = gen.random_biadj(rng, 6 if quick else 14, 6 if quick else 14)
        tr = rng.random() < 0.4
        rr, cc = (c, r) if tr else (r, c)
        sr = sorted(rng.sample(range(rr), rng.randint(1, min(2, rr))))
        sc = sorted(rng.sample(range(cc), rng.randint(1, min(2, cc))))
        kw = rng.choice([dict(source_row=sr), dict(source_col=sc), dict(source_row=sr, source_col=sc)])
        if tr:
            add_dist('rnd_bip_T', r, c, E, transpose=True, **kw)
        else:
            add_dist('rnd_bip', r, c, E, **kw)
            add_sp('rnd_bip', r, c, E, **kw)
    # ---- malformed stream: model and code must agree on the error kind
    for _ in range(30):
        n, E, fam = gen.random_graph(rng, 6, directed=True)
        which = rng.choice(['nosource', 'both', 'oob', 'oob_col', 'bip_nosource'])
        if which == 'nosource':
            add_dist('malformed_' + which, n, n, E)
        elif which == 'both':
            add_dist('malformed_' + which, n, n, E, source=[0], source_row=[0])
        elif which == 'oob':
            add_dist('malformed_' + which, n, n, E, source=[n + rng.randint(0, 2)])
        elif which == 'oob_col':
            add_dist('malformed_' + which, n, n, E, source_col=[n + rng.randint(0, 2)])
        else:
            add_dist('malformed_' + which, n, n, E, fb=True)

    # ---- run the model inside Coq
    kinds = {'dist': conv_dist, 'sp': conv_graph, 'dag': conv_graph}
    model = [None] * len(cases)
    model_dead = set()
    for kind in kinds:
        idx = [i for i, c in enumerate(cases) if c[0] == kind]
        vals = safe_coq_eval(ctx, 'c10' + kind, ['Base.Util', 'Model.Bfs', 'Gen.Routing'], [cases[i][3] for i in idx])
        if vals is None:
            # the model (or the generated routing term) no longer evaluates: recorded in ctx.proof_broken; the plain cases
            # (square adjacency, `source` only) are then judged by the textbook definition evaluated in Python (_plain_spec)
            model_dead.add(kind)
            continue
        for i, v in zip(idx, vals):
            model[i] = kinds[kind](v)
    # ---- run the implementation and diff
    fn = {'dist': 'distances', 'sp': 'shortest_path', 'dag': 'dag'}
    with Impl(scratch) as impl:
        for i, (kind, fam, args, expr, meta) in enumerate(cases):
            r = impl.call('c10', fn[kind], args, timeout=20)
            ctx.traces += 1
            nontrivial = len(args['m']['coo']) > 0 and not fam.startswith('malformed')
            ctx.count(kind + ':' + fam, (kind, args), nontrivial)
            exp = model[i]
            got = canon_impl(r)
            if 'ok' in got and kind in ('sp', 'dag'):
                got = {'ok': sorted(tuple(e) for e in got['ok']['edges'])}
            if kind in model_dead:
                exp = _plain_spec(meta) if meta is not None else None
                if exp is not None and got != exp:
                    ctx.violation('get_' + {'dist': 'distances', 'sp': 'shortest_path'}[kind],
                                  'implementation differs from the definition evaluated in Python (%s)' % fam,
                                  case=args, expected=exp, observed=got, kind=kind, family=fam, check='python_spec')
            elif got != exp:
                ctx.violation('get_' + {'dist': 'distances', 'sp': 'shortest_path', 'dag': 'dag'}[kind],
                              'implementation differs from the proved-exact model (%s)' % fam,
                              case=args, expected=exp, observed=got, kind=kind, family=fam)
            if i % 400 == 0:
                ctx.sample(dict(kind=kind, family=fam, args=args, model=exp, impl=got))
        # ---- breadth_first_search: characterisation of bfs_order_exact checked on the implementation output
        for _ in range(150 if quick else 1500):
            n, E, fam = gen.random_graph(rng, nmax, directed=rng.random() < 0.5)
            s = rng.randrange(n)
            r = impl.call('c10', 'bfs', dict(m=mspec(n, n, E, rng=rng), source=s))
            ctx.traces += 1
            ctx.count('bfs:' + fam, ('bfs', n, E, s), len(E) > 0)
            dist = _bfs(n, E, [s])
            ok = 'ok' in r and len(set(r['ok'])) == len(r['ok']) and \
                 set(r['ok']) == {v for v in range(n) if dist[v] >= 0} and \
                 all(dist[a] <= dist[b] for a, b in zip(r['ok'], r['ok'][1:]))
            if not ok:
                ctx.violation('breadth_first_search', 'output is not the reachable nodes in non-decreasing distance',
                              case=dict(n=n, edges=E, source=s), expected_distances=dist, observed=r, family=fam)
        # ---- several calls on ONE matrix object (bool / int / float CSR): each result must be what a fresh matrix gives
        #      (a working copy that aliases the caller's buffers makes the first call correct and the following ones wrong)
        for k in range(60 if quick else 600):
            n, E, fam = gen.random_graph(rng, nmax, directed=rng.random() < 0.5)
            if not E:
                continue
            E = sorted(set(E))
            m = mspec(n, n, E, rng=rng)
            m['dtype'] = ['bool', 'int', 'float'][k % 3]
            m['coo'] = [[i, j, 1] for (i, j) in E]
            steps = []
            for _s in range(4):
                kind = rng.choice(['sp', 'dag', 'dist', 'sp', 'bfs'])
                if kind == 'dag':
                    steps.append(dict(kind='dag', order=[rng.randint(-1, 3) for _ in range(n)]))
                elif kind == 'bfs':
                    steps.append(dict(kind='bfs', source=rng.randrange(n)))
                else:
                    steps.append(dict(kind=kind, source=sorted(rng.sample(range(n), rng.randint(1, min(2, n))))))
            # in half of the sequences the caller edits the graph IN PLACE between two calls (adds or removes one edge on the same
            # matrix object): the following calls must answer for the graph as it is then
            if k % 2 == 1 and n >= 2:
                if rng.random() < 0.5:
                    cand = [(i, j) for i in range(n) for j in range(n) if i != j and (i, j) not in set(E)]
                    ed = dict(kind='edit', add=list(rng.choice(cand))) if cand else None
                else:
                    ed = dict(kind='edit', remove=list(rng.choice(E)))
                if ed:
                    steps.insert(rng.randint(1, 3), ed)
            r = impl.call('c10', 'sequence', dict(m=m, steps=steps), timeout=30)
            ctx.traces += 1
            ctx.count('sequence:' + fam, ('seq', n, tuple(E), repr(steps), m['dtype']), True)
            E0 = list(E)
            if 'ok' not in r:
                ctx.violation('get_shortest_path', 'a sequence of path calls on one matrix crashed / hung', case=dict(m=m, steps=steps),
                              observed=r, family='same_object_sequence')
                continue
            for pos, (st, got) in enumerate(zip(steps, r['ok'])):
                if st['kind'] == 'edit':
                    if 'ok' not in got:      # a container without item assignment (COO): nothing was edited
                        continue
                    E = sorted(set(E) | {tuple(st['add'])}) if 'add' in st else [e for e in E if e != tuple(st['remove'])]
                    continue
                if st['kind'] == 'dag':
                    o = st['order']
                    exp = {'ok': sorted([i, j] for (i, j) in E if 0 <= o[i] < o[j])}
                    got = {'ok': sorted(got['ok'])} if 'ok' in got else got
                elif st['kind'] == 'bfs':
                    dist = _bfs(n, E, [st['source']])
                    ok = 'ok' in got and len(set(got['ok'])) == len(got['ok']) and \
                        set(got['ok']) == {v for v in range(n) if dist[v] >= 0} and \
                        all(dist[a] <= dist[b] for a, b in zip(got['ok'], got['ok'][1:]))
                    exp = got if ok else {'ok': 'the reachable nodes in non-decreasing distance', 'distances': dist}
                else:
                    dist = _bfs(n, E, st['source'])
                    if st['kind'] == 'dist':
                        exp = {'ok': dist}
                    else:
                        exp = {'ok': sorted([i, j] for (i, j) in E if dist[i] >= 0 and dist[j] == dist[i] + 1)}
                        got = {'ok': sorted(got['ok'])} if 'ok' in got else got
                if got != exp:
                    site = {'dag': 'get_dag', 'bfs': 'breadth_first_search', 'dist': 'get_distances', 'sp': 'get_shortest_path'}[st['kind']]
                    ctx.violation(site, 'call number %d on the same matrix object differs from the definition (the first calls were '
                                  'correct: an earlier call disturbed the matrix, or kept something of it across an in-place edit)' % (pos + 1), case=dict(m=m, steps=steps),
                                  expected=exp, observed=got, family='same_object_sequence', step=pos, dtype=m['dtype'])
                    break
        # ---- the same caller-owned source arrays handed to several calls on one biadjacency matrix
        for k in range(40 if quick else 400):
            r_, c_ = rng.randint(2, 6), rng.randint(2, 6)
            Eb = sorted({(rng.randrange(r_), rng.randrange(c_)) for _ in range(rng.randint(1, r_ * c_))})
            sr = sorted(rng.sample(range(r_), rng.randint(1, min(2, r_)))) if k % 3 != 0 else None
            sc = sorted(rng.sample(range(c_), rng.randint(1, min(2, c_)))) if (k % 3 != 1 or sr is None) else None
            kinds = [rng.choice(['dist', 'sp']) for _ in range(3)]
            m = mspec(r_, c_, Eb, rng=rng)
            m['fmt'] = 'csr'
            args = dict(m=m, source_row=sr, source_col=sc, kinds=kinds)
            r = impl.call('c10', 'shared_sources', args, timeout=30)
            ctx.traces += 1
            ctx.count('shared_sources', ('shared', r_, c_, tuple(Eb), repr(sr), repr(sc), tuple(kinds)), True)
            if 'ok' not in r:
                ctx.violation('get_distances', 'calls with shared source arrays crashed / hung', case=args, observed=r, family='shared_sources')
                continue
            nb = r_ + c_
            blockE = [(i, r_ + j) for (i, j) in Eb] + [(r_ + j, i) for (i, j) in Eb]
            srcs = list(sr or []) + [r_ + j for j in (sc or [])]
            dist = _bfs(nb, blockE, srcs)
            exp_d = {'ok': [dist[:r_], dist[r_:]]}
            exp_p = {'ok': sorted([i, j] for (i, j) in blockE if dist[i] >= 0 and dist[j] == dist[i] + 1)}
            for pos, (kind, got) in enumerate(zip(kinds, r['ok']['steps'])):
                exp = exp_d if kind == 'dist' else exp_p
                got = {'ok': sorted(got['ok'])} if kind == 'sp' and 'ok' in got else got
                if got != exp:
                    ctx.violation('get_distances' if kind == 'dist' else 'get_shortest_path',
                                  'call number %d with the same source arrays differs from the definition' % (pos + 1), case=args,
                                  expected=exp, observed=got, family='shared_sources', step=pos)
                    break
            if r['ok']['source_row_after'] != sr or r['ok']['source_col_after'] != sc:
                ctx.violation('get_distances', 'a source array of the caller was modified', case=args,
                              expected=dict(source_row=sr, source_col=sc),
                              observed=dict(source_row=r['ok']['source_row_after'], source_col=r['ok']['source_col_after']),
                              family='shared_sources')
    ctx.rule = ('exhaustive digraphs n<=3 (loops) x source sets x transpose, sampled loop-free digraphs n=4, all/sampled '
                'biadjacency matrices up to 3x3 with row/column/mixed sources, structured random graphs (13 families), '
                'malformed stream; model evaluated by vm_compute inside Coq, implementation in a worker on the scratch '
                'build; distinct by hash of (entry point, arguments); non-trivial = at least one edge and not malformed')
    ctx.assumptions = ['sources are non-negative indices (negative indices wrap in NumPy and are outside the model)',
                       'matrices have no explicitly stored zeros']


def _plain_spec(meta):
    """Hop distances from a source set / the shortest-path DAG on a square adjacency matrix, by definition (used only when
    the Coq model is dead).  transpose=True: distances TO the sources, i.e. in the reversed graph."""
    what, n, E, S, transpose = meta
    E = sorted(set((j, i) for (i, j) in E)) if transpose else sorted(set(E))
    dist = _bfs(n, E, S)
    if what == 'dist':
        return {'ok': {'all': dist}}
    return {'ok': sorted((i, j) for (i, j) in E if dist[i] >= 0 and dist[j] == dist[i] + 1)}


def _bfs(n, E, S):
    adj = gen.rows_of(n, E)
    dist = [-1] * n
    cur = list(S)
    for s in S:
        dist[s] = 0
    d = 0
    while cur:
        d += 1
        nxt = []
        for u in cur:
            for v in adj[u]:
                if dist[v] < 0:
                    dist[v] = d
                    nxt.append(v)
        cur = nxt
    return dist

"""C15 — linear operators and conversion utilities equal their dense definitions.

Random operator EXPRESSIONS are built twice: as Python objects with the real classes (worker) and as Coq terms
of Model/Operators.v (evaluated by vm_compute over exact rationals).  Three comparisons per case:
  correspondence  model (exact Q)            vs implementation (float64)          rel/abs 1e-9
  property oracle implementation             vs dense NumPy matrix built from first principles in the worker
  spec check      Coq [op_dense] (the matrix the theorems talk about) vs that NumPy matrix
plus the snapshot-based aliasing observation (an operation mutating its operand)."""
import math
from fractions import Fraction

from ..common import cnat, cz, cq, cbool, clist, copt, coq_eval, safe_coq_eval
from ..impl import Impl

IMPORTS = ['Base.Util', 'Base.QMat', 'Model.Operators']
TOL = 1e-9

PRELUDE = r'''
Definition qz (q : Q) : Z * Z := let r := Qred q in (Qnum r, Zpos (Qden r)).
Definition rv (v : list Q) : list (Z * Z) := map qz v.
Definition rr (r : res (list Q)) : list (list (Z * Z)) := match r with Ok y => [rv y] | Err => [] end.
Definition rm (m : list (list Q)) : list (list (Z * Z)) := map rv m.
Definition sums (o : op_expr) : list (list (Z * Z)) :=
  match o with
  | OSlr e => let v := slr_eval e in [rv (slr_sum0 v); rv (slr_sum1 v); [qz (slr_sum v)]]
  | _ => []
  end.
Definition opcase (sq : Q -> Q) (o : op_expr) (x : list Q) (X : list (list Q)) (with_dense : bool) :=
  (rr (op_apply sq o x), rm (op_apply_mat sq 2 o X), (if with_dense then rm (op_dense sq o) else [], sums o)).
Definition smat_out (s : smat) : nat * list (list (nat * (Z * Z))) := (s_ncol s, map (map (fun e => (fst e, qz (snd e)))) (s_rows s)).
Definition rsm (r : res smat) : list (nat * list (list (nat * (Z * Z)))) := match r with Ok s => [smat_out s] | Err => [] end.
Definition rz (r : res (list Z)) : list (list Z) := match r with Ok l => [l] | Err => [] end.
Definition rn (r : res (list nat)) : list (list nat) := match r with Ok l => [l] | Err => [] end.
'''


def unq(v):
    """(num, den) pairs printed by the prelude's qz -> Fraction, recursively"""
    if isinstance(v, tuple):
        if len(v) == 2 and isinstance(v[0], int) and isinstance(v[1], int) and not isinstance(v[0], bool):
            return Fraction(v[0], v[1])
        return tuple(unq(x) for x in v)
    if isinstance(v, list):
        return [unq(x) for x in v]
    return v


# ------------------------------------------------------------------------------------------------
# random data
# ------------------------------------------------------------------------------------------------
POS = [1, 1, 1, 2, 2, 3, 4, 5, 0.5, 0.25, 1.5, 0.75]


def rval(rng, nonneg=False):
    v = rng.choice(POS)
    if not nonneg and rng.random() < 0.3:
        v = -v
    return v


def rvec(rng, n, zero_ok=True):
    return [0 if (zero_ok and rng.random() < 0.2) else rval(rng) for _ in range(n)]


def rsm(rng, r, c, nonneg=False, p=None, symmetric=False, nonempty=False):
    """random sparse matrix with null rows and null columns"""
    m = _rsm(rng, r, c, nonneg, p, symmetric)
    if nonempty and not m['coo']:          # check_format rejects a matrix without any stored entry
        i, j = rng.randrange(r), rng.randrange(c)
        m['coo'] = sorted({(i, j), (j, i)} if symmetric and i != j else {(i, j)})
        m['coo'] = [[a, b, 1] for a, b in m['coo']]
    return m


def _rsm(rng, r, c, nonneg, p, symmetric):
    p = p if p is not None else rng.choice([0.15, 0.3, 0.5, 0.8])
    null_r = {i for i in range(r) if rng.random() < 0.15}
    null_c = {j for j in range(c) if rng.random() < 0.12}
    coo = []
    if symmetric:
        for i in range(r):
            for j in range(i, c):
                if i in null_r or j in null_r:
                    continue
                if rng.random() < p:
                    v = rval(rng, nonneg)
                    coo.append([i, j, v])
                    if i != j:
                        coo.append([j, i, v])
        coo.sort()
    else:
        for i in range(r):
            if i in null_r:
                continue
            for j in range(c):
                if j in null_c:
                    continue
                if rng.random() < p:
                    coo.append([i, j, rval(rng, nonneg)])
    return {'shape': [r, c], 'coo': coo}


def fr(x):
    return Fraction(x)


def dense_of(m):
    r, c = m['shape']
    d = [[Fraction(0)] * c for _ in range(r)]
    for i, j, v in m['coo']:
        d[i][j] += fr(v)
    return d


def is_sym(m):
    d = dense_of(m)
    n = len(d)
    return all(d[i][j] == d[j][i] for i in range(n) for j in range(n))


# ------------------------------------------------------------------------------------------------
# Gallina literals
# ------------------------------------------------------------------------------------------------
def cvec(v):
    return clist(v, cq)


def cmat(M):
    return clist(M, cvec)


def csm(m):
    r, c = m['shape']
    rows = [[] for _ in range(r)]
    for i, j, v in m['coo']:
        rows[i].append((j, v))
    return '{| s_ncol := %d; s_rows := %s |}' % (c, clist(rows, lambda row: clist(row, lambda e: '(%d, %s)' % (e[0], cq(e[1])))))


def cexpr(e):
    t = e[0]
    if t == 'SBase':
        return '(SBase %s %s)' % (csm(e[1]), clist(e[2], lambda xy: '(%s, %s)' % (cvec(xy[0]), cvec(xy[1]))))
    if t == 'SReg':
        return '(SReg %s %s)' % (csm(e[1]), cq(e[2]))
    if t in ('SNeg', 'ST', 'SAstype', 'SNormalize', 'SD2U', 'CNeg', 'CT', 'CAstype', 'PNeg', 'PT', 'NT', 'LT', 'LAstype'):
        return '(%s %s)' % (t, cexpr(e[1]))
    if t in ('SAdd', 'SSub'):
        return '(%s %s %s)' % (t, cexpr(e[1]), cexpr(e[2]))
    if t in ('SAddCsr', 'SSubCsr', 'SRight', 'CRight'):
        return '(%s %s %s)' % (t, cexpr(e[1]), csm(e[2]))
    if t in ('SMul', 'CMul', 'PMul'):
        return '(%s %s %s)' % (t, cq(e[1]), cexpr(e[2]))
    if t in ('SLeft', 'CLeft'):
        return '(%s %s %s)' % (t, csm(e[1]), cexpr(e[2]))
    if t == 'CBase':
        return '(CBase %s %s)' % (csm(e[1]), cbool(e[2]))
    if t == 'PBase':
        return '(PBase %s %s)' % (csm(e[1]), cvec(e[2]))
    if t == 'NBase':
        return '(NBase %s %s)' % (csm(e[1]), cq(e[2]))
    if t == 'LBase':
        return '(LBase %s %s %s)' % (csm(e[1]), cq(e[2]), cbool(e[3]))
    raise ValueError(t)


CLS = {'slr': 'OSlr', 'nz': 'ONorm', 'lp': 'OLap', 'cn': 'OCn', 'pl': 'OPoly'}


def cop(op):
    return '(%s %s)' % (CLS[op['cls']], cexpr(op['e']))


def csqrt(table):
    """oracle: a finite table (input rational -> float sqrt as exact rational), 0 elsewhere"""
    body = '0%Q'
    for a, s in table:
        body = '(if Qeq_bool q %s then %s else %s)' % (cq(a), cq(s), body)
    return '(fun q : Q => %s)' % body


# ------------------------------------------------------------------------------------------------
# expression generators (shape-directed)
# ------------------------------------------------------------------------------------------------
def factor(rng, r, c, dmax):
    """a sparse factor of a product; kept sparse when large (the model never merges duplicate coordinates, so the
    number of stored entries of a product is the product of the row lengths)"""
    return rsm(rng, r, c, p=rng.choice([0.1, 0.2, 0.3]) if max(r, c, dmax) > 6 else None)


def gen_slr(rng, depth, r, c, dmax, budget=None):
    budget = budget if budget is not None else {'norm': 2, 'prod': 3}
    if depth <= 0 or rng.random() < 0.2:
        if rng.random() < 0.3:
            return ['SReg', rsm(rng, r, c), rng.choice([0, 1, 2, 0.5, 3])]
        lr = [[rvec(rng, r), rvec(rng, c)] for _ in range(rng.choice([0, 1, 1, 2]))]
        return ['SBase', rsm(rng, r, c), lr]
    ops = ['SNeg', 'SAdd', 'SAddCsr', 'SSub', 'SSubCsr', 'SMul', 'SLeft', 'SRight', 'ST', 'SAstype', 'SNormalize']
    if r == c:
        ops.append('SD2U')
    op = rng.choice(ops)
    if op == 'SNormalize' and budget['norm'] <= 0:
        op = 'SNeg'
    if op in ('SLeft', 'SRight') and budget['prod'] <= 0:
        op = 'SMul'
    if op == 'SNormalize':
        budget['norm'] -= 1
    if op in ('SLeft', 'SRight'):
        budget['prod'] -= 1
    if op in ('SNeg', 'SAstype', 'SNormalize', 'SD2U'):
        sub = gen_slr(rng, depth - 1, r, c, dmax, budget)
        while op == 'SD2U' and is_bare_reg(sub):     # check_csr_or_slr tests type(x) in [csr_matrix, SparseLR]: a bare Regularizer is rejected
            sub = gen_slr(rng, depth - 1, r, c, dmax, budget)
        return [op, sub]
    if op in ('SAdd', 'SSub'):
        return [op, gen_slr(rng, depth - 1, r, c, dmax, budget), gen_slr(rng, min(depth - 1, rng.choice([0, 1])), r, c, dmax, budget)]
    if op in ('SAddCsr', 'SSubCsr'):
        return [op, gen_slr(rng, depth - 1, r, c, dmax, budget), rsm(rng, r, c)]
    if op == 'SMul':
        return [op, rng.choice([2, -1, 0.5, 3, -0.25, 0]), gen_slr(rng, depth - 1, r, c, dmax, budget)]
    if op == 'SLeft':
        k = rng.randint(1, dmax)
        return [op, factor(rng, r, k, dmax), gen_slr(rng, depth - 1, k, c, dmax, budget)]
    if op == 'SRight':
        k = rng.randint(1, dmax)
        return [op, gen_slr(rng, depth - 1, r, k, dmax, budget), factor(rng, k, c, dmax)]
    if op == 'ST':
        return [op, gen_slr(rng, depth - 1, c, r, dmax, budget)]
    raise AssertionError(op)


def is_bare_reg(e):
    """the evaluated object is still the Regularizer instance (astype returns self)"""
    return e[0] == 'SReg' or (e[0] == 'SAstype' and is_bare_reg(e[1]))


def gen_cn(rng, depth, dmax, square_only, budget=None):
    """returns (expr, (r, c)) — shape of the matrix denoted"""
    budget = budget if budget is not None else {'prod': 2 if dmax > 6 else 3}
    if depth <= 0 or rng.random() < 0.2:
        n = rng.randint(1, dmax)
        m = rng.randint(1, dmax)
        return ['CBase', rsm(rng, n, m, nonneg=True, nonempty=True, p=rng.choice([0.15, 0.3]) if dmax > 6 else None), rng.random() < 0.6], (n, n)
    op = rng.choice(['CNeg', 'CMul', 'CLeft', 'CRight', 'CT', 'CAstype'])
    if op in ('CLeft', 'CRight'):
        if budget['prod'] <= 0:
            op = 'CNeg'
        else:
            budget['prod'] -= 1
    e, (r, c) = gen_cn(rng, depth - 1, dmax, square_only, budget)
    if op in ('CNeg', 'CAstype'):
        return [op, e], (r, c)
    if op == 'CMul':
        return [op, rng.choice([2, -1, 0.5, 3]), e], (r, c)
    if op == 'CT':
        return [op, e], (c, r)
    if op == 'CLeft':
        k = r if square_only else rng.randint(1, dmax)
        return [op, factor(rng, k, r, dmax), e], (k, c)
    k = c if square_only else rng.randint(1, dmax)
    return ['CRight', e, factor(rng, c, k, dmax)], (r, k)


def cn_shared(e):
    t = e[0]
    if t == 'CBase':
        return not e[2]
    if t in ('CNeg', 'CAstype'):
        return cn_shared(e[1])
    if t == 'CMul':
        return cn_shared(e[2])
    return False


def cn_nonsquare(e):
    """some left / right factor is not square (the recorded LinearOperator shape is then stale)"""
    t = e[0]
    if t == 'CBase':
        return False
    if t == 'CLeft':
        return e[1]['shape'][0] != e[1]['shape'][1] or cn_nonsquare(e[2])
    if t == 'CRight':
        return e[2]['shape'][0] != e[2]['shape'][1] or cn_nonsquare(e[1])
    if t == 'CMul':
        return cn_nonsquare(e[2])
    return cn_nonsquare(e[1])


def cn_defect(e):
    """first defective CoNeighbor site the expression goes through: (site, kind) or None"""
    t = e[0]
    if t == 'CBase':
        return None
    if t == 'CLeft':
        return cn_defect(e[2]) or (None if e[1]['shape'][0] == e[1]['shape'][1] else ('CoNeighbor.left_sparse_dot', 'stale_shape'))
    if t == 'CRight':
        return cn_defect(e[1]) or (None if e[2]['shape'][0] == e[2]['shape'][1] else ('CoNeighbor.right_sparse_dot', 'stale_shape'))
    if t == 'CMul':
        return cn_defect(e[2]) or (('CoNeighbor.__mul__', 'shared_buffer') if cn_shared(e[2]) and e[1] not in (0, 1) else None)
    if t == 'CNeg':
        return cn_defect(e[1]) or (('CoNeighbor.__neg__', 'shared_buffer') if cn_shared(e[1]) else None)
    return cn_defect(e[1])


def gen_pl(rng, depth, n):
    if depth <= 0 or rng.random() < 0.3:
        return ['PBase', rsm(rng, n, n, nonempty=True), [rng.choice([0, 1, 2, -1, 0.5]) for _ in range(rng.randint(1, 5))]]
    op = rng.choice(['PNeg', 'PMul', 'PT'])
    if op == 'PMul':
        return [op, rng.choice([2, -1, 0.5]), gen_pl(rng, depth - 1, n)]
    return [op, gen_pl(rng, depth - 1, n)]


def base_of(e):
    while e[0] not in ('NBase', 'LBase'):
        e = e[1]
    return e


def has(e, tag):
    return e[0] == tag or any(has(x, tag) for x in e[1:] if isinstance(x, list) and x and isinstance(x[0], str))


def gen_op(rng, depth, dmax):
    """one operator expression (transpositions, non-square factors and scalings of every class included)"""
    cls = rng.choice(['slr', 'slr', 'slr', 'nz', 'lp', 'cn', 'cn', 'pl'])
    if cls == 'slr':
        r, c = rng.randint(1, dmax), rng.randint(1, dmax)
        return {'cls': 'slr', 'e': gen_slr(rng, depth, r, c, dmax)}, (r, c)
    if cls == 'nz':
        r, c = rng.randint(1, dmax), rng.randint(1, dmax)
        e = ['NBase', rsm(rng, r, c, nonneg=True), rng.choice([0, 0, 1, 0.5, 2])]
        if rng.random() < 0.25:
            e.append('dense')
        u = rng.random()
        if u < 0.35:
            return {'cls': 'nz', 'e': ['NT', e]}, (c, r)
        if u < 0.45:
            return {'cls': 'nz', 'e': ['NT', ['NT', e]]}, (r, c)
        return {'cls': 'nz', 'e': e}, (r, c)
    if cls == 'lp':
        n = rng.randint(1, dmax)
        sym = rng.random() < 0.6
        e = ['LBase', rsm(rng, n, n, nonneg=True, symmetric=sym), rng.choice([0, 0, 1, 0.5, 2]), rng.random() < 0.5]
        if e[3] and (n > 4 or rng.random() < 0.5):
            square_degrees(e[1], e[2])     # exact square roots keep the rationals of the model small
        for _ in range(rng.choice([0, 1, 1, 2])):
            t = rng.choice(['LT', 'LT', 'LAstype'])
            e = [t, e]
        return {'cls': 'lp', 'e': e}, (n, n)
    if cls == 'cn':
        e, shp = gen_cn(rng, depth, dmax, square_only=rng.random() < 0.5)
        return {'cls': 'cn', 'e': e}, shp
    n = rng.randint(1, dmax)
    return {'cls': 'pl', 'e': gen_pl(rng, min(depth, 3), n)}, (n, n)


def square_degrees(m, reg):
    """raise the diagonal so that every non-null (row sum + reg) is the square of a half-integer (np.sqrt is then exact)"""
    d = dense_of(m)
    for i, row in enumerate(d):
        t = sum(row) + fr(reg)
        if t == 0:
            continue
        k = 0
        while Fraction(k * k, 4) < t:
            k += 1
        add = Fraction(k * k, 4) - t
        if add > 0:
            hit = [e for e in m['coo'] if e[0] == i and e[1] == i]
            if hit:
                hit[0][2] = float(fr(hit[0][2]) + add)
            else:
                m['coo'].append([i, i, float(add)])
    m['coo'].sort()


def e_base(e):
    while e[0] != 'LBase':
        e = e[1]
    return e


def strip_fmt(e):
    """the Coq term / replay do not carry the container format of the base matrix"""
    if e[0] == 'NBase':
        return e[:3]
    if e[0] == 'LBase':
        return e[:4]
    return [strip_fmt(x) if isinstance(x, list) and x and isinstance(x[0], str) else x for x in e]


def sqrt_table(op):
    """inputs np.sqrt receives in a normalised Laplacian: weights + regularization"""
    if op['cls'] != 'lp':
        return []
    b = e_base(op['e'])
    if not b[3]:
        return []
    d = dense_of(b[1])
    vals = sorted({sum(row) + fr(b[2]) for row in d})
    return [(v, Fraction(math.sqrt(float(v)))) for v in vals if v >= 0]


# ------------------------------------------------------------------------------------------------
# comparisons
# ------------------------------------------------------------------------------------------------
def close(a, b, tol=TOL):
    a = float(a)
    b = float(b)
    if math.isnan(a) or math.isnan(b):
        return False
    return abs(a - b) <= tol * max(1.0, abs(a), abs(b))


def vclose(u, v, tol=TOL):
    return u is not None and v is not None and len(u) == len(v) and all(close(a, b, tol) for a, b in zip(u, v))


def mclose(A, B, tol=TOL):
    if A is None or B is None or len(A) != len(B):
        return False
    return all(isinstance(b, list) and vclose(a, b, tol) for a, b in zip(A, B))


def fl(x):
    if isinstance(x, (list, tuple)):
        return [fl(y) for y in x]
    return float(x)


def defect_site(op):
    """regression label: the formerly defective site (repaired by 042fc436, ca03879a, 1496c670, 2a194d08) an expression goes
    through; a failure of the oracle there is reported under the same site / kind fields as before the fixes"""
    e = op['e']
    if op['cls'] == 'nz' and has(e, 'NT'):
        return 'Normalizer._transpose', 'transpose_returns_self'
    if op['cls'] == 'lp' and has(e, 'LT') and not is_sym(e_base(e)[1]):
        return 'Laplacian._transpose', 'transpose_returns_self'
    if op['cls'] == 'cn':
        return cn_defect(e) or (None, None)
    return None, None


# ------------------------------------------------------------------------------------------------
def run(ctx, scratch):
    rng = ctx.rng
    quick = ctx.tier == 'quick'
    dmax = 6 if quick else 12
    depth_max = 3 if quick else 4
    notes = {'aliasing_returned_self': 0, 'aliasing_mutated_same_value': 0, 'aliasing_mutated_broken': 0}
    with Impl(scratch) as impl:
        run_operators(ctx, impl, rng, quick, dmax, depth_max, notes)
        run_utils(ctx, impl, rng, quick, dmax)
        run_source_normalizer(ctx, impl, rng, quick)
        run_slr_history(ctx, impl, rng, quick)
    ctx.extra['aliasing'] = notes
    ctx.rule = ('operator expressions: class in {SparseLR/Regularizer (13 operations incl. normalize, directed2undirected), '
                'Normalizer, Laplacian, CoNeighbor (6 operations), Polynome (3 operations)}, depth <= %d, every sparse operand '
                'random %dx%d at most with null rows/columns and small integer / dyadic entries, low-rank terms, regularisation, '
                'polynomial coefficients; applied to a random vector and a 2-column matrix (dot and the 2-D branch of _matvec), '
                'sums for SparseLR; utilities on random matrices / label vectors with negatives / k = 1..n+1 for top_k with both '
                'sort values; model evaluated by vm_compute in Coq over exact rationals, implementation float64 in a worker; '
                'distinct by hash of the whole case; non-trivial = at least one stored entry and (operators) depth >= 1' % (depth_max, dmax, dmax))
    ctx.assumptions = ['float64 round-off: model (exact Q) and implementation compared at rel/abs 1e-9',
                       'adjacencies of Normalizer / Laplacian / CoNeighbor have non-negative entries, regularization >= 0',
                       'np.sqrt / np.log enter the model as finite oracle tables filled from the float values',
                       'matrices have no explicitly stored zeros and no duplicate coordinates (SciPy canonical CSR)',
                       'base matrices of CoNeighbor and Polynome have at least one stored entry (check_format rejects empty matrices)',
                       'directed2undirected / bipartite2* on operators: plain SparseLR objects (check_csr_or_slr rejects the Regularizer subclass)',
                       'cases where a pseudo-inverse is taken of a value within 1e-7 of zero (cancellation) are dropped and counted']


def run_slr_history(ctx, impl, rng, quick):
    """Multi-step histories on ONE SparseLR object (transposes handed out, value-changing casts, sums): after every step the operator
    must still apply as the dense matrix it denotes (a cache that survives a cast, or a handed-out transpose that aliases the
    original, shows only here).  The oracle is computed by the worker from plain dense arrays, independently of the class."""
    steps_pool = ['dot', 'Tdot', 'sum0', 'sum1', 'hold_T', 'cast_held_int', 'astype_int', 'astype_float']
    n_hist = 0
    for _ in range(60 if quick else 500):
        nr, nc = rng.randint(1, 5), rng.randint(1, 5)
        S = [[rng.choice([0, 0, 1, 2.5, 0.5, -1.5, 3]) for _ in range(nc)] for _ in range(nr)]
        lr = [([rng.choice([0.5, 1, 1.5, -2, 0]) for _ in range(nr)], [rng.choice([0.5, 1, 2, -1.5, 0]) for _ in range(nc)])
              for _ in range(rng.randint(0, 2))]
        steps = ['Tdot'] + [rng.choice(steps_pool) for _ in range(rng.randint(3, 7))] + ['Tdot', 'sum0', 'dot']
        args = dict(S=S, lr=lr, v_row=[rng.randint(-3, 4) for _ in range(nr)], v_col=[rng.randint(-3, 4) for _ in range(nc)], steps=steps)
        r = impl.call('c15', 'slr_history', args, timeout=30)
        ctx.traces += 1
        n_hist += 1
        ctx.count('slr_history', ('hist', args), True)
        if 'ok' not in r:
            ctx.violation('SparseLR', 'a history of operations on one SparseLR object crashed / hung', case=args, observed=r, check='history')
            continue
        for pos, st in enumerate(r['ok']):
            if 'err' in st:
                ctx.violation('SparseLR', 'step %d (%s) of a history on one SparseLR object raised %s' % (pos, st['step'], st['err']),
                              case=args, observed=st, check='history', step=st['step'])
                break
            a, b = st['got'], st['exp']
            if len(a) != len(b) or any(abs(u - w) > 1e-9 * max(1.0, abs(w)) for u, w in zip(a, b)):
                ctx.violation('SparseLR', 'after step %d (%s) of a history on one SparseLR object the operator no longer applies as the '
                              'dense matrix it denotes' % (pos, st['step']), case=args, expected=b, observed=a, check='history',
                              step=st['step'], steps=steps[:pos + 1])
                break
    ctx.extra['slr_histories'] = n_hist


def run_source_normalizer(ctx, impl, rng, quick):
    """The four terms regenerated from operators.py (Gen/NpNormalizer.v; theorems source_normalizer_* of Props/C15.v), evaluated inside
    Coq over exact rationals with the array semantics of Model/NpVec.v, must reproduce Normalizer.dot / Normalizer.T.dot."""
    from fractions import Fraction
    from ..common import clist, cq, safe_coq_eval
    cases, exprs = [], []
    for _ in range(25 if quick else 200):
        n, k, m = rng.randint(1, 5), rng.randint(1, 5), rng.randint(1, 3)
        A = [[rng.choice([0, 0, 1, 2, Fraction(1, 2), 3]) for _ in range(k)] for _ in range(n)]
        reg = rng.choice([Fraction(0), Fraction(0), Fraction(1), Fraction(1, 2), Fraction(3)])
        x = [Fraction(rng.randint(-4, 6), 2) for _ in range(k)]
        y = [Fraction(rng.randint(-4, 6), 2) for _ in range(n)]
        X = [[Fraction(rng.randint(-4, 6), 2) for _ in range(m)] for _ in range(k)]
        Y = [[Fraction(rng.randint(-4, 6), 2) for _ in range(m)] for _ in range(n)]
        fl = lambda M: [[float(v) for v in row] for row in M]
        args = dict(A=fl(A), reg=float(reg), x=[float(v) for v in x], y=[float(v) for v in y], X=fl(X), Y=fl(Y))
        r = impl.call('c15', 'normalizer_apply', args, timeout=30)
        ctx.traces += 1
        if 'ok' not in r:
            ctx.violation('Normalizer', 'Normalizer(A, reg) raised on a valid operand', case=args, observed=r, check='source_term')
            continue
        qm = lambda M: clist([[Fraction(v) for v in row] for row in M], lambda row: clist(row, cq))
        qv = lambda v: clist([Fraction(t) for t in v], cq)
        ev = 'qenv_normalizer_v %s %d %d %s' % (qm(A), n, k, cq(reg))
        em = 'qenv_normalizer_m %s %d %d %s' % (qm(A), n, k, cq(reg))
        exprs.append('(map qz3 (qvresult (qvdenote (%s %s) src_normalizer_matvec_1d)), map qz3 (qvresult (qvdenote (%s %s) src_normalizer_rmatvec_1d)), '
                     'map (map qz3) (qmresult (qvdenote (%s %s %d %d) src_normalizer_matvec_2d)), '
                     'map (map qz3) (qmresult (qvdenote (%s %s %d %d) src_normalizer_rmatvec_2d)))'
                     % (ev, qv(x), ev, qv(y), em, qm(X), k, m, em, qm(Y), n, m))
        cases.append((args, r['ok']))
    vals = safe_coq_eval(ctx, 'c15src', ['Base.Util', 'Model.NpExpr', 'Model.NpVec', 'Gen.NpNormalizer'], exprs,
                         prelude='Definition qz3 (q : Q) : Z * Z := (Qnum q, Zpos (Qden q)).\n', shard=40) if exprs else []
    n_src = 0

    def fr(p):
        return float(Fraction(p[0], p[1]))
    for (args, got), v in zip(cases, vals or []):
        n_src += 1
        ctx.count('source_term:Normalizer', ('src', args), True)
        exp = {'matvec_1d': [fr(p) for p in v[0]], 'rmatvec_1d': [fr(p) for p in v[1]],
               'matvec_2d': [[fr(p) for p in row] for row in v[2]], 'rmatvec_2d': [[fr(p) for p in row] for row in v[3]]}
        for key in exp:
            a, b = np_flat(exp[key]), np_flat(got[key])
            if len(a) != len(b) or any(abs(u - w) > 1e-9 * max(1.0, abs(u)) for u, w in zip(a, b)):
                ctx.violation('Normalizer', 'the term regenerated from operators.py (src_normalizer_%s), evaluated with the array semantics '
                              'of Model/NpVec.v, differs from the implementation' % key, case=args, expected=exp[key], observed=got[key],
                              check='source_term', branch=key)
    ctx.extra['source_terms_evaluated'] = n_src


def np_flat(x):
    out = []
    for v in x:
        if isinstance(v, list):
            out.extend(np_flat(v))
        else:
            out.append(v)
    return out


def run_operators(ctx, impl, rng, quick, dmax, depth_max, notes):
    n_cases = 1500 if quick else 9000
    cases = []
    profiles = [(dmax, depth_max)] if quick else [(7, depth_max), (dmax, 3), (dmax, 2)]
    for k in range(n_cases):
        dm, dp = rng.choice(profiles)
        depth = rng.randint(0, dp)
        op, (r, c) = gen_op(rng, depth, dm)
        x = rvec(rng, c)
        X = [rvec(rng, 2) for _ in range(c)]
        cases.append(dict(op=op, x=x, X=X, shape=(r, c), depth=depth, with_dense=(k % 2 == 0)))
    exprs = []
    for cs in cases:
        op_c = {'cls': cs['op']['cls'], 'e': strip_fmt(cs['op']['e'])}
        cs['op_c'] = op_c
        exprs.append('opcase %s %s %s %s %s' % (csqrt(sqrt_table(op_c)), cop(op_c), cvec(cs['x']), cmat(cs['X']), cbool(cs['with_dense'])))
    model = safe_eval(ctx, 'c15op', exprs, shard=60 if quick else 50)
    for idx, (cs, mv) in enumerate(zip(cases, model)):
        op = cs['op']
        if mv is None:          # the exact-rational evaluation of this case exceeded its budget (counted, not a verdict)
            continue
        dead = mv is DEAD       # the model no longer evaluates at all (recorded in ctx.proof_broken): no model diff, the
        #                         first-principles dense oracle and the aliasing snapshots still judge the implementation
        m_dot, m_mat, (m_dense, m_sums) = mv if not dead else (None, None, (None, None))
        r = impl.call('c15', 'expr', dict(op=op, x=cs['x'], X=cs['X']), timeout=60)
        ctx.traces += 1
        fam = 'op:%s:depth%d' % (op['cls'], cs['depth'])
        nontrivial = cs['depth'] >= 1 and any(len(m['coo']) > 0 for m in mats_of(op['e']))
        ctx.count(fam, ('op', cs['op_c'], cs['x'], cs['X']), nontrivial)
        case = dict(op=cs['op_c'], x=cs['x'], X=cs['X'])
        site, dkind = defect_site(op)
        if 'ok' not in r:
            ctx.violation('operator', 'worker failed', case=case, observed=r, cls=op['cls'])
            continue
        out = r['ok']
        if 'build_err' in out:
            if op['cls'] == 'cn' and has(op['e'], 'CT') and 'empty' in out.get('msg', ''):
                # _transpose builds a throw-away CoNeighbor(self.backward): check_format rejects a factor without stored entry
                ctx.violation('CoNeighbor._transpose', 'transposing an operator whose backward factor has no stored entry raises',
                              case=case, observed=out, cls='cn', kind='empty_factor')
            else:
                ctx.violation(site or 'operator.build', 'building a well-shaped operator expression raised', case=case,
                              observed=out, cls=op['cls'])
            continue
        if out.get('margin'):
            ctx.margin_dropped += 1
            continue
        # ---- aliasing observed by snapshots
        for a in out['alias']:
            if not a['changed']:
                notes['aliasing_returned_self'] += 1
            elif a['broken'] is None:
                notes['aliasing_mutated_same_value'] += 1
            else:
                notes['aliasing_mutated_broken'] += 1
                ctx.violation(a['site'], 'the operation mutated its operand, which no longer applies as the dense matrix it denoted',
                              case=case, kind='operand_mutated', broken=a['broken'], cls=op['cls'])
        # ---- correspondence: model vs implementation
        d = out['dot']
        if dead:
            pass
        elif m_dot == []:
            if 'err' not in d:
                ctx.violation('model_vs_impl', 'model: dot raises (shape check); implementation returned', case=case,
                              expected='Err', observed=d, cls=op['cls'], part='dot')
        elif 'err' in d or not vclose(fl(m_dot[0]), d['ok']):
            ctx.violation('model_vs_impl', 'operator.dot(x): implementation differs from the model', case=case,
                          expected=fl(m_dot[0]), observed=d, cls=op['cls'], part='dot')
        stale = False
        if not stale and not dead:
            for part in ('mv2', 'dotm'):
                o = out[part]
                if 'err' in o or not mclose(fl(m_mat), o['ok']):
                    ctx.violation('model_vs_impl', 'application to a 2-column matrix (%s) differs from the model' % part,
                                  case=case, expected=fl(m_mat), observed=o, cls=op['cls'], part=part)
            if op['cls'] == 'slr':
                for k, part in enumerate(('sum0', 'sum1', 'sum')):
                    o = out[part]
                    exp = fl(m_sums[k]) if k < 2 else float(m_sums[2][0])
                    good = 'ok' in o and (vclose(exp, o['ok']) if k < 2 else close(exp, o['ok']))
                    if not good:
                        ctx.violation('model_vs_impl', 'SparseLR.%s differs from the model' % part, case=case, expected=exp,
                                      observed=o, cls='slr', part=part)
        # ---- property oracle: implementation vs the dense matrix built from first principles
        what = None
        if 'err' in d:
            what = 'operator.dot(x) raises %s on a well-shaped vector' % d['err']
        elif not vclose(out['dense_dot'], d['ok']):
            what = 'operator.dot(x) differs from dense @ x'
        elif not stale:
            for part in ('mv2', 'dotm'):
                o = out[part]
                if 'err' in o or not mclose(out['dense_dotm'], o['ok']):
                    what = 'application to a matrix (%s) differs from dense @ X' % part
            if op['cls'] == 'slr' and what is None:
                ds = out['dense_sums']
                if not ('ok' in out['sum0'] and vclose(ds[0], out['sum0']['ok']) and 'ok' in out['sum1'] and
                        vclose(ds[1], out['sum1']['ok']) and 'ok' in out['sum'] and close(ds[2], out['sum']['ok'])):
                    what = 'sum(axis) differs from the sums of the dense matrix'
        if what:
            kind = dkind or 'value'
            ctx.violation(site or ('operator:' + op['cls']), what, case=case, expected=out.get('dense_dot'), observed=d,
                          cls=op['cls'], kind=kind)
        # ---- spec check: Coq op_dense vs the worker's first-principles NumPy matrix
        if not dead and cs['with_dense'] and not mclose(fl(m_dense), out['dense']) and not (out['dense_shape'][0] == 0):
            ctx.violation('spec_vs_numpy', 'the dense matrix of the theorems differs from the NumPy construction (harness/spec)',
                          case=case, expected=fl(m_dense), observed=out['dense'], cls=op['cls'])
        if idx % 150 == 0:
            ctx.sample(dict(kind='operator', op=cs['op_c'], x=cs['x'], model_dot=fl(m_dot) if not dead else None, impl_dot=d, defect_site=site))


DEAD = object()      # stands for the model value of a case when the model no longer evaluates at all


def safe_eval(ctx, tag, exprs, shard):
    """coq_eval that isolates the rare case whose exact rationals explode: such a case yields None and is counted.
    When more than a handful of single evaluations fail the model itself is dead (it no longer compiles, a generated term
    no longer type-checks): recorded in ctx.proof_broken as common.safe_coq_eval does, and every case gets DEAD so that the
    implementation-side oracles still run on it."""
    from ..common import CoqEvalError
    out = []
    chunk = shard * 8
    limit = max(3, len(exprs) // 100)
    last = ''
    for a in range(0, len(exprs), chunk):
        part = exprs[a:a + chunk]
        try:
            out.extend(unq(coq_eval(tag, IMPORTS, part, prelude=PRELUDE, shard=shard, timeout=240)))
            continue
        except CoqEvalError:
            pass
        for b in range(0, len(part), shard):
            piece = part[b:b + shard]
            try:
                out.extend(unq(coq_eval(tag, IMPORTS, piece, prelude=PRELUDE, shard=shard, timeout=240)))
                continue
            except CoqEvalError:
                pass
            for e in piece:
                try:
                    out.extend(unq(coq_eval(tag, IMPORTS, [e], prelude=PRELUDE, shard=1, timeout=20)))
                except CoqEvalError as exc:
                    out.append(None)
                    last = str(exc)
                    ctx.extra['model_budget_exceeded'] = ctx.extra.get('model_budget_exceeded', 0) + 1
                    if ctx.extra['model_budget_exceeded'] > limit:
                        ctx.proof_broken.append('model evaluation failed (%s): too many model evaluations failed (%d): %s' % (
                            tag, ctx.extra['model_budget_exceeded'], last.strip()[-400:]))
                        ctx.extra['model_dead'] = sorted(set(ctx.extra.get('model_dead', [])) | {tag})
                        return [DEAD] * len(exprs)
    return out


def mats_of(e):
    out = []
    for x in e[1:]:
        if isinstance(x, dict) and 'coo' in x:
            out.append(x)
        elif isinstance(x, list) and x and isinstance(x[0], str):
            out.extend(mats_of(x))
    return out


# ------------------------------------------------------------------------------------------------
# utilities
# ------------------------------------------------------------------------------------------------
def rows_val(v):
    """Coq value (ncol, rows of (col, q)) -> dense python matrix of Fractions"""
    nc, rows = v
    d = [[Fraction(0)] * nc for _ in rows]
    for i, row in enumerate(rows):
        for (j, q) in row:
            d[i][j] += q
    return d


def run_utils(ctx, impl, rng, quick, dmax):
    nU = 120 if quick else 900

    def coq(tag, exprs):
        # one value per expression; None for every case when the model no longer evaluates (recorded in ctx.proof_broken):
        # the part='model' comparisons are then skipped, the part='oracle' / 'aliasing' checks still run
        vals = safe_coq_eval(ctx, 'c15' + tag, IMPORTS, exprs, prelude=PRELUDE, shard=100, timeout=900) if exprs else []
        return unq(vals) if vals is not None else [None] * len(exprs)

    def check(site, what, ok, case, expected, observed, **kw):
        if not ok:
            ctx.violation(site, what, case=case, expected=expected, observed=observed, **kw)

    # ---- normalize / get_norms (p = 1, 2), CSR and dense containers
    cs, ex = [], []
    for _ in range(nU):
        r, c = rng.randint(1, dmax), rng.randint(1, dmax)
        m = rsm(rng, r, c)
        p = rng.choice([1, 2])
        fmt = rng.choice(['csr', 'csr', 'dense'])
        if _ % 5 == 0 and m['coo']:
            # narrow integer storage with weights whose SQUARE does not fit the type (defect D38: 64 * 64 = 0 in uint8)
            st_, lo_, hi_ = [('uint8', 16, 255), ('int8', 12, 127), ('int16', 200, 32767), ('uint16', 300, 65535)][(_ // 5) % 4]
            m = dict(m, coo=[[i, j, rng.choice([lo_, 4 * lo_, hi_, rng.randint(lo_, hi_)])] for i, j, v in m['coo']], dtype=st_)
            p = 2
        d = dense_of(m)
        tab = []
        if p == 2:
            vals = sorted({sum(v * v for v in row) for row in d})
            tab = [(v, Fraction(math.sqrt(float(v)))) for v in vals]
            ex.append('(rm (dense (snormalize2 %s %s)), [rv (snorms2 %s %s)])' % (csqrt(tab), csm(m), csqrt(tab), csm(m)))
        else:
            ex.append('(rm (dense (snormalize %s)), [rv (snorms1 %s)])' % (csm(m), csm(m)))
        cs.append(dict(kind='normalize', m=m, p=p, fmt=fmt))
    for c_, mv in zip(cs, coq('norm', ex)):
        r = impl.call('c15', 'util', c_)
        ctx.traces += 1
        ctx.count('normalize:p%d:%s' % (c_['p'], c_['fmt']), ('normalize', c_), len(c_['m']['coo']) > 0)
        case = dict(c_)
        if 'ok' not in r:
            ctx.violation('normalize', 'raises on a valid matrix', case=case, observed=r, p=c_['p'])
            continue
        o = r['ok']
        if mv is not None:
            check('normalize', 'differs from the model', mclose(fl(mv[0]), o['dense']), case, fl(mv[0]), o['dense'], p=c_['p'], part='model')
        if mv is not None:
            check('get_norms', 'differs from the model', vclose(fl(mv[1][0]), o['norms']), case, fl(mv[1][0]), o['norms'], p=c_['p'], part='model')
        # oracle: every row has norm 1, or was null and stays null; entries = entry / norm
        d = dense_of(c_['m'])
        good = True
        for i, row in enumerate(d):
            nrm = sum(abs(v) for v in row) if c_['p'] == 1 else math.sqrt(float(sum(v * v for v in row)))
            got = o['dense'][i]
            if nrm == 0:
                good &= all(g == 0 for g in got)
            else:
                good &= vclose([float(v) / float(nrm) for v in row], got)
                tot = sum(abs(g) for g in got) if c_['p'] == 1 else sum(g * g for g in got)
                good &= close(tot, 1.0)
        check('normalize', 'rows are not the input rows divided by their norm (norm 1, or null)', good, case, None, o['dense'], p=c_['p'], part='oracle')
        check('normalize', 'input matrix modified', o['input_unchanged'], case, None, None, p=c_['p'], part='aliasing')
    ctx.sample(dict(kind='normalize', case=cs[0]))

    # ---- get_laplacian
    cs, ex = [], []
    for _ in range(nU):
        n = rng.randint(1, dmax)
        m = rsm(rng, n, n, nonneg=rng.random() < 0.7)
        cs.append(dict(kind='laplacian', m=m))
        ex.append('rm (dense (get_laplacian %s))' % csm(m))
    for c_, mv in zip(cs, coq('lap', ex)):
        r = impl.call('c15', 'util', c_)
        ctx.traces += 1
        ctx.count('get_laplacian', ('laplacian', c_), len(c_['m']['coo']) > 0)
        if 'ok' not in r:
            ctx.violation('get_laplacian', 'raises on a square matrix', case=c_, observed=r)
            continue
        d = dense_of(c_['m'])
        spec = [[(sum(d[i]) if i == j else 0) - d[i][j] for j in range(len(d))] for i in range(len(d))]
        if mv is not None:
            check('get_laplacian', 'differs from the model', mclose(fl(mv), r['ok']['dense']), c_, fl(mv), r['ok']['dense'], part='model')
        check('get_laplacian', 'differs from D - A', mclose(fl(spec), r['ok']['dense']), c_, fl(spec), r['ok']['dense'], part='oracle')

    # ---- get_membership / from_membership (labels with negatives)
    cs, ex = [], []
    for _ in range(nU):
        n = rng.randint(1, dmax + 2)
        kmax = rng.randint(0, 5)
        labels = [rng.choice([-1, -1, -2] + list(range(kmax + 1))) for _ in range(n)]
        mx = max(labels)
        nl = None if (rng.random() < 0.6 and mx >= 0) else max(mx, 0) + rng.randint(1, 3)
        cs.append(dict(kind='membership', labels=labels, n_labels=nl))
        ex.append('(rsm (get_membership %s %s), rz (match get_membership %s %s with Ok m => from_membership m | Err => Err end))'
                  % (clist(labels, cz), copt(nl, cnat), clist(labels, cz), copt(nl, cnat)))
    for c_, mv in zip(cs, coq('memb', ex)):
        r = impl.call('c15', 'util', c_)
        ctx.traces += 1
        ctx.count('membership', ('membership', c_), any(l >= 0 for l in c_['labels']))
        if mv is None:
            if 'ok' not in r:
                continue       # model dead: whether this call must raise is stated by the model only
        elif 'ok' not in r or not mv[0]:
            if ('ok' in r) != bool(mv[0]):
                ctx.violation('get_membership', 'model and implementation disagree on raising', case=c_, expected=mv, observed=r, part='model')
            continue
        o = r['ok']
        if mv is not None:
            nc, rows = mv[0][0]
            mcoo = sorted([i, j, float(q)] for i, row in enumerate(rows) for (j, q) in row)
        if mv is not None:
            check('get_membership', 'differs from the model', [len(rows), nc] == o['shape'] and mcoo == o['coo'], c_, [nc, mcoo], o, part='model')
        spec = sorted([i, l, 1.0] for i, l in enumerate(c_['labels']) if l >= 0)
        check('get_membership', 'is not the indicator matrix of the non-negative labels', spec == o['coo'] and o['bool_same'], c_, spec, o, part='oracle')
        back = [l if l >= 0 else -1 for l in c_['labels']]
        if mv is not None:
            check('from_membership', 'differs from the model', mv[1] == [o['back']], c_, mv[1], o['back'], part='model')
        check('from_membership', 'does not give the labels back (negatives as -1)', back == o['back'], c_, back, o['back'], part='oracle')
    ctx.sample(dict(kind='membership', case=cs[0]))
    cs, ex = [], []
    for _ in range(nU // 2):
        r_, c = rng.randint(1, dmax), rng.randint(1, dmax)
        coo = []
        for i in range(r_):
            k = rng.choice([0, 1, 1, 1, 2] if rng.random() < 0.2 else [0, 1, 1, 1])
            for j in sorted(rng.sample(range(c), min(k, c))):
                coo.append([i, j, 1])
        m = {'shape': [r_, c], 'coo': coo}
        cs.append(dict(kind='from_membership', m=m))
        ex.append('rz (from_membership %s)' % csm(m))
    for c_, mv in zip(cs, coq('fromm', ex)):
        r = impl.call('c15', 'util', c_)
        ctx.traces += 1
        ctx.count('from_membership', ('from_membership', c_), len(c_['m']['coo']) > 0)
        got = [r['ok']['back']] if 'ok' in r else []
        if mv is not None:
            check('from_membership', 'differs from the model (labels, or raising on a row with two labels)', got == mv, c_, mv, r, part='model')

    # ---- get_neighbors / get_degrees / get_weights
    cs, ex = [], []
    for _ in range(nU):
        r_, c = rng.randint(1, dmax), rng.randint(1, dmax)
        m = rsm(rng, r_, c)
        t = rng.random() < 0.5
        n = c if t else r_
        cs.append(dict(kind='neighbors', m=m, transpose=t))
        ex.append('(%s, get_degrees %s %s, [rv (get_weights %s %s)])' % (
            clist(['get_neighbors %s %d %s' % (csm(m), i, cbool(t)) for i in range(n)]), csm(m), cbool(t), csm(m), cbool(t)))
    for c_, mv in zip(cs, coq('neigh', ex)):
        r = impl.call('c15', 'util', c_)
        ctx.traces += 1
        ctx.count('neighbors:%s' % ('T' if c_['transpose'] else 'N'), ('neighbors', c_), len(c_['m']['coo']) > 0)
        if 'ok' not in r:
            ctx.violation('get_neighbors', 'raises', case=c_, observed=r)
            continue
        o = r['ok']
        if mv is not None:
            check('get_neighbors', 'differs from the model', [sorted(x) for x in mv[0]] == o['neighbors'], c_, mv[0], o['neighbors'], part='model')
        if mv is not None:
            check('get_degrees', 'differs from the model', list(mv[1]) == o['degrees'], c_, mv[1], o['degrees'], part='model')
        if mv is not None:
            check('get_weights', 'differs from the model', vclose(fl(mv[2][0]), o['weights']), c_, fl(mv[2][0]), o['weights'], part='model')
        d = dense_of(c_['m'])
        if c_['transpose']:
            d = [list(col) for col in zip(*d)] if d and d[0] else [[] for _ in range(c_['m']['shape'][1])]
        spec_n = [[j for j, v in enumerate(row) if v != 0] for row in d]
        check('get_neighbors', 'is not the support of the row / column', spec_n == o['neighbors'] and [len(x) for x in spec_n] == o['degrees'],
              c_, spec_n, o, part='oracle')
        check('get_weights', 'is not the row / column sum', vclose([float(sum(row)) for row in d], o['weights']), c_, None, o['weights'], part='oracle')

    # ---- directed2undirected
    cs, ex = [], []
    for _ in range(nU):
        n = rng.randint(1, dmax)
        # float32: fractional (dyadic) weights in single precision; narrow integer types: weights in the upper half of the type's
        # range, so that the sum of two reciprocal edges does not fit the storage type (A + A^T must not be formed in it)
        dt = rng.choice(['float', 'float32', 'int', 'bool', 'uint8', 'int8', 'int16', 'int32'])
        m = rsm(rng, n, n, nonneg=True)
        big = {'uint8': (130, 255), 'int8': (70, 127), 'int16': (17000, 32767), 'int32': (2 ** 30 + 1, 2 ** 31 - 1)}
        if dt in big:
            m['coo'] = [[i, j, rng.randint(*big[dt])] for i, j, v in m['coo']]
        elif dt not in ('float', 'float32'):
            m['coo'] = [[i, j, 1 if dt == 'bool' else max(1, int(v))] for i, j, v in m['coo']]
        m['dtype'] = dt
        w = rng.random() < 0.5
        cs.append(dict(kind='d2u', m=m, weighted=w))
        ex.append('rm (dense (directed2undirected %s %s))' % (csm(m), cbool(w)))
    for c_, mv in zip(cs, coq('d2u', ex)):
        r = impl.call('c15', 'util', c_)
        ctx.traces += 1
        ctx.count('directed2undirected:%s:%s' % ('w' if c_['weighted'] else 'b', c_['m']['dtype']), ('d2u', c_), len(c_['m']['coo']) > 0)
        if 'ok' not in r:
            ctx.violation('directed2undirected', 'raises', case=c_, observed=r, weighted=c_['weighted'])
            continue
        o = r['ok']
        d = dense_of(c_['m'])
        n = len(d)
        spec = [[(d[i][j] + d[j][i]) if c_['weighted'] else (1 if max(d[i][j], d[j][i]) > 0 else 0) for j in range(n)] for i in range(n)]
        if mv is not None:
            check('directed2undirected', 'differs from the model', mclose(fl(mv), o['dense']), c_, fl(mv), o['dense'], weighted=c_['weighted'], part='model')
        check('directed2undirected', 'is not A + A^T / max(A, A^T) > 0', mclose(fl(spec), o['dense']), c_, fl(spec), o['dense'], weighted=c_['weighted'], part='oracle')
        check('directed2undirected', 'input matrix modified', o['input_unchanged'], c_, None, None, weighted=c_['weighted'], part='aliasing')

    # ---- bipartite2undirected / bipartite2directed (CSR and SparseLR)
    cs, ex = [], []
    for _ in range(nU):
        r_, c = rng.randint(1, dmax), rng.randint(1, dmax)
        m = rsm(rng, r_, c)
        u = rng.random() < 0.5
        cs.append(dict(kind='bip', m=m, undirected=u))
        ex.append('rm (dense (%s %s))' % ('bipartite2undirected' if u else 'bipartite2directed', csm(m)))
    for c_, mv in zip(cs, coq('bip', ex)):
        r = impl.call('c15', 'util', c_)
        ctx.traces += 1
        ctx.count('bipartite2%s' % ('undirected' if c_['undirected'] else 'directed'), ('bip', c_), len(c_['m']['coo']) > 0)
        if 'ok' not in r:
            ctx.violation('bipartite2undirected' if c_['undirected'] else 'bipartite2directed', 'raises', case=c_, observed=r)
            continue
        d = dense_of(c_['m'])
        r_, c = c_['m']['shape']
        spec = [[Fraction(0)] * (r_ + c) for _ in range(r_ + c)]
        for i in range(r_):
            for j in range(c):
                spec[i][r_ + j] = d[i][j]
                if c_['undirected']:
                    spec[r_ + j][i] = d[i][j]
        site = 'bipartite2undirected' if c_['undirected'] else 'bipartite2directed'
        if mv is not None:
            check(site, 'differs from the model', mclose(fl(mv), r['ok']['dense']), c_, fl(mv), r['ok']['dense'], part='model')
        check(site, 'is not the block matrix [[0, B], [B^T or 0, 0]]', mclose(fl(spec), r['ok']['dense']), c_, fl(spec), r['ok']['dense'], part='oracle')
    for _ in range(nU // 2):
        r_, c = rng.randint(1, dmax), rng.randint(1, dmax)
        e = gen_slr(rng, rng.randint(0, 1), r_, c, dmax)
        if has(e, 'SNormalize') or is_bare_reg(e):
            continue
        u = rng.random() < 0.5
        c_ = dict(kind='bip_slr', e=e, undirected=u)
        r = impl.call('c15', 'util', c_)
        ctx.traces += 1
        ctx.count('bipartite2%s:SparseLR' % ('undirected' if u else 'directed'), ('bip_slr', c_), True)
        site = 'bipartite2undirected' if u else 'bipartite2directed'
        if 'ok' not in r:
            ctx.violation(site, 'raises on a SparseLR', case=c_, observed=r, container='SparseLR')
            continue
        B = r['ok']['spec']
        spec = [[0.0] * (r_ + c) for _ in range(r_ + c)]
        for i in range(r_):
            for j in range(c):
                spec[i][r_ + j] = B[i][j]
                if u:
                    spec[r_ + j][i] = B[i][j]
        check(site, 'SparseLR result is not the block matrix of the dense matrix', mclose(spec, r['ok']['dense']), c_, spec, r['ok']['dense'],
              container='SparseLR', part='oracle')

    # ---- get_tfidf (log oracle)
    cs, ex = [], []
    for _ in range(nU):
        r_, c = rng.randint(1, dmax), rng.randint(1, dmax)
        m = rsm(rng, r_, c, nonneg=True)
        m['coo'] = [[i, j, max(1, int(v))] for i, j, v in m['coo']]
        if rng.random() < 0.4:
            # explicitly stored zeros (a count edited in place, a matrix built from (data, indices, indptr)): a word with a stored
            # zero count in a document does not occur in it
            occupied = {(i, j) for i, j, _ in m['coo']}
            free = [(i, j) for i in range(r_) for j in range(c) if (i, j) not in occupied]
            for (i, j) in rng.sample(free, min(len(free), rng.randint(1, 3))):
                m['coo'].append([i, j, 0])
        tab = [(Fraction(r_, f), Fraction(math.log(r_ / f))) for f in range(1, r_ + 1)]
        cs.append(dict(kind='tfidf', m=m))
        ex.append('rm (dense (get_tfidf %s %s))' % (csqrt(tab), csm(m)))
    for c_, mv in zip(cs, coq('tfidf', ex)):
        r = impl.call('c15', 'util', c_)
        ctx.traces += 1
        ctx.count('get_tfidf', ('tfidf', c_), len(c_['m']['coo']) > 0)
        if 'ok' not in r:
            ctx.violation('get_tfidf', 'raises', case=c_, observed=r)
            continue
        d = dense_of(c_['m'])
        nd = len(d)
        nw = c_['m']['shape'][1]
        freq = [sum(1 for i in range(nd) if d[i][j] > 0) for j in range(nw)]
        spec = [[(float(d[i][j]) / float(sum(d[i])) if sum(d[i]) else 0.0) * (math.log(nd / freq[j]) if freq[j] else 0.0) for j in range(nw)] for i in range(nd)]
        if mv is not None:
            check('get_tfidf', 'differs from the model', mclose(fl(mv), r['ok']['dense']), c_, fl(mv), r['ok']['dense'], part='model')
        check('get_tfidf', 'is not tf * log(n / df)', mclose(spec, r['ok']['dense']), c_, spec, r['ok']['dense'], part='oracle')

    # ---- top_k: k = 1 .. n + 1, both sort values; oracles = the answers NumPy gave, contracts checked
    cs = []
    for _ in range(nU):
        n = rng.randint(1, dmax + 2)
        ties = rng.random() < 0.4
        scores = [rng.choice([0, 1, 2, 0.5]) if ties else rng.choice([-1, 1]) * rng.randint(0, 40) / 4 for _ in range(n)]
        for k in sorted({1, n, n + 1, rng.randint(1, n)}):
            for sort in (True, False):
                cs.append(dict(kind='top_k', scores=scores, k=k, sort=sort, as_array=rng.random() < 0.8))
    if ctx.tier == 'quick':
        cs = cs[:4 * nU]
    ex = []
    outs = []
    for c_ in cs:
        r = impl.call('c15', 'util', c_)
        ctx.traces += 1
        n = len(c_['scores'])
        ctx.count('top_k:%s:%s' % ('sort' if c_['sort'] else 'nosort', 'k>=n' if c_['k'] >= n else 'k<n'), ('top_k', c_), n > 1)
        outs.append(r)
        orc = impl.call('c15', 'topk_oracles', c_)
        o = orc.get('ok') or {}
        c_['_orc'] = o
        ex.append('rn (top_k (fun _ => %s) (fun _ _ => %s) %s %d %s)' % (
            clist(o.get('argsort', []), cnat), clist(o.get('argpartition', []), cnat), cvec(c_['scores']), c_['k'], cbool(c_['sort'])))
    for c_, r, mv in zip(cs, outs, coq('topk', ex)):
        n = len(c_['scores'])
        s = c_['scores']
        o = c_.pop('_orc')
        case = dict(c_)
        kge = c_['k'] >= n
        # run-time check of the oracle contracts the theorem assumes
        if o.get('argsort') is not None and o.get('argsort_input') is not None:
            a, inp = o['argsort'], o['argsort_input']
            if sorted(a) != list(range(len(inp))) or any(inp[a[i]] > inp[a[i + 1]] for i in range(len(a) - 1)):
                ctx.violation('np.argsort', 'oracle contract violated', case=case, observed=o)
        if o.get('argpartition') is not None and not kge:
            p = o['argpartition']
            neg = [-v for v in s]
            if sorted(p) != list(range(n)) or any(neg[p[a]] > neg[p[b]] for a in range(c_['k']) for b in range(c_['k'], n)):
                ctx.violation('np.argpartition', 'oracle contract violated', case=case, observed=o)
        got = [r['ok']['index']] if 'ok' in r else []
        if mv is not None and got != [list(x) for x in mv]:
            ctx.violation('model_vs_impl', 'top_k differs from the model', case=case, expected=mv, observed=r, part='top_k')
        # property oracle (the proved characterisation top_k_def, checked on the implementation's output)
        if 'ok' not in r:
            ctx.violation('top_k', 'raises %s instead of returning the top-k indices' % r.get('err'), case=case, observed=r,
                          sort=c_['sort'], k_ge_len=kge)
            continue
        idx = r['ok']['index']
        good = (len(idx) == min(c_['k'], n) and len(set(idx)) == len(idx) and all(isinstance(i, int) and 0 <= i < n for i in idx))
        if good:
            rest = [j for j in range(n) if j not in set(idx)]
            good = all(s[j] <= s[i] for i in idx for j in rest)
            if c_['sort']:
                good = good and all(s[idx[a]] >= s[idx[a + 1]] for a in range(len(idx) - 1))
        check('top_k', 'does not return k indices whose scores dominate the others', good, case, None, idx, sort=c_['sort'], k_ge_len=kge)
    ctx.sample(dict(kind='top_k', case={k: v for k, v in cs[0].items()}))

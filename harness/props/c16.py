"""C16 — same input and seed give the same output on any thread count and fit history.

Run time: every registered algorithm that is deterministic (no randomness, or an explicit random_state) is run
(a) twice in one process, (b) in a fresh process, (c) under several OpenMP thread counts, (d) after a history of
earlier fits / set_params on the same object versus a freshly constructed estimator.
(e) static tie for (d): harness/translators/fitstate.py re-extracts from every estimator class which attributes can carry
information from an earlier fit (stale reads, constructor-assigned attributes overwritten and read back, stale outputs)
into Gen/FitState.v; Props/C16.v proves on an abstract estimator that an empty verdict implies refit = fresh fit for ALL
histories, and pins the reviewed exceptions. The whole-object state probe below (every attribute of __dict__ after
bipartite -> square, square -> bipartite and tiny -> target histories) and the GNN validation-split refit are the search
that produces a concrete input when that obligation breaks.
Theorem side: Props/C16.v (interleaving semantics of prange loops, obligations over the loops and the randomness
call sites re-extracted from the source on every run; fit-state noninterference)."""
from .. import cases
from ..compare import compare
from ..impl import Impl

GEN_FILES = ['Prange.v', 'FitState.v']
# these use the global NumPy generator and have no seed parameter: "same seed" does not apply (not in the quantifier)
UNSEEDED_RANDOM = ('KCenters',)
# ... but their fit HISTORY is in the quantifier: for the history cases the global NumPy generator is seeded right before
# every fit (np.random.seed), on the refitted and on the fresh estimator alike
NP_SEEDED = ('KCenters',)
LOUVAIN_FAMILY = ('Louvain', 'Leiden', 'LouvainHierarchy', 'LouvainIteration', 'LouvainEmbedding')


def base_name(n):
    return n.split('[')[0]


def prepare(rng, name, d, nmax):
    kind = cases.pick_kind(rng, d)
    spec, nr, nc, fam = cases.make_matrix(rng, kind, nmax, weighted=rng.random() < 0.6)
    opts = cases.make_opts(rng, d, nr, nc, kind == 'bip')
    if d['seeded']:
        opts.setdefault('params', {})['random_state'] = rng.choice([0, 1, 42])
        if base_name(name) in LOUVAIN_FAMILY:
            opts['params']['shuffle_nodes'] = True
    if name == 'get_dag':
        opts['order'] = [rng.randint(-1, 3) for _ in range(nr)]
    if name.startswith('GNNClassifier'):
        opts = cases.gnn_opts(rng, nr)
    return spec, opts, fam


def run(ctx, scratch):
    rng = ctx.rng
    quick = ctx.tier == 'quick'
    nmax = 10 if quick else 30
    reps = 3 if quick else 8
    threads = [1, 4] if quick else [1, 2, 4, 16]
    workers = {t: Impl(scratch, threads=t) for t in threads}
    fresh = Impl(scratch, threads=threads[0])
    try:
        main = workers[threads[0]]
        desc = main.call('registry', 'describe', None, timeout=120)['ok']
        names = sorted(n for n in desc if base_name(n) not in UNSEEDED_RANDOM)
        for name in names:
            d = desc[name]
            for rep in range(reps):
                spec, opts, fam = prepare(rng, name, d, nmax)
                req = dict(name=name, m=spec, opts=opts)
                a = main.call('registry', 'run', req, timeout=60)
                ctx.traces += 1
                ctx.count(name, (name, spec['shape'], spec['coo'], repr(sorted(opts.items(), key=str))), len(spec['coo']) > 1)
                if 'ok' not in a:
                    continue
                case = dict(name=name, m=spec, opts=opts, family=fam)
                if cases.degenerate(main, name, spec, opts):
                    # null / repeated singular values: the vectors are not determined by the input (ARPACK restarts internally)
                    ctx.margin_dropped += 1
                    case['skip'] = ('emb', 'vec', 'mat', 'ivec', 'labels') if base_name(name) in ('HITS', 'NNClassifier', 'NNLinker') else ('emb',)
                # (a) twice in the same process
                b = main.call('registry', 'run', req, timeout=60)
                ctx.traces += 1
                _cmp(ctx, name, a, b, case, 'repeat', 'second identical call in the same process differs')
                # (b) fresh process (process start is slow: first repetition of each algorithm in the quick tier)
                if rep == 0 or not quick:
                    fresh.close()
                    c = fresh.call('registry', 'run', req, timeout=60)
                    ctx.traces += 1
                    _cmp(ctx, name, a, c, case, 'fresh_process', 'identical call in a fresh process differs')
                # (c) thread counts (all algorithms in thorough; the prange kernels and their users in quick)
                if d['parallel'] or not quick or base_name(name) in ('PageRankClassifier', 'get_clustering_coefficient'):
                    for t in threads[1:]:
                        for _ in range(1 if quick else 3):
                            e = workers[t].call('registry', 'run', req, timeout=60)
                            ctx.traces += 1
                            ctx.count(name + ':threads', (name, spec['coo'], t), True)
                            _cmp(ctx, name, a, e, dict(case, threads=t), 'threads', 'result with %d OpenMP threads differs from 1 thread' % t)
                # (d) fit history on one object vs fresh estimator
                if d['seeds'] != 'sources' and (name in desc) and _is_class(name, desc):
                    spec0, opts0, _ = prepare(rng, name, d, nmax)
                    if rng.random() < 0.4:
                        # an extreme earlier input: a tiny graph (parameters may get clamped, caches sized, warnings raised)
                        spec0 = dict(shape=[2, 2], coo=[[0, 1, 1], [1, 0, 1]], dtype='int', fmt='csr') if rng.random() < 0.5 else \
                            dict(shape=[3, 3], coo=[[0, 1, 1], [1, 0, 1], [1, 2, 1], [2, 1, 1]], dtype='int', fmt='csr')
                        opts0 = {k: v for k, v in opts0.items() if k == 'params'}
                        if d['seeds'] in ('weights', 'values'):
                            opts0['seeds'] = {'all': {'dict': {'0': 1}}}
                        elif d['seeds'] == 'labels':
                            opts0['seeds'] = {'all': {'dict': {'0': 0, '1': 1}}}
                    steps = [dict(m=spec0, opts=opts0)]
                    if rng.random() < 0.5:
                        steps.append(dict(m=spec, opts=opts))
                        spec1, opts1, _ = prepare(rng, name, d, nmax)
                        steps.append(dict(m=spec1, opts=opts1))
                    last = dict(m=spec, opts=dict(opts))
                    # the object is constructed with the parameters of the first step; parameters of the target fit are
                    # installed with set_params when they differ (the fresh estimator is built with them directly)
                    steps[0]['opts'] = dict(opts0, params=dict(opts.get('params', {})))
                    steps.append(last)
                    h = main.call('registry', 'run_seq', dict(name=name, steps=steps), timeout=120)
                    ctx.traces += 1
                    ctx.count(name + ':history', (name, repr(steps)), True)
                    _cmp(ctx, name, a, h, dict(case, history=[s['m']['shape'] for s in steps]), 'refit',
                         'refit after %d earlier fit(s) differs from a freshly constructed estimator' % (len(steps) - 1))
                if rep == 0 and len(ctx.samples) < 6:
                    ctx.sample(dict(name=name, family=fam, m=spec, opts=opts))
        # history sweep: contrasting earlier inputs (tiny / disconnected / connected / bipartite) before the target fit
        hist_names = sorted(set(names) | {n for n in desc if base_name(n) in NP_SEEDED})
        for name in hist_names:
            d = desc[name]
            if not _is_class(name, desc) or d['seeds'] == 'sources':
                continue
            np_seeded = base_name(name) in NP_SEEDED
            for kind0 in ('tiny', 'disconnected', 'connected', 'bip'):
                for rep in range(1 if quick else 3):
                    spec, opts, fam = prepare(rng, name, d, nmax)
                    np_seed = rng.randrange(1000) if np_seeded else None
                    if np_seeded:
                        a = main.call('c16', 'run_seeded', dict(name=name, m=spec, opts=opts, np_seed=np_seed), timeout=60)
                    else:
                        a = main.call('registry', 'run', dict(name=name, m=spec, opts=opts), timeout=60)
                    ctx.traces += 1
                    if 'ok' not in a:
                        continue
                    if kind0 == 'tiny':
                        spec0 = dict(shape=[3, 3], coo=[[0, 1, 1], [1, 0, 1], [1, 2, 1], [2, 1, 1]], dtype='int', fmt='csr')
                    elif kind0 == 'disconnected':
                        k = rng.randint(3, 5)
                        E = [(i, (i + 1) % k) for i in range(k)] + [(k + i, k + (i + 1) % k) for i in range(k)]
                        E = sorted(set(E) | {(j, i) for (i, j) in E})
                        spec0 = dict(shape=[2 * k, 2 * k], coo=[[i, j, 1] for (i, j) in E], dtype='int', fmt='csr')
                    elif kind0 == 'connected':
                        spec0, _, _, _ = cases.make_matrix(rng, 'symconn', nmax)
                    else:
                        spec0, _, _, _ = cases.make_matrix(rng, 'bip', nmax)
                    n0 = spec0['shape'][0]
                    opts0 = {'params': dict(opts.get('params', {}))}
                    if d['seeds'] in ('weights', 'values'):
                        opts0['seeds'] = {'all': {'dict': {'0': 1}}}
                    elif d['seeds'] == 'labels':
                        opts0['seeds'] = {'all': {'dict': {'0': 0, '1': 1}}}
                    elif d['seeds'] == 'pos_init':
                        opts0['pos_init'] = [[rng.uniform(-1, 1), rng.uniform(-1, 1)] for _ in range(n0)]
                    if name.startswith('GNNClassifier'):
                        opts0 = cases.gnn_opts(rng, n0)
                    steps = [dict(m=spec0, opts=opts0), dict(m=spec, opts=dict(opts))]
                    if np_seeded:
                        h = main.call('c16', 'run_seq_seeded', dict(name=name, steps=steps, np_seed=np_seed), timeout=120)
                    else:
                        h = main.call('registry', 'run_seq', dict(name=name, steps=steps), timeout=120)
                    ctx.traces += 1
                    ctx.count(name + ':history_' + kind0, (name, kind0, repr(steps)), True)
                    case = dict(name=name, m=spec, opts=opts, family=fam, earlier=kind0, earlier_m=spec0)
                    if np_seeded:
                        case['np_seed'] = np_seed
                    if cases.degenerate(main, name, spec, opts):
                        ctx.margin_dropped += 1
                        case['skip'] = ('emb', 'vec', 'mat', 'ivec', 'labels') if base_name(name) in ('HITS', 'NNClassifier', 'NNLinker') else ('emb',)
                    _cmp(ctx, name, a, h, case, 'refit', 'refit after an earlier fit on a %s input differs from a freshly constructed estimator' % kind0)
        _state_probes(ctx, main, desc, nmax, quick)
        _gnn_validation(ctx, main, nmax, quick)
        _n_jobs(ctx, main, quick)
        _python_threads(ctx, main, desc, nmax, quick)
        _static_facts(ctx)
        # ---- (f) set_params histories: an object constructed with OTHER parameter values, fitted, then given the target values
        #      with set_params and refitted must equal an estimator constructed with the target values (a value derived from
        #      a parameter in __init__ and cached goes stale here; seed C16_6)
        ALTS = {'modularity': ['dugue', 'newman', 'potts'], 'resolution': [0.5, 1, 2], 'n_components': [2, 3],
                'damping_factor': [0.5, 0.85], 'n_iter': [2, 5], 'normalized': [True, False], 'regularization': [-1, 0.5],
                'weighted': [True, False], 'node_order': [None, 'increasing'], 'weights': ['degree', 'uniform'],
                'n_neighbors': [2, 3], 'factor_singular': [0.0, 0.5], 'solver': ['piteration', 'RH'],
                'centering': [True, False], 'depth': [2, 3], 'reorder': [True, False]}
        n_setp = 0
        tb = main.call('c16', 'toy', dict(name='movie_actor'), timeout=60)
        toy_bip = tb.get('ok')
        for name in names:
            d = desc[name]
            if not _is_class(name, desc) or d['seeds'] == 'sources' or name.startswith('GNNClassifier'):
                continue
            if '[' in name and name not in ('Louvain[dugue]', 'Leiden[dugue]', 'PageRank[piteration]'):
                continue        # one representative per parametrised family (the bracket only fixes a default value)
            for pname in [q for q in d.get('init_params', []) if q in ALTS and not (q == 'solver' and '[' in name)]:
                vals = ALTS[pname]
                for rep in range(1 if quick else 2):
                    spec, opts, fam = prepare(rng, name, d, nmax)
                    if 'bip' in d['kinds'] and rng.random() < 0.6:
                        # bipartite target input: where the two block forms ([[0,B],[0,0]] vs [[0,B],[B^T,0]]) and the row / column
                        # outputs make a stale derived value visible
                        spec_b, nr_b, nc_b, fam_b = cases.make_matrix(rng, 'bip', nmax, weighted=rng.random() < 0.5)
                        opts_b = cases.make_opts(rng, d, nr_b, nc_b, True)
                        if d['seeded']:
                            opts_b.setdefault('params', {})['random_state'] = 7
                        spec, opts, fam = spec_b, opts_b, fam_b
                    if pname == 'modularity' and 'bip' in d['kinds'] and rep == 0 and toy_bip is not None:
                        # a fixed structure-rich biadjacency (movie_actor): the directed and the undirected block forms cluster it
                        # differently, which small random matrices rarely do
                        spec = dict(shape=toy_bip['shape'], coo=toy_bip['coo'], dtype='float', fmt='csr')
                        opts = {'params': {'random_state': 7}} if d['seeded'] else {}
                        fam = 'toy_movie_actor'
                    v_old, v_new = rng.sample(vals, 2)
                    if fam == 'toy_movie_actor':
                        v_old, v_new = rng.choice([('newman', 'dugue'), ('dugue', 'newman'), ('potts', 'dugue')])
                    base = dict(opts.get('params', {}))
                    if pname in base:
                        continue
                    tgt = dict(opts, params=dict(base, **{pname: v_new}))
                    a = main.call('registry', 'run', dict(name=name, m=spec, opts=tgt), timeout=60)
                    ctx.traces += 1
                    if 'ok' not in a:
                        continue
                    spec0, opts0, _ = prepare(rng, name, d, nmax)
                    first = dict(m=spec0, opts=dict(opts0, params=dict(base, **{pname: v_old})))
                    last = dict(m=spec, opts=dict(tgt, set_params={pname: v_new}))
                    h = main.call('registry', 'run_seq', dict(name=name, steps=[first, last]), timeout=120)
                    ctx.traces += 1
                    n_setp += 1
                    ctx.count(name + ':set_params', (name, pname, repr(v_old), repr(v_new), repr(spec['coo'])), True)
                    case = dict(name=name, m=spec, opts=tgt, family='set_params', param=pname, old=v_old, new=v_new)
                    if h.get('err') == 'ValueError' and 'Invalid parameter' in (h.get('msg') or ''):
                        # set_params only accepts constructor parameters the object stores under their own name; a refused
                        # parameter is an explicit error, not a refit
                        ctx.extra['set_params_refused'] = ctx.extra.get('set_params_refused', 0) + 1
                        continue
                    if cases.degenerate(main, name, spec, tgt):
                        ctx.margin_dropped += 1
                        continue
                    _cmp(ctx, name, a, h, case, 'set_params', 'estimator constructed with %s=%r, fitted, then set_params(%s=%r) and refitted '
                         'differs from an estimator constructed with %s=%r' % (pname, v_old, pname, v_new, pname, v_new))
        ctx.extra['set_params_histories'] = n_setp
        # ---- (e) a large hub graph under 1 and 8 threads: unsynchronised updates of a shared cell by the iterations of a
        #      prange loop only lose updates when many threads hit the same cell at the same moment (seed C16_5: every node
        #      points to 4 hubs; invisible on the small graphs above)
        big_n = 20000 if quick else 100000
        par_names = [n_ for n_ in names if desc[n_]['parallel']]
        if par_names:
            hub = Impl(scratch, threads=8)
            try:
                full_n = big_n
                for name in par_names:
                    kinds = desc[name]['kinds']
                    # the merge intersection of the triangle kernels is quadratic in the hub degree: a smaller hub graph
                    big_n = full_n if base_name(name) == 'PageRank' else max(2000, full_n // 8)
                    if 'sq' in kinds:
                        coo = [[i, h, 1] for i in range(big_n) for h in range(4) if i != h]
                    else:
                        coo = [[i, h, 1] for i in range(4, big_n) for h in range(4)] + [[h, i, 1] for i in range(4, big_n) for h in range(4)] + \
                              [[a_, b_, 1] for a_ in range(4) for b_ in range(4) if a_ != b_]
                    spec = dict(shape=[big_n, big_n], coo=coo, dtype='int', fmt='csr')
                    req = dict(name=name, m=spec, opts={})
                    a = main.call('registry', 'run', req, timeout=300)
                    ctx.traces += 1
                    if 'ok' not in a:
                        continue
                    for _ in range(2 if quick else 5):
                        e = hub.call('registry', 'run', req, timeout=300)
                        ctx.traces += 1
                        ctx.count(name + ':hub_threads', (name, big_n, _), True)
                        if 'ok' not in e:
                            continue
                        bad = compare(a['ok'], e['ok'], rtol=1e-9, atol=1e-12)
                        if bad:
                            def head(v):
                                return v[:2] + [v[2][:8]] if isinstance(v, list) and len(v) > 2 and isinstance(v[2], list) else v
                            ctx.violation(name, 'result with 8 OpenMP threads differs from 1 thread on a hub graph (%d nodes, every node '
                                          'linked to nodes 0-3): %s' % (big_n, bad[0][0]),
                                          case=dict(name=name, family='hub_graph', n=big_n, hubs=4, threads=8), entry=name, kind='threads',
                                          mismatches=bad[:2], first={k: head(a['ok'].get(k)) for k, _ in bad[:1]},
                                          second={k: head(e['ok'].get(k)) for k, _ in bad[:1]})
                            break
            finally:
                hub.close()
    finally:
        for w in workers.values():
            w.close()
        fresh.close()
    ctx.rule = ('every registered algorithm without unseeded randomness x random inputs: second call, fresh process, OpenMP thread '
                'counts %s (prange kernels; all algorithms in the thorough tier), fit histories (1-3 earlier fits on other inputs) '
                'vs fresh estimator; explicit random_state with shuffle_nodes=True for the Louvain family; distinct by '
                '(algorithm, input, arguments, mode)' % threads)
    ctx.rule += ('; whole-object state probe: every attribute of __dict__ (presence, None-ness, type, shape, booleans) after '
                 'bipartite->square, square->bipartite and tiny->target histories vs a fresh estimator, every registered '
                 'estimator class (KCenters with np.random.seed before each fit); GNNClassifier refit with a validation split')
    ctx.assumptions = ['real thread interleavings are sampled, not enumerated; the for-all over interleavings is the Coq theorem on the model',
                       'KCenters (and the random options of Propagation/Closeness/Spring/ForceAtlas) draw from the global NumPy generator and have no seed parameter: outside the quantifier',
                       'identical = exact for integers and partitions, 1e-12 relative for floats']


def _state_probes(ctx, main, desc, nmax, quick):
    """Search for the static obligation fit_state_reviewed: the WHOLE estimator after a history vs a fresh one."""
    rng = ctx.rng
    for name in sorted(desc):
        d = desc[name]
        if not _is_class(name, desc) or d['seeds'] == 'sources' or name.startswith('GNNClassifier'):
            continue
        kinds = [k for k in d['kinds'] if k != 'bip']
        plans = [('tiny', None, None)]
        if 'bip' in d['kinds'] and kinds:
            plans += [('bip_then_square', 'bip', kinds[0]), ('square_then_bip', kinds[0], 'bip')]
        for plan, k0, k1 in plans:
            for rep in range(1 if quick else 3):
                if plan == 'tiny':
                    spec, opts, fam = prepare(rng, name, d, nmax)
                    spec0 = dict(shape=[3, 3], coo=[[0, 1, 1], [1, 0, 1], [1, 2, 1], [2, 1, 1]], dtype='int', fmt='csr')
                    n0 = 3
                else:
                    spec, nr, nc, fam = cases.make_matrix(rng, 'symconn' if k1 == 'sym' else k1, nmax)
                    opts = cases.make_opts(rng, d, nr, nc, k1 == 'bip')
                    if d['seeded']:
                        opts.setdefault('params', {})['random_state'] = rng.choice([0, 1, 42])
                    spec0, n0, _, _ = cases.make_matrix(rng, 'symconn' if k0 == 'sym' else k0, nmax)
                opts0 = {'params': dict(opts.get('params', {}))}
                if d['seeds'] in ('weights', 'values'):
                    opts0['seeds'] = {'all': {'dict': {'0': 1}}}
                elif d['seeds'] == 'labels':
                    opts0['seeds'] = {'all': {'dict': {'0': 0, '1': 1}}}
                elif d['seeds'] == 'pos_init':
                    opts0['pos_init'] = [[rng.uniform(-1, 1), rng.uniform(-1, 1)] for _ in range(n0)]
                steps = [dict(m=spec0, opts=opts0), dict(m=spec, opts=dict(opts))]
                np_seed = rng.randrange(1000)
                r = main.call('c16', 'state_probe', dict(name=name, steps=steps, np_seed=np_seed), timeout=120)
                ctx.traces += 2
                ctx.count(name + ':state_' + plan, (name, plan, repr(steps)), True)
                if 'ok' not in r:
                    continue
                r = r['ok']
                case = dict(name=name, m=spec, opts=opts, family=fam, earlier=plan, earlier_m=spec0, np_seed=np_seed)
                if r['fresh_err'] is not None:
                    continue        # the target fit is not a valid call: outside the quantifier
                if r['hist_err'] is not None:
                    ctx.violation(name, 'refit after an earlier fit (%s) raises %s, a fresh estimator does not' % (plan, r['hist_err']),
                                  case=case, entry=name, kind='state', attr='<raises>', observed=r['hist_err'])
                    continue
                for attr, what, detail in r['diff'][:3]:
                    # kind 'state': the attribute exists / is set on one side only, or has another type - no source of randomness
                    # can do that; kind 'refit_state': same kind of value with another shape (what an estimator whose result is
                    # not reproducible at all - recorded finding D13, Leiden - also shows)
                    ctx.violation(name, 'attribute %s of the refitted estimator (%s history) differs from a fresh estimator: %s, %s'
                                  % (attr, plan, what, detail), case=case, entry=name,
                                  kind='refit_state' if what == 'shape' else 'state', attr=attr, observed=detail)


def _gnn_validation(ctx, main, nmax, quick):
    """GNNClassifier: fit with a validation split, refit from scratch (reinit=True) on another graph vs fresh classifier."""
    rng = ctx.rng
    for rep in range(4 if quick else 12):
        spec0, n0, _, _ = cases.make_matrix(rng, 'symconn', nmax, nmin=6)
        if rep % 2 == 0:
            # same number of nodes: a surviving mask goes unnoticed by shapes
            spec, n = None, None
            for _ in range(50):
                spec, n, _, _ = cases.make_matrix(rng, 'symconn', nmax, nmin=6)
                if n == n0:
                    break
            if n != n0:
                spec, n = spec0, n0
        else:
            spec, n, _, _ = cases.make_matrix(rng, 'symconn', nmax, nmin=6)
        o0, o = cases.gnn_opts(rng, n0), cases.gnn_opts(rng, n)
        args = dict(m0=spec0, m=spec, o0=dict(features=o0['features'], labels=o0['seeds']['all']['array']),
                    o=dict(features=o['features'], labels=o['seeds']['all']['array']),
                    validation0=rng.choice([0.3, 0.5, 0.7]), validation=rng.choice([0.3, 0.5]), rs0=rng.randrange(100), rs=rng.choice([0, rng.randrange(100)]))
        r = main.call('c16', 'gnn_validation', args, timeout=120)
        ctx.traces += 2
        ctx.count('GNNClassifier:state_validation', ('gnn_validation', repr(args)), True)
        if 'ok' not in r:
            continue
        r = r['ok']
        case = dict(name='GNNClassifier', family='gnn_validation', **args)
        if r['hist_err'] is not None:
            ctx.violation('GNNClassifier', 'refit with reinit=True and a validation split raises after an earlier fit: ' + r['hist_err'],
                          case=case, entry='GNNClassifier', kind='state', attr='val_mask', observed=r['hist_err'])
            continue
        for attr, what, detail in r['diff'][:3]:
            ctx.violation('GNNClassifier', 'refit with reinit=True and a validation split differs from a fresh classifier on %s: %s'
                          % (attr, detail[:300]), case=case, entry='GNNClassifier', kind='state', attr=attr, observed=detail[:300])


def _n_jobs(ctx, main, quick):
    """PageRankClassifier with n_jobs > 1 (the only estimator with a pool of its own): same labels and probabilities as the
    sequential classifier, on every repetition."""
    rng = ctx.rng
    for rep in range(6 if quick else 30):
        # a ring of small cliques, one seed (its own class) in most of them: many classes = many pool tasks
        k, c = rng.randint(6, 14), rng.randint(2, 4)
        n = k * c
        E = set()
        for b in range(k):
            for i in range(c):
                for j in range(i + 1, c):
                    E.add((b * c + i, b * c + j))
            E.add((b * c + c - 1, ((b + 1) % k) * c))
        coo = sorted([i, j, 1] for (a_, b_) in E for (i, j) in ((a_, b_), (b_, a_)))
        labels = [-1] * n
        cls = 0
        for b in range(k):
            if rng.random() < 0.85:
                labels[b * c + rng.randrange(c)] = cls
                cls += 1
        if cls < 2:
            continue
        args = dict(m=dict(shape=[n, n], coo=coo, dtype='int', fmt='csr'), labels=labels, n_jobs=rng.choice([2, 4, 8, -1]),
                    repeat=4 if quick else 8)
        r = main.call('c16', 'n_jobs', args, timeout=180)
        ctx.traces += args['repeat'] + 1
        ctx.count('PageRankClassifier:n_jobs', ('n_jobs', repr(args)), True)
        if 'ok' not in r:
            if 'hang' in r or 'crash' in r:
                ctx.violation('PageRankClassifier', 'fit with n_jobs=%r does not return' % args['n_jobs'], case=dict(name='PageRankClassifier', family='n_jobs', **args),
                              entry='PageRankClassifier', kind='pool', observed={k_: r[k_] for k_ in r if k_ != 'tb'})
            continue
        for which, detail in r['ok']['diff'][:2]:
            ctx.violation('PageRankClassifier', 'fit with n_jobs=%r differs from the sequential fit on the same input (repetition %d): %s'
                          % (args['n_jobs'], which, detail[:300]), case=dict(name='PageRankClassifier', family='n_jobs', **args),
                          entry='PageRankClassifier', kind='pool', observed=detail[:300])


def _python_threads(ctx, main, desc, nmax, quick):
    """Separate estimator objects fitted at the same time in Python threads: nothing is shared between two estimators, so each fit
    is the fit it would be alone (module-level defaults, class attributes and caches are where this breaks)."""
    from ..compare import compare
    rng = ctx.rng
    names = sorted(n for n, d in desc.items() if _is_class(n, desc) and d['deterministic'] and d['seeds'] != 'sources'
                   and not n.startswith('GNNClassifier') and '[' not in n)
    always = [n for n in ('SVD', 'GSVD', 'PCA', 'Spectral', 'HITS', 'PageRank', 'Louvain') if n in names]
    chosen = always + rng.sample([n for n in names if n not in always], min(len(names) - len(always), 6 if quick else len(names)))
    for name in chosen:
        d = desc[name]
        jobs = []
        for _ in range(40):
            spec, opts, fam = prepare(rng, name, d, nmax)
            if cases.degenerate(main, name, spec, opts):
                ctx.margin_dropped += 1
                continue
            jobs.append(dict(name=name, m=spec, opts=opts))
            if len(jobs) == 4:
                break
        if len(jobs) < 2:
            continue
        repeat = (25 if name in always else 6) * (1 if quick else 3)
        slow = name in always and rng.random() < 0.7
        if slow:
            repeat = max(4, repeat // 4)
        r = main.call('c16', 'python_threads', dict(jobs=jobs, repeat=repeat, slow_solvers=slow), timeout=300)
        ctx.traces += 4 * repeat
        ctx.count(name + ':python_threads', ('pythreads', name, repr(jobs)), True)
        if 'ok' not in r:
            if 'hang' in r or 'crash' in r:
                ctx.violation(name, 'concurrent fits of separate estimators in Python threads do not return', case=dict(name=name, family='python_threads', jobs=jobs),
                              entry=name, kind='python_threads', observed={k_: r[k_] for k_ in r if k_ != 'tb'})
            continue
        for t, (ref, outs) in enumerate(zip(r['ok']['ref'], r['ok']['threads'])):
            bad = None
            for k, o in enumerate(outs):
                if ('ok' in ref) != ('ok' in o):
                    bad = (k, 'alone: %s / in a thread: %s' % (ref.get('err', 'a result'), o.get('err', 'a result')))
                    break
                if 'ok' in ref:
                    diff = compare(ref['ok'], o['ok'], rtol=1e-6, atol=1e-8)
                    if diff:
                        bad = (k, '%s: %s' % diff[0])
                        break
            if bad:
                ctx.violation(name, 'a fit running in a Python thread next to fits of OTHER estimator objects differs from the same fit '
                              'run alone (thread %d, repetition %d): %s' % (t, bad[0], bad[1][:200]),
                              case=dict(name=name, family='python_threads', jobs=jobs, thread=t, repeat=repeat, slow_solvers=slow), entry=name,
                              kind='python_threads', observed=bad[1][:300])
                break


def _static_facts(ctx):
    """What the static side saw on this run (Gen/FitState.v is generated from the same analysis)."""
    import os
    import re
    from ..common import COQ
    from ..translate import TranslateError
    from ..translators import fitstate
    try:
        facts, skipped, assumed, accumulators, delegations = fitstate.analyse()
    except (TranslateError, SyntaxError, OSError, KeyError, IndexError, AttributeError, ValueError, TypeError) as e:
        ctx.extra['fit_state_static'] = dict(error=str(e))
        return
    flagged = []
    for f in facts:
        flagged += [[f['cls'], a, 'stale_read'] for a in f['stale_reads']]
        flagged += [[f['cls'], a, 'config_overwritten_read_first'] for a, b in f['over'] if b]
        flagged += [[f['cls'], a, 'stale_output'] for a in f['stale_outputs']]
    # entries of this run that the reviewed literals of Props/C16.v do not contain (named, so that a broken obligation says why)
    try:
        src = open(os.path.join(COQ, 'Props', 'C16.v')).read()
        src = src[src.index('Theorem fit_state_reviewed'):]
        reviewed = set(re.findall(r'\("([^"]+)",\s*"([^"]+)"\)', src))
        reviewed3 = set(re.findall(r'\("([^"]+)",\s*"([^"]+)",\s*"([^"]+)"\)', src))
    except (OSError, ValueError):
        reviewed, reviewed3 = set(), set()
    acc = {tuple(x) for x in accumulators}
    unreviewed = [x for x in flagged if (x[0], x[1]) not in reviewed and (x[0], x[1]) not in acc]
    unreviewed += [[a, b, 'accumulator'] for a, b in accumulators if (a, b) not in reviewed]
    unreviewed += [[a, b, 'delegation ' + m] for a, b, m in delegations if (a, b, m) not in reviewed3]
    if unreviewed:
        msg = 'fit-state entries not in the reviewed lists of fit_state_reviewed: ' + '; '.join('%s.%s (%s)' % tuple(x) for x in unreviewed)
        ctx.notes.append(msg)
        if ctx.proof_broken:
            ctx.proof_broken.append(msg)
    ctx.extra['fit_state_static'] = dict(
        classes=len(facts), config_attributes=sum(len(f['config']) for f in facts),
        config_overwritten=sum(len(f['over']) for f in facts), flagged=flagged, unreviewed=unreviewed,
        accumulators=[list(x) for x in accumulators], delegations=[list(x) for x in delegations],
        entry_assumptions=[list(x) for x in assumed], not_analysed_external_base=skipped)


def _is_class(name, desc):
    return _CLASS_CACHE.setdefault(name, not (name[0].islower()))


_CLASS_CACHE = {}


def _cmp(ctx, name, a, b, case, kind, what):
    if 'hang' in b or 'crash' in b:
        return
    if ('ok' in a) != ('ok' in b):
        ctx.violation(name, what + ' (one raises)', case=case, entry=name, kind=kind, observed=b.get('err'), msg=b.get('msg'))
        return
    bad = compare(a['ok'], b['ok'], rtol=1e-12, atol=1e-14, skip_tags=case.get('skip', ()))
    if bad:
        ctx.violation(name, what + ': ' + bad[0][0], case=case, entry=name, kind=kind, mismatches=bad[:4],
                      first={k: a['ok'].get(k) for k, _ in bad[:1]}, second={k: b['ok'].get(k) for k, _ in bad[:1]})

"""C08 — cuts, aggregation and quality scores agree with the tree they are given.

Correspondence: model (Coq, vm_compute) vs implementation, exact (labels, dendrogram rows, counts, error kind;
metrics to 1e-9).  np.argsort is unstable: its answer is reconstructed from the implementation's labels and
handed to the model as the oracle (the model's theorems hold for every answer satisfying argsort's contract).
Property oracle: written independently in Python, evaluated on the implementation's outputs."""
import itertools
import math
from fractions import Fraction

from ..common import cnat, cbool, clist, copt, safe_coq_eval
from ..impl import Impl

IMPORTS = ['Base.Util', 'Model.Dendrogram', 'Model.Cuts']
PRELUDE = '''
Definition qq (q : Q) : Z * Z := (Qnum q, Zpos (Qden q)).
Definition cvd (D : dendrogram) := map (fun r => (r_left r, r_right r, qq (r_height r), r_size r)) D.
Definition cvl (r : result (list nat * option dendrogram)) : result (list nat * list (nat * nat * (Z * Z) * nat) * list nat) :=
  match r with
  | Ok (l, Some D) => Ok (l, cvd D, [1])
  | Ok (l, None) => Ok (l, [], [0])
  | Err e => Err e
  end.
Definition cva (r : result (dendrogram * option (list nat))) : result (list nat * list (nat * nat * (Z * Z) * nat) * list nat) :=
  match r with
  | Ok (D, Some c) => Ok (c, cvd D, [1])
  | Ok (D, None) => Ok ([], cvd D, [0])
  | Err e => Err e
  end.
Definition cvq (r : result Q) : result (list (Z * Z)) := match r with Ok q => Ok [qq q] | Err e => Err e end.
Definition cvt (r : result (list (Q * Q))) : result (list (Z * Z)) :=
  match r with Ok l => Ok (flat_map (fun x => [qq (fst x); qq (snd x)]) l) | Err e => Err e end.
'''
TOL = 1e-9

# The programs regenerated from postprocess.py (Gen/PyCuts.v, language Model/PyImp.v), run inside Coq on the same inputs.
SRC_IMPORTS = IMPORTS + ['Model.PyImp', 'Gen.PyCuts', 'Proofs.PyCutsProofs', 'Proofs.PyLabelsProofs', 'Proofs.PyCutsEndToEnd']
SRC_PRELUDE = '''
From Coq Require Import String.
Local Open Scope string_scope.
Definition dec_cl (v : val) : list nat :=
  match v with VList l => map (fun x => match x with VInt z => Z.to_nat z | _ => 0 end) l | _ => [] end.
Definition src_out (r : pres (option val)) : nat * list (list nat) :=
  match r with
  | POk (Some (VDict d)) => (0, map (fun kv => dec_cl (snd kv)) d)
  | POk _ => (6, [])
  | PErr PValueError => (1, []) | PErr PIndexError => (2, []) | PErr PKeyError => (3, [])
  | PErr PTypeError => (4, []) | PErr PUnbound => (5, [])
  end.
Definition src_balanced (D : dendrogram) (m : nat) :=
  src_out (run_var src_cut_balanced [("dendrogram", embD D); ("max_cluster_size", vnat m)] "cluster").
Definition src_straight (D0 : dendrogram) (nc : option nat) (th : option Q) (ret : bool) :=
  match cut_input D0 ret with
  | Ok D => src_out (run_var src_cut_straight_core
                       [("dendrogram", embD D); ("n", vnat (S (List.length D))); ("n_clusters", embON nc);
                        ("threshold", embOQ th)] "cluster")
  | Err _ => (7, [])
  end.
'''
SRC_PRELUDE += '''
Definition dec_nat (v : val) : nat := match v with VInt z => Z.to_nat z | _ => 0 end.
Definition dec_row (v : val) : nat * nat * (Z * Z) * nat :=
  match v with
  | VList [a; b; VNum h; s] => (dec_nat a, dec_nat b, (Qnum h, Zpos (Qden h)), dec_nat s)
  | _ => (0, 0, (0%Z, 1%Z), 0)
  end.
Definition src_full_out (ret : bool) (r : pres env) : nat * list nat * list (nat * nat * (Z * Z) * nat) :=
  match r with
  | POk e =>
      match e "labels" with
      | Some (VList l) =>
          (0, map dec_nat l,
           if ret then match e "dendrogram_new" with Some (VList rows) => map dec_row rows | _ => [] end else [])
      | _ => (6, [], [])
      end
  | PErr PValueError => (1, [], []) | PErr PIndexError => (2, [], []) | PErr PKeyError => (3, [], [])
  | PErr PTypeError => (4, [], []) | PErr PUnbound => (5, [], [])
  end.
Definition src_balanced_full (D : dendrogram) (m : nat) (sort ret : bool) (answer : list nat) :=
  src_full_out ret (exec (src_cut_balanced_all ret)
    (env_of [("dendrogram", embD D); ("max_cluster_size", vnat m); ("sort_clusters", VBool sort);
             ("oracle:np.argsort", VList (map vnat answer))])).
Definition src_straight_full (D0 : dendrogram) (nc : option nat) (th : option Q) (sort ret : bool) (answer : list nat) :=
  match cut_input D0 ret with
  | Ok D => src_full_out ret (exec (src_cut_straight_all ret)
              (env_of [("dendrogram", embD D); ("n", vnat (S (List.length D))); ("n_clusters", embON nc);
                       ("threshold", embOQ th); ("sort_clusters", VBool sort);
                       ("oracle:np.argsort", VList (map vnat answer))]))
  | Err _ => (7, [], [])
  end.
'''
SRC_ERR = {1: 'ValueError', 2: 'IndexError', 3: 'KeyError', 7: 'IndexError'}


# ------------------------------------------------------------------------------------------------
# dendrogram generation (never through Paris)
# ------------------------------------------------------------------------------------------------
def merge_orders(n):
    """All sequences of merges of two live ids (unordered pairs) on n leaves."""
    def rec(live, nxt):
        if len(live) == 1:
            yield []
            return
        for a, b in itertools.combinations(live, 2):
            rest = [x for x in live if x != a and x != b] + [nxt]
            for tail in rec(rest, nxt + 1):
                yield [(a, b)] + tail
    return rec(list(range(n)), n)


def random_order(rng, n, shape=None):
    live = list(range(n))
    out = []
    shape = shape or rng.choice(['uniform', 'uniform', 'caterpillar', 'balanced'])
    for t in range(n - 1):
        if shape == 'caterpillar' and t > 0:
            a = n + t - 1
            b = rng.choice([x for x in live if x != a])
        elif shape == 'balanced':
            a, b = live[0], live[1]
        else:
            a, b = rng.sample(live, 2)
        live = [x for x in live if x != a and x != b] + [n + t]
        out.append((a, b))
    return out


def sizes_of(n, pairs):
    size = {i: 1 for i in range(n)}
    for t, (a, b) in enumerate(pairs):
        size[n + t] = size[a] + size[b]
    return [size[n + t] for t in range(len(pairs))]


def heights_for(pattern, n, pairs, rng):
    m = n - 1
    if pattern.startswith('neg_'):
        # heights at or below zero, as the library's own Louvain hierarchies produce (height = -depth): the same shape
        # shifted so that the root sits at 0 ('neg_') or strictly below 0 ('neg_b_')
        below = pattern.startswith('neg_b_')
        hs = heights_for(pattern[6:] if below else pattern[4:], n, pairs, rng)
        top = max(hs) + (Fraction(1, 2) if below else 0)
        return [h - top for h in hs]
    if pattern == 'inc':
        return [Fraction(t + 1) for t in range(m)]
    if pattern == 'tied':
        return [Fraction(1)] * m
    if pattern == 'size':          # tree-monotone, rows possibly not sorted by height
        return [Fraction(s) for s in sizes_of(n, pairs)]
    if pattern == 'depth':         # height = longest path to a leaf: monotone with many ties, rows unsorted
        d = {i: 0 for i in range(n)}
        hs = []
        for t, (a, b) in enumerate(pairs):
            d[n + t] = 1 + max(d[a], d[b])
            hs.append(Fraction(d[n + t]))
        return hs
    if pattern == 'dyadic':
        return [Fraction(2 * t + 1, 4) for t in range(m)]
    if pattern == 'nonmono':       # outside the property's quantifier for the count / threshold claims
        return [Fraction(m - t) for t in range(m)]
    if pattern.startswith('steps'):
        mask = int(pattern[5:])
        hs, h = [], Fraction(1)
        for t in range(m):
            if t > 0 and (mask >> (t - 1)) & 1:
                h += 1
            hs.append(h)
        return hs
    if pattern == 'randsteps':
        hs, h = [], Fraction(rng.choice([0, 1, 1]), 1)
        for t in range(m):
            h += rng.choice([0, 0, Fraction(1, 2), 1])
            hs.append(h)
        return hs
    raise ValueError(pattern)


def make_dendrogram(n, pairs, pattern, rng, orient='random'):
    hs = heights_for(pattern, n, pairs, rng)
    ss = sizes_of(n, pairs)
    rows = []
    for t, (a, b) in enumerate(pairs):
        if orient == 'random' and rng.random() < 0.5:
            a, b = b, a
        rows.append((a, b, hs[t], ss[t]))
    return rows


# ------------------------------------------------------------------------------------------------
# independent reference computations (property oracle)
# ------------------------------------------------------------------------------------------------
def leaves_py(n, rows):
    L = {i: frozenset([i]) for i in range(n)}
    for t, r in enumerate(rows):
        L[n + t] = L[r[0]] | L[r[1]]
    return L


def tree_monotone(n, rows):
    for r in rows:
        for c in (r[0], r[1]):
            if c >= n and rows[c - n][2] > r[2]:
                return False
    return True


def valid_py(ws, rows):
    """Validity of a dendrogram whose leaf i stands for ws[i] samples (independent of the Coq checker)."""
    k = len(ws)
    if len(rows) != k - 1:
        return False
    live = {i: ws[i] for i in range(k)}
    for t, r in enumerate(rows):
        i, j, _, s = r
        if i == j or i not in live or j not in live:
            return False
        if s != live[i] + live[j]:
            return False
        del live[i], live[j]
        live[k + t] = s
    if rows and rows[-1][3] != sum(ws):
        return False
    return True


def clusters_of(labels):
    cl = {}
    for v, l in enumerate(labels):
        cl.setdefault(l, set()).add(v)
    return cl


def dasgupta_brute(n, rows, edges, degree):
    """sum_e w_e * measure(smallest cluster containing both ends) / sum_e w_e."""
    L = leaves_py(n, rows)
    internal = [L[n + t] for t in range(len(rows))]
    w = sum(e[2] for e in edges)
    outw = [sum(e[2] for e in edges if e[0] == u) for u in range(n)]
    inw = [sum(e[2] for e in edges if e[1] == u) for u in range(n)]
    tot = Fraction(0)
    for (u, v, x) in edges:
        best = min((c for c in internal if u in c and v in c), key=len)
        if degree:
            m = Fraction(sum(outw[a] for a in best) + sum(inw[a] for a in best), 2)
        else:
            m = len(best)
        tot += Fraction(x) * m
    return tot / w


# ------------------------------------------------------------------------------------------------
# Gallina literals
# ------------------------------------------------------------------------------------------------
def cqf(x):
    x = Fraction(x)
    return '(%d # %d)%%Q' % (x.numerator, x.denominator)


def cdend(rows):
    return clist(rows, lambda r: '(%d, %d, %s, %d)' % (r[0], r[1], cqf(r[2]), r[3]))


def conv_rows(rows):
    return [[r[0], r[1], Fraction(r[2][0], r[2][1]), r[3]] for r in rows]


def conv_model(v, kind):
    """Coq value -> canonical python, same shape as canon_impl."""
    if v[0] == 'Err':
        return {'err': v[1][0]}
    a, rows, flag = v[1]
    rows = conv_rows(rows)
    if kind == 'aggregate':
        return {'ok': {'dendrogram': rows, 'counts': list(a) if flag == [1] else None}}
    return {'ok': {'labels': list(a), 'dendrogram': rows if flag == [1] else None}}


def canon_impl(r):
    if 'err' in r:
        return {'err': r['err']}
    o = dict(r['ok'])
    if o.get('dendrogram') is not None:
        o['dendrogram'] = [[x[0], x[1], Fraction(x[2]), x[3]] for x in o['dendrogram']]
    return {'ok': o}


def call_expr(c, oracle):
    orc = '(fun _ => %s)' % clist(oracle or [], cnat)
    if c['fn'] == 'straight':
        return 'cvl (cut_straight %s D %s %s %s %s)' % (orc, copt(c.get('n_clusters'), cnat),
                                                         copt(c.get('threshold'), cqf), cbool(c['sort']), cbool(c['ret']))
    if c['fn'] == 'balanced':
        return 'cvl (cut_balanced %s D %d %s %s)' % (orc, c['max_cluster_size'], cbool(c['sort']), cbool(c['ret']))
    return 'cva (aggregate_dendrogram D %d %s)' % (c['n_clusters'], cbool(c['counts']))


def clusters_expr(c):
    if c['fn'] == 'straight':
        return 'straight_clusters D %s %s %s' % (copt(c.get('n_clusters'), cnat), copt(c.get('threshold'), cqf), cbool(c['ret']))
    if c['fn'] == 'balanced':
        return 'balanced_clusters D %d' % c['max_cluster_size']
    return '@Err (list (list nat)) ValueError'


def src_expr(c):
    if c['fn'] == 'straight':
        return 'src_straight D %s %s %s' % (copt(c.get('n_clusters'), cnat), copt(c.get('threshold'), cqf), cbool(c['ret']))
    if c['fn'] == 'balanced':
        return 'src_balanced D %d' % c['max_cluster_size']
    return '(8, @nil (list nat))'


def check_source_terms(ctx, plan, impl_out, valsA):
    """Run the statements regenerated from postprocess.py (cut_balanced's body, cut_straight's core) inside Coq on the
    dendrograms and arguments the implementation just ran: the `cluster` dict they leave must be the model's (theorems
    source_cut_*_is_model say so for all inputs; a difference here means the wrappers of this harness are wrong) AND must be
    the partition the implementation returned (same clusters, same error kind)."""
    exprs = ['let D := %s in [%s]' % (cdend(rows), '; '.join(src_expr(c) for c in calls)) for (fam, n, rows, calls) in plan]
    vals = safe_coq_eval(ctx, 'c08s', SRC_IMPORTS, exprs, prelude=SRC_PRELUDE, shard=60)
    if vals is None:
        return
    n_src = 0
    for k, ((fam, n, rows, calls), got_all, sv_all) in enumerate(zip(plan, impl_out, vals)):
        cl_all = valsA[k] if valsA is not None else [None] * len(calls)
        jrows = [[a, b, str(h), s] for (a, b, h, s) in rows]
        for c, got, sv, clv in zip(calls, got_all, sv_all, cl_all):
            if c['fn'] == 'aggregate':
                continue
            n_src += 1
            code, cls = sv[0], [list(x) for x in sv[1]]
            cj = {k2: (str(v) if isinstance(v, Fraction) else v) for k2, v in c.items()}
            site = 'cut_straight' if c['fn'] == 'straight' else 'cut_balanced'
            if code in (4, 5, 6, 8):
                if len(ctx.proof_broken) < 12:
                    ctx.proof_broken.append('the term regenerated from %s does not run under the semantics of Model/PyImp.v '
                                            '(code %d) on %s %s' % (site, code, jrows, cj))
                continue
            if clv is not None:
                same = (clv[0] == 'Ok' and code == 0 and [list(x) for x in clv[1]] == cls) or \
                       (clv[0] == 'Err' and code != 0 and (code == 7 or clv[1][0] == SRC_ERR[code]))
                if not same and len(ctx.proof_broken) < 12:
                    ctx.proof_broken.append('source term and model disagree on %s %s %s: %r vs %r' % (site, jrows, cj, sv, clv))
            if 'ok' in got:
                want = set(frozenset(x) for x in clusters_of(got['ok']['labels']).values())
                have = set(frozenset(x) for x in cls) if code == 0 else None
                if have != want:
                    ctx.violation(site, 'the implementation returns another partition than the statements regenerated from its '
                                  'own source (run under the semantics of Model/PyImp.v)',
                                  case=dict(n=n, dendrogram=jrows, call=cj),
                                  expected=sorted(sorted(x) for x in cls) if code == 0 else SRC_ERR.get(code),
                                  observed=got, defect='source_term_mismatch', fn=c['fn'], family=fam)
            elif code == 0 and c['ret']:
                pass        # the core returned; the exception comes from get_labels (judged against the model in pass B)
            else:
                if code == 0 or (code != 7 and SRC_ERR.get(code) != got.get('err')):
                    ctx.violation(site, 'the implementation raises where the statements regenerated from its own source return '
                                  '(or raise another error)', case=dict(n=n, dendrogram=jrows, call=cj),
                                  expected=sorted(sorted(x) for x in cls) if code == 0 else SRC_ERR.get(code),
                                  observed=got, defect='source_term_mismatch', fn=c['fn'], family=fam)
    ctx.extra['source_terms_evaluated'] = ctx.extra.get('source_terms_evaluated', 0) + n_src


def src_full_expr(c, oracle):
    orc = clist(oracle or [], cnat)
    if c['fn'] == 'straight':
        return 'src_straight_full D %s %s %s %s %s' % (copt(c.get('n_clusters'), cnat), copt(c.get('threshold'), cqf),
                                                       cbool(c['sort']), cbool(c['ret']), orc)
    if c['fn'] == 'balanced':
        return 'src_balanced_full D %d %s %s %s' % (c['max_cluster_size'], cbool(c['sort']), cbool(c['ret']), orc)
    return '(8, @nil nat, @nil (nat * nat * (Z * Z) * nat))'


def check_source_full(ctx, plan, impl_out, oracles):
    """The WHOLE regenerated functions (cut core + get_labels, theorems source_cut_*_end_to_end) run inside Coq with the
    np.argsort answer reconstructed from the implementation's labels: same labels, same reduced dendrogram, same error kind."""
    exprs = ['let D := %s in [%s]' % (cdend(rows), '; '.join(src_full_expr(c, o) for c, o in zip(calls, orcs)))
             for (fam, n, rows, calls), orcs in zip(plan, oracles)]
    vals = safe_coq_eval(ctx, 'c08f', SRC_IMPORTS, exprs, prelude=SRC_PRELUDE, shard=60)
    if vals is None:
        return
    n_full = 0
    for (fam, n, rows, calls), got_all, sv_all in zip(plan, impl_out, vals):
        jrows = [[a, b, str(h), s] for (a, b, h, s) in rows]
        for c, got, sv in zip(calls, got_all, sv_all):
            if c['fn'] == 'aggregate':
                continue
            n_full += 1
            code, labels, drows = sv[0], sv[1], sv[2]
            cj = {k2: (str(v) if isinstance(v, Fraction) else v) for k2, v in c.items()}
            site = 'cut_straight' if c['fn'] == 'straight' else 'cut_balanced'
            if code in (4, 5, 6, 8):
                if len(ctx.proof_broken) < 12:
                    ctx.proof_broken.append('the whole function regenerated from %s does not run under the semantics of '
                                            'Model/PyImp.v (code %d) on %s %s' % (site, code, jrows, cj))
                continue
            if code == 0:
                exp = {'ok': {'labels': list(labels), 'dendrogram': conv_rows(drows) if c['ret'] else None}}
            else:
                exp = {'err': SRC_ERR[code]}
            if got != exp and not (code == 7 and 'err' in got):
                ctx.violation(site, 'the implementation differs from the whole function regenerated from its own source (cut + '
                              'get_labels, run under the semantics of Model/PyImp.v with the np.argsort answer read back from the '
                              'implementation)', case=dict(n=n, dendrogram=jrows, call=cj), expected=exp, observed=got,
                              defect='source_term_mismatch', fn=c['fn'], family=fam)
    ctx.extra['source_terms_evaluated'] = ctx.extra.get('source_terms_evaluated', 0) + n_full


def thresholds_for(rows, rng, limit):
    hs = sorted(set(r[2] for r in rows))
    ths = [hs[0] - 1, hs[-1] + 1] + hs + [(a + b) / 2 for a, b in zip(hs, hs[1:])]
    if len(ths) > limit:
        ths = rng.sample(ths, limit)
    return ths


def calls_for(n, rows, rng, full):
    """Every admissible argument (full) or a sample of them, plus a few inadmissible ones."""
    calls = []
    flags = [(s, r) for s in (True, False) for r in (False, True)]
    ncs = list(range(1, n + 1)) if full else sorted(set([1, 2, n] + [rng.randint(1, n) for _ in range(3)]))
    ths = thresholds_for(rows, rng, 9 if full else 3)
    mcs = list(range(2, n + 1)) if full else sorted(set([2, n] + [rng.randint(2, n) for _ in range(3)]))
    for (s, r) in flags:
        for k in ncs:
            calls.append(dict(fn='straight', n_clusters=k, threshold=None, sort=s, ret=r))
        calls.append(dict(fn='straight', n_clusters=None, threshold=None, sort=s, ret=r))
        for th in ths:
            calls.append(dict(fn='straight', n_clusters=None, threshold=th, sort=s, ret=r))
        k = rng.randint(2, n)
        calls.append(dict(fn='straight', n_clusters=k, threshold=rng.choice(ths), sort=s, ret=r))
        for m in mcs:
            calls.append(dict(fn='balanced', max_cluster_size=m, sort=s, ret=r))
    for k in ncs:
        for c in (False, True):
            calls.append(dict(fn='aggregate', n_clusters=k, counts=c))
    # malformed stream: model and code must agree on the error kind
    calls.append(dict(fn='straight', n_clusters=0, threshold=None, sort=True, ret=False, malformed=True))
    calls.append(dict(fn='straight', n_clusters=n + 1, threshold=None, sort=True, ret=True, malformed=True))
    calls.append(dict(fn='balanced', max_cluster_size=1, sort=True, ret=False, malformed=True))
    calls.append(dict(fn='balanced', max_cluster_size=n + 1, sort=True, ret=False, malformed=True))
    calls.append(dict(fn='aggregate', n_clusters=0, counts=False, malformed=True))
    calls.append(dict(fn='aggregate', n_clusters=n + 1, counts=True, malformed=True))
    return calls


def impl_call(c):
    d = {k: v for k, v in c.items() if k != 'malformed'}
    if d.get('threshold') is not None:
        d['threshold'] = float(d['threshold'])
    return d


# ------------------------------------------------------------------------------------------------
# property oracle on the implementation's output
# ------------------------------------------------------------------------------------------------
def oracle_cut(ctx, n, rows, fam, c, got, inside):
    """rows: the input dendrogram; got: canonical implementation result; inside: heights tree-monotone."""
    site = 'cut_straight' if c['fn'] == 'straight' else 'cut_balanced'
    case = dict(n=n, dendrogram=rows, call=c)
    if c.get('malformed'):
        return
    base = dict(fn=c['fn'], family=fam, sort_clusters=c['sort'], return_dendrogram=c['ret'])
    if c['ret'] and not inside:
        return     # reorder_dendrogram of a dendrogram with a child above its parent: outside the quantifier
    if 'err' in got:
        if c['fn'] == 'straight' and c.get('n_clusters') == 1:
            ctx.violation(site, 'n_clusters=1 is admissible (at least 1 cluster) but the call raises %s' % got['err'],
                          case=case, expected='a labelling with at least one cluster', observed=got,
                          defect='D6_n_clusters_1_raises', n_clusters=1, **base)
        else:
            ctx.violation(site, 'admissible call raises %s' % got['err'], case=case, expected='a labelling',
                          observed=got, defect='admissible_call_raises', **base)
        return
    labels = got['ok']['labels']
    L = leaves_py(n, rows)
    subtree_sets = set(L.values())
    cl = clusters_of(labels)
    k = len(cl)
    if len(labels) != n or sorted(cl) != list(range(k)):
        ctx.violation(site, 'labels are not 0..k-1 over the n leaves', case=case, observed=labels,
                      defect='labels_not_contiguous', **base)
        return
    for l, members in cl.items():
        if frozenset(members) not in subtree_sets:
            ctx.violation(site, 'a cluster is not the leaf set of a subtree', case=case, observed=labels,
                          cluster=sorted(members), defect='cluster_not_subtree', **base)
            return
    if c['sort']:
        sz = [len(cl[l]) for l in range(k)]
        if any(a < b for a, b in zip(sz, sz[1:])):
            ctx.violation(site, 'labels are not in non-increasing order of cluster size', case=case, observed=labels,
                          sizes=sz, defect='labels_not_sorted_by_size', **base)
    hs = [r[2] for r in rows]
    if c['fn'] == 'straight' and inside:
        nc, th = c.get('n_clusters'), c.get('threshold')
        if th is None:
            want = nc if nc is not None else 2
            if k < want:
                ctx.violation(site, 'fewer clusters than n_clusters', case=case, observed=labels, n_found=k,
                              defect='fewer_than_n_clusters', **base)
            if len(set(hs)) == len(hs) and k != want:
                ctx.violation(site, 'heights are distinct but the number of clusters is not n_clusters', case=case,
                              observed=labels, n_found=k, defect='count_not_exact_with_distinct_heights', **base)
        else:
            for t, r in enumerate(rows):
                if r[2] < th and len({labels[v] for v in L[n + t]}) != 1:
                    ctx.violation(site, 'a merge strictly below the threshold is not applied', case=case,
                                  observed=labels, row=t, defect='merge_below_threshold_not_applied', **base)
                    break
    if c['fn'] == 'balanced':
        if max(len(m) for m in cl.values()) > c['max_cluster_size']:
            ctx.violation(site, 'a cluster is larger than max_cluster_size', case=case, observed=labels,
                          defect='cap_exceeded', **base)
    if c['ret']:
        dn = got['ok']['dendrogram']
        ws = [len(cl[l]) for l in range(k)]
        if not valid_py(ws, dn):
            ctx.violation(site, 'returned dendrogram is not valid over the clusters (sizes = leaf counts, last = n)',
                          case=case, observed=dn, labels=labels, defect='reduced_dendrogram_invalid', **base)
        else:
            # heights kept: exactly the heights of the merges joining two different clusters
            kept = sorted(r[2] for t, r in enumerate(rows)
                          if labels[min(L[r[0]])] != labels[min(L[r[1]])])
            if sorted(r[2] for r in dn) != kept:
                ctx.violation(site, 'returned dendrogram does not keep the heights of the merges above the cut',
                              case=case, observed=dn, expected=kept, defect='reduced_dendrogram_heights', **base)
            # each new leaf l stands for cluster l: leaf sets of the new tree map back to subtrees
            Ln = leaves_py(k, dn)
            for t in range(len(dn)):
                members = frozenset(v for l in Ln[k + t] for v in cl[l])
                if members not in subtree_sets:
                    ctx.violation(site, 'a merge of the returned dendrogram is not a subtree of the input', case=case,
                                  observed=dn, defect='reduced_dendrogram_not_subtree', **base)
                    break


def oracle_aggregate(ctx, n, rows, fam, c, got):
    site = 'aggregate_dendrogram'
    case = dict(n=n, dendrogram=rows, call=c)
    if c.get('malformed'):
        return
    k = c['n_clusters']
    base = dict(fn='aggregate', family=fam, return_counts=c['counts'])
    # the k clusters kept: ids referenced by the last k-1 rows that are created before them
    tail = rows[n - k:]
    ids = sorted({r[0] for r in tail} | {r[1] for r in tail})[:k] if k > 1 else [n + len(rows) - 1]
    true_counts = [1 if x < n else rows[x - n][3] for x in ids]
    has_leaf = any(x < n for x in ids)
    if 'err' in got:
        ctx.violation(site, 'admissible call raises %s' % got['err'], case=case, observed=got,
                      expected=dict(counts=true_counts),
                      defect=('D7_counts_of_original_leaves' if c['counts'] and has_leaf else 'admissible_call_raises'),
                      original_leaf_kept=has_leaf, **base)
        return
    dn = got['ok']['dendrogram']
    if not valid_py(true_counts, dn):
        ctx.violation(site, 'aggregated dendrogram is not valid over the kept clusters', case=case, observed=dn,
                      defect='aggregate_dendrogram_invalid', **base)
    elif [r[2] for r in dn] != [r[2] for r in tail]:
        ctx.violation(site, 'aggregated dendrogram does not keep the heights', case=case, observed=dn,
                      defect='aggregate_dendrogram_heights', **base)
    if c['counts']:
        counts = got['ok']['counts']
        if counts != true_counts:
            if k == 1:
                d = 'D7b_counts_empty_for_one_cluster'
            elif has_leaf:
                d = 'D7_counts_of_original_leaves'
            else:
                d = 'counts_wrong'
            ctx.violation(site, 'counts are not the sizes of the kept subtrees (they must sum to n)', case=case,
                          observed=counts, expected=true_counts, defect=d, original_leaf_kept=has_leaf, **base)


# ------------------------------------------------------------------------------------------------
def run(ctx, scratch):
    rng = ctx.rng
    quick = ctx.tier == 'quick'
    dends = []     # (family, n, rows, full_args)

    # ---- exhaustive: all merge orders on n <= 5 leaves
    for n in (2, 3, 4):
        pats = ['inc', 'tied', 'size', 'depth', 'dyadic', 'neg_depth', 'neg_b_inc'] + ['steps%d' % m for m in range(1, 2 ** (n - 2) - 1)]
        for pairs in merge_orders(n):
            orients = list(itertools.product((0, 1), repeat=n - 1)) if (n <= 3 or not quick) else [None]
            for o in orients:
                for p in pats:
                    if o is None:
                        rows = make_dendrogram(n, pairs, p, rng)
                    else:
                        pp = [(b, a) if f else (a, b) for (a, b), f in zip(pairs, o)]
                        rows = make_dendrogram(n, pp, p, rng, orient='keep')
                    dends.append(('exh%d_%s' % (n, p if not p.startswith('steps') else 'steps'), n, rows, True))
    pats5 = ['inc', 'tied', 'size', 'depth', 'dyadic', 'neg_depth', 'neg_b_size'] + ['steps%d' % m for m in range(1, 7)]
    for pairs in merge_orders(5):
        chosen = [rng.choice(pats5[:2]), rng.choice(pats5[2:])] if quick else pats5
        for p in chosen:
            rows = make_dendrogram(5, pairs, p, rng)
            dends.append(('exh5_%s' % (p if not p.startswith('steps') else 'steps'), 5, rows, True))
    # ---- n = 6: sampled (quick) / every merge order with one height pattern (thorough)
    orders6 = list(merge_orders(6))
    pats6 = ['inc', 'tied', 'size', 'depth', 'dyadic', 'randsteps', 'neg_depth', 'neg_b_randsteps']
    for pairs in (rng.sample(orders6, 60) if quick else orders6):
        p = rng.choice(pats6)
        dends.append(('exh6_%s' % p, 6, make_dendrogram(6, pairs, p, rng), quick))
    # ---- random valid dendrograms up to 40 leaves
    for _ in range(60 if quick else 600):
        n = rng.randint(7, 40 if not quick or rng.random() < 0.3 else 16)
        pairs = random_order(rng, n)
        p = rng.choice(['inc', 'tied', 'size', 'depth', 'dyadic', 'randsteps', 'randsteps', 'neg_depth', 'neg_b_randsteps'])
        dends.append(('rnd_%s' % p, n, make_dendrogram(n, pairs, p, rng), False))
    # ---- dendrograms over aggregated leaves (what cut_straight / cut_balanced(return_dendrogram=True) and aggregate_dendrogram
    #      return: leaf i stands for ws[i] original nodes, and the size column counts original nodes, not leaves): cutting a cut.
    #      Cluster sizes, the order of the labels and the sizes of a returned dendrogram are about the LEAVES of the dendrogram given
    for _ in range(30 if quick else 300):
        n = rng.randint(3, 12)
        pairs = random_order(rng, n)
        rows = make_dendrogram(n, pairs, rng.choice(['inc', 'tied', 'size', 'randsteps']), rng)
        ws = [rng.randint(1, 5) for _ in range(n)]
        size = {i: ws[i] for i in range(n)}
        rows2 = []
        for t, (a, b, h, _) in enumerate(rows):
            size[n + t] = size[a] + size[b]
            rows2.append((a, b, h, size[n + t]))
        dends.append(('aggregated_leaves', n, rows2, False))
    # ---- outside the quantifier (a child merge above its parent): correspondence only for the claims on heights
    for _ in range(20 if quick else 200):
        n = rng.randint(3, 8)
        dends.append(('outside_nonmono', n, make_dendrogram(n, random_order(rng, n), 'nonmono', rng), False))

    plan = []      # per dendrogram: (fam, n, rows, calls)
    for (fam, n, rows, full) in dends:
        calls = calls_for(n, rows, rng, full)
        if fam == 'aggregated_leaves':
            # only the cuts: aggregate_dendrogram copies the size column of its input while it counts leaves, so on such input its
            # own two outputs are about different things (not judged; the cuts are consistently about leaves)
            calls = [c_ for c_ in calls if c_['fn'] != 'aggregate']
        plan.append((fam, n, rows, calls))

    # ---- implementation
    impl_out = []
    with Impl(scratch) as impl:
        for (fam, n, rows, calls) in plan:
            r = impl.call('c08', 'cuts', dict(D=[[a, b, float(h), s] for (a, b, h, s) in rows],
                                              calls=[impl_call(c) for c in calls]), timeout=60)
            ctx.traces += len(calls)
            if 'ok' not in r:
                ctx.violation('worker', 'implementation worker failed', case=dict(n=n, dendrogram=rows), observed=r,
                              defect='worker_failure')
                impl_out.append([{'err': 'Worker'}] * len(calls))
            else:
                impl_out.append([canon_impl(x) for x in r['ok']])
        met_cases, met_out = metric_cases(ctx, rng, quick), []
        for mc in met_cases:
            r = impl.call('c08', 'metrics', dict(n=mc['n'], edges=[[u, v, float(w)] for (u, v, w) in mc['edges']], dtype=mc['dtype'],
                                                 D=[[a, b, float(h), s] for (a, b, h, s) in mc['rows']]), timeout=60)
            ctx.traces += 10
            met_out.append(r.get('ok'))

    # ---- pass A: the clusters in dict order, to reconstruct argsort's answer from the implementation's labels
    exprsA = []
    for (fam, n, rows, calls) in plan:
        exprsA.append('let D := %s in [%s]' % (cdend(rows), '; '.join(clusters_expr(c) for c in calls)))
    # (model dead -- recorded in ctx.proof_broken by safe_coq_eval: no model diff, the property oracles below still judge every output)
    valsA = safe_coq_eval(ctx, 'c08a', IMPORTS, exprsA, prelude=PRELUDE, shard=60)
    check_source_terms(ctx, plan, impl_out, valsA)
    exprsB = []
    n_oracle_fallback = 0
    oracles_all = []
    for (fam, n, rows, calls), got_all, cl_all in zip(plan, impl_out, valsA or []):
        parts = []
        oracles_all.append([])
        for c, got, clv in zip(calls, got_all, cl_all):
            oracle = None
            if c['fn'] != 'aggregate' and c['sort'] and clv[0] == 'Ok':
                cl0 = [frozenset(x) for x in clv[1]]
                oracle = sorted(range(len(cl0)), key=lambda p: -len(cl0[p]))   # fallback: stable
                if 'ok' in got:
                    byl = clusters_of(got['ok']['labels'])
                    try:
                        cand = [cl0.index(frozenset(byl[l])) for l in range(len(byl))]
                        if sorted(cand) == list(range(len(cl0))):
                            oracle = cand
                        else:
                            n_oracle_fallback += 1
                    except (KeyError, ValueError):
                        n_oracle_fallback += 1
            parts.append(call_expr(c, oracle))
            oracles_all[-1].append(oracle)
        exprsB.append('let D := %s in [%s]' % (cdend(rows), '; '.join(parts)))
    valsB = safe_coq_eval(ctx, 'c08b', IMPORTS, exprsB, prelude=PRELUDE, shard=60) if valsA is not None else None
    if valsB is None:
        valsB = [None] * len(plan)
    if valsA is not None:
        check_source_full(ctx, plan, impl_out, oracles_all)

    # ---- diff + property oracle
    kshown = 0
    for (fam, n, rows, calls), got_all, mod_all in zip(plan, impl_out, valsB):
        inside = tree_monotone(n, rows)
        jrows = [[a, b, str(h), s] for (a, b, h, s) in rows]
        for c, got, mv in zip(calls, got_all, mod_all if mod_all is not None else [None] * len(calls)):
            exp = conv_model(mv, c['fn']) if mv is not None else None
            key = (c['fn'], jrows, sorted((k, str(v)) for k, v in c.items()))
            ctx.count('%s:%s' % (c['fn'], 'malformed' if c.get('malformed') else fam), key,
                      nontrivial=(n >= 3 and not c.get('malformed')))
            cj = {k: (str(v) if isinstance(v, Fraction) else v) for k, v in c.items()}
            if mv is not None and got != exp:
                ctx.violation({'straight': 'cut_straight', 'balanced': 'cut_balanced', 'aggregate': 'aggregate_dendrogram'}[c['fn']],
                              'implementation differs from the model', case=dict(n=n, dendrogram=jrows, call=cj),
                              expected=exp, observed=got, defect='model_mismatch', fn=c['fn'], family=fam)
            if c['fn'] == 'aggregate':
                oracle_aggregate(ctx, n, rows, fam, cj, got)
            else:
                oracle_cut(ctx, n, rows, fam, dict(cj, threshold=c.get('threshold')) if c['fn'] == 'straight' else cj, got, inside)
            if kshown < 4 and c['fn'] != 'aggregate' and n >= 4 and c['ret'] and 'ok' in got:
                ctx.sample(dict(family=fam, n=n, dendrogram=jrows, call=cj, model=exp, impl=got))
                kshown += 1
    ctx.extra['argsort_oracle_fallbacks'] = n_oracle_fallback
    check_metrics(ctx, met_cases, met_out)

    ctx.rule = ('dendrograms generated directly (never through Paris): every merge order on n<=5 leaves (every left/right '
                'orientation for n<=3, and for n=4 in the thorough tier, random otherwise) x height patterns '
                '{strictly increasing, all tied, every tie pattern, size, depth (unsorted rows), dyadic}; n=6 sampled '
                '(quick) / every merge order (thorough); random caterpillar / balanced / uniform trees up to 40 leaves; x every '
                'admissible n_clusters 1..n, threshold below / equal / between / above the heights, max_cluster_size 2..n, '
                'sort_clusters, return_dendrogram, return_counts, and inadmissible arguments (error kind must agree); '
                'a few dendrograms with a child above its parent (outside the quantifier: model diff only for the height '
                'claims). Metrics: random weighted graphs (integer and dyadic weights, undirected / directed / with '
                'self-loops / disconnected) x random valid dendrograms. distinct = hash of (entry point, dendrogram, '
                'arguments); non-trivial = at least 3 leaves and admissible arguments')
    ctx.rule += ' Source terms: the statements regenerated from postprocess.py (the cut cores alone, and the whole functions cut + get_labels with the np.argsort answer read back from the implementation) are executed inside Coq on every one of these calls and compared with the implementation (evidence key source_terms_evaluated).'
    ctx.assumptions = ['ids and sizes of the input dendrogram are integers stored as floats; heights are dyadic rationals so '
                       'that float -> Q is exact',
                       'valid dendrogram = n-1 rows merging two distinct live ids, size column = leaves below; the claims on '
                       'n_clusters / threshold and reorder_dendrogram additionally need a parent never lower than its child',
                       'np.argsort (unstable) is an oracle: its answer is read off the implementation output and its contract '
                       '(a permutation sorting -sizes) is checked by the size-order oracle',
                       'Dasgupta: no self-loop in the graphs on which the smallest-common-cluster spec is compared; volume of '
                       'a cluster = (out-volume + in-volume)/2, compared on undirected graphs only',
                       'np.log trusted; tree sampling divergence bounds are checked at run time only (no theorem: partial)',
                       'AggregateGraph casts sum(data) to a C float: weights are small integers / dyadics so the cast is exact',
                       'reorder_dendrogram (return_dendrogram=True on unsorted heights): the theorems take the validity of the '
                       'reordered dendrogram as a hypothesis (C07 reorder_valid); the harness checks it on every such case']


# ------------------------------------------------------------------------------------------------
# metrics
# ------------------------------------------------------------------------------------------------
def metric_cases(ctx, rng, quick):
    cases = []
    for idx in range(120 if quick else 1200):
        n = rng.randint(2, 7 if quick else 12)
        kind = rng.choice(['undirected', 'undirected', 'undirected', 'directed', 'loops', 'sparse'])
        p = rng.choice([0.3, 0.6, 0.9]) if kind != 'sparse' else 0.15
        wk = rng.choice(['unit', 'int', 'dyadic'])

        def wt():
            if wk == 'unit':
                return Fraction(1)
            if wk == 'int':
                return Fraction(rng.randint(1, 5))
            return rng.choice([Fraction(1, 2), Fraction(1), Fraction(3, 2), Fraction(2), Fraction(1, 4), Fraction(3)])
        E = {}
        for u in range(n):
            for v in range(u + 1, n):
                if rng.random() < p:
                    x = wt()
                    if kind == 'directed':
                        if rng.random() < 0.5:
                            E[(u, v)] = x
                        else:
                            E[(v, u)] = x
                        if rng.random() < 0.3:
                            E[(v, u) if (u, v) in E else (u, v)] = wt()
                    else:
                        E[(u, v)] = x
                        E[(v, u)] = x
        if kind == 'loops':
            for u in range(n):
                if rng.random() < 0.4:
                    E[(u, u)] = wt()
        if not E:
            E[(0, 1)] = Fraction(1)
            E[(1, 0)] = Fraction(1)
        pairs = random_order(rng, n)
        rows = make_dendrogram(n, pairs, rng.choice(['inc', 'tied', 'size', 'randsteps']), rng)
        # storage dtype of the adjacency (the values are exactly representable in every one of them): the metrics symmetrise their
        # input with directed2undirected, which must keep fractional weights of any floating dtype and must not wrap narrow integers
        dt = rng.choice({'unit': ['float64', 'bool', 'int64', 'float32', 'int32'], 'int': ['float64', 'int64', 'float32', 'int32', 'uint8'],
                         'dyadic': ['float64', 'float32', 'float32', 'float64_dup']}[wk] + (['float64_dup'] if kind != 'directed' else []))
        cases.append(dict(n=n, kind=kind, weights=wk, edges=sorted((u, v, x) for (u, v), x in E.items()), rows=rows, dtype=dt))
    return cases


def close(a, b):
    return abs(a - b) <= TOL * max(1.0, abs(a), abs(b))


def check_metrics(ctx, cases, outs):
    exprs_cost, exprs_tsd = [], []
    for mc in cases:
        G = clist(mc['edges'], lambda e: '(%d, %d, %s)' % (e[0], e[1], cqf(e[2])))
        D = cdend(mc['rows'])
        pre = 'let G := %s in let D := %s in let n := %d in ' % (G, D, mc['n'])
        exprs_cost.append(pre + '[cvq (dasgupta_cost false n G D false); cvq (dasgupta_cost true n G D false); '
                                'cvq (dasgupta_cost false n G D true); cvq (dasgupta_cost true n G D true); '
                                'cvq (dasgupta_score false n G D); cvq (dasgupta_score true n G D)]')
        exprs_tsd.append(pre + '[cvt (tsd_terms false n G D); cvt (Ok (mi_terms false n G)); '
                               'cvt (tsd_terms true n G D); cvt (Ok (mi_terms true n G))]')
    vc = safe_coq_eval(ctx, 'c08m', IMPORTS, exprs_cost, prelude=PRELUDE, shard=40)
    vt = safe_coq_eval(ctx, 'c08t', IMPORTS, exprs_tsd, prelude=PRELUDE, shard=40)
    # None entries: model dead; the brute-force Dasgupta oracle and the range checks do not need it
    vc = vc if vc is not None else [None] * len(cases)
    vt = vt if vt is not None else [None] * len(cases)
    shown = 0
    for mc, out, mcost, mtsd in zip(cases, outs, vc, vt):
        n, kind = mc['n'], mc['kind']
        case = dict(n=n, dtype=mc['dtype'], edges=[[u, v, str(w)] for (u, v, w) in mc['edges']],
                    dendrogram=[[a, b, str(h), s] for (a, b, h, s) in mc['rows']])
        ctx.count('metrics:%s_%s' % (kind, mc['weights']), ('metrics', case), nontrivial=n >= 3)
        if out is None:
            ctx.violation('metrics', 'implementation worker failed', case=case, defect='worker_failure')
            continue

        for key, second in (out.get('same_object') or {}).items():
            first = out.get(key)
            if first is None:
                continue
            same = ('ok' in first) == ('ok' in second) and ('ok' not in first or close(first['ok'], second['ok']))
            if not same:
                ctx.violation('tree_sampling_divergence' if 'tsd' in key else 'dasgupta_cost',
                              '%s computed on a matrix object that earlier metric calls have used differs from the value on a fresh '
                              'matrix' % key, case=case, expected=first, observed=second, defect='same_object_sequence', metric=key,
                              family=kind)

        def q(v):
            return None if v[0] == 'Err' else Fraction(v[1][0][0], v[1][0][1])
        names = ['cost_uniform', 'cost_degree', 'ncost_uniform', 'ncost_degree', 'score_uniform', 'score_degree']
        for name, mv in zip(names, mcost or []):
            exp, got = q(mv), out[name]
            site = 'dasgupta_score' if name.startswith('score') else 'dasgupta_cost'
            if exp is None or 'ok' not in got:
                if not (exp is None and 'err' in got):
                    ctx.violation(site, 'model and implementation disagree on failure', case=case, expected=str(mv),
                                  observed=got, defect='model_mismatch', metric=name, family=kind)
                continue
            if not close(float(exp), got['ok']):
                ctx.violation(site, 'implementation differs from the exact-rational model', case=case,
                              expected=float(exp), observed=got['ok'], defect='model_mismatch', metric=name, family=kind)
        # property oracle: brute-force smallest common cluster (no self-loops; volume on undirected graphs)
        if kind != 'loops':
            for degree in (False, True):
                if degree and kind == 'directed':
                    continue
                name = 'cost_degree' if degree else 'cost_uniform'
                if 'ok' in out[name]:
                    want = dasgupta_brute(n, mc['rows'], mc['edges'], degree)
                    if not close(float(want), out[name]['ok']):
                        ctx.violation('dasgupta_cost', 'cost is not the edge-weighted average %s of the smallest cluster '
                                      'containing both ends' % ('volume' if degree else 'size'), case=case,
                                      expected=float(want), observed=out[name]['ok'], defect='dasgupta_not_lca_average',
                                      metric=name, family=kind)
        for name in ('score_uniform', 'score_degree', 'tsd_uniform', 'tsd_degree'):
            got = out[name]
            site = 'dasgupta_score' if name.startswith('score') else 'tree_sampling_divergence'
            if 'ok' not in got:
                ctx.violation(site, 'admissible call raises', case=case, observed=got, defect='admissible_call_raises',
                              metric=name, family=kind)
            elif not (-TOL <= got['ok'] <= 1 + TOL) or math.isnan(got['ok']):
                ctx.violation(site, 'score outside [0, 1]', case=case, observed=got['ok'], defect='score_out_of_range',
                              metric=name, family=kind)
        # tree sampling divergence vs the model's terms (np.log trusted)
        for w, (tt, mi) in ((('uniform', (mtsd[0], mtsd[1])), ('degree', (mtsd[2], mtsd[3]))) if mtsd is not None else ()):
            if tt[0] == 'Err':
                continue
            tl = [Fraction(a, b) for (a, b) in tt[1]]
            ml = [Fraction(a, b) for (a, b) in mi[1]]
            score = sum(float(a) * math.log(float(a / b)) for a, b in zip(tl[0::2], tl[1::2]))
            mut = sum(float(a) * math.log(float(a / b)) for a, b in zip(ml[0::2], ml[1::2]))
            for name, want in (('utsd_' + w, score), ('tsd_' + w, score / mut if mut > 0 else score)):
                got = out[name]
                if abs(mut) < 1e-7 and name.startswith('tsd'):
                    ctx.margin_dropped += 1     # normalisation by a mutual information at round-off level
                    continue
                if 'ok' in got and not close(want, got['ok']):
                    ctx.violation('tree_sampling_divergence', 'implementation differs from the model (log trusted)',
                                  case=case, expected=want, observed=got['ok'], defect='model_mismatch', metric=name,
                                  family=kind)
        if shown < 2 and n >= 4:
            ctx.sample(dict(family='metrics_' + kind, case=case, impl={k: v.get('ok') for k, v in out.items()},
                            model_cost=[str(q(v)) for v in mcost or []]))
            shown += 1

"""C12 — connectivity, bipartiteness and cycle functions: model (Coq, vm_compute) vs implementation, plus a
brute-force property oracle (Python, independent of the model) on the implementation's outputs."""
import itertools

from .. import gen
from ..common import cnat, cbool, clist, copt, coq_eval, safe_coq_eval, CoqEvalError
from ..impl import Impl

IMPORTS = ['Base.Util', 'Model.Bfs', 'Model.Structure', 'Model.Cycles', 'Gen.CyclesCode']
GEN_FILES = ['CyclesCode.v']
PRELUDE = '''
Definition show_largest (r : result (pmat * list nat)) : result (nat * graph * list nat) :=
  match r with Ok (m, i) => Ok (p_ncol m, p_rows m, i) | Err e => Err e end.
Definition show_bip (r : result (bool * option (pmat * list nat * list nat)))
  : result (bool * option (nat * graph * list nat * list nat)) :=
  match r with
  | Ok (b, Some (m, rw, cl)) => Ok (b, Some (p_ncol m, p_rows m, rw, cl))
  | Ok (b, None) => Ok (b, None)
  | Err e => Err e
  end.
'''


# ------------------------------------------------------------------------------------------------
# literals
# ------------------------------------------------------------------------------------------------
def cgraph(n, E):
    return clist(gen.rows_of(n, sorted(E)), lambda r: clist(r, cnat))


def cpmat(nrow, ncol, E):
    return '{| p_ncol := %d; p_rows := %s |}' % (ncol, cgraph(nrow, E))


def cnats(l):
    return clist(l, cnat)


def cdir(d):
    return copt(d, cbool)


def mspec(nrow, ncol, E, dtype='int', w=None):
    if w is None:
        coo = [[i, j, 1] for (i, j) in sorted(E)]
    else:
        coo = [[i, j, w[(i, j)]] for (i, j) in sorted(E)]
    return {'shape': [nrow, ncol], 'coo': coo, 'dtype': dtype, 'fmt': 'csr'}


# ------------------------------------------------------------------------------------------------
# brute-force oracles (independent of the model)
# ------------------------------------------------------------------------------------------------
def adj_of(n, E):
    a = [set() for _ in range(n)]
    for (i, j) in E:
        a[i].add(j)
    return a


def closure(n, adj):
    """reach[u][v]: a walk (possibly empty) from u to v; Warshall."""
    r = [[u == v or v in adj[u] for v in range(n)] for u in range(n)]
    for k in range(n):
        rk = r[k]
        for u in range(n):
            if r[u][k]:
                ru = r[u]
                for v in range(n):
                    if rk[v]:
                        ru[v] = True
    return r


def partition_bf(n, E, strong):
    if strong:
        r = closure(n, adj_of(n, E))
        rel = lambda u, v: r[u][v] and r[v][u]
    else:
        r = closure(n, adj_of(n, gen.sym(E)))
        rel = lambda u, v: r[u][v]
    return frozenset(frozenset(v for v in range(n) if rel(u, v)) for u in range(n))


def partition_of(labels):
    cl = {}
    for i, l in enumerate(labels):
        cl.setdefault(l, set()).add(i)
    return frozenset(frozenset(s) for s in cl.values())


def block_edges(nrow, ncol, E):
    """[[0,B],[B^T,0]] on nrow+ncol nodes."""
    out = set()
    for (i, j) in E:
        out.add((i, nrow + j))
        out.add((nrow + j, i))
    return sorted(out)


def is_sym(E):
    s = set(E)
    return all((j, i) in s for (i, j) in s)


def two_colourable_bf(n, E):
    for c in itertools.product((0, 1), repeat=n):
        if all(c[i] != c[j] for (i, j) in E):
            return True
    return False


def acyclic_directed_bf(n, E):
    """Kahn's algorithm (a self-loop is a cycle)."""
    indeg = [0] * n
    adj = adj_of(n, E)
    for (i, j) in set(E):
        indeg[j] += 1
    todo = [v for v in range(n) if indeg[v] == 0]
    seen = 0
    while todo:
        u = todo.pop()
        seen += 1
        for v in adj[u]:
            indeg[v] -= 1
            if indeg[v] == 0:
                todo.append(v)
    return seen == n


def acyclic_undirected_bf(n, E):
    """Union-find over the undirected edges (a self-loop is a cycle)."""
    parent = list(range(n))

    def find(x):
        while parent[x] != x:
            x = parent[x]
        return x
    for (i, j) in sorted({(min(e), max(e)) for e in E}):
        if i == j:
            return False
        a, b = find(i), find(j)
        if a == b:
            return False
        parent[a] = b
    return True


def cycles_directed_bf(n, E):
    """All simple directed cycles (length 1 = self-loop, 2 = opposite edges, ...), each as the tuple
    starting at its smallest node."""
    adj = adj_of(n, E)
    out = set()

    def ext(s, path, on):
        u = path[-1]
        for v in adj[u]:
            if v == s:
                out.add(tuple(path))
            elif v > s and v not in on:
                on.add(v)
                path.append(v)
                ext(s, path, on)
                path.pop()
                on.discard(v)
    for s in range(n):
        ext(s, [s], {s})
    return out


def canon_dir(c):
    k = c.index(min(c))
    return tuple(c[k:] + c[:k])


def canon_und(c):
    a = canon_dir(list(c))
    b = canon_dir(list(reversed(c)))
    return min(a, b)


def genuine_cycle(n, E, c, directed):
    s = set(E)
    if len(c) == 0 or len(set(c)) != len(c) or any(not (0 <= v < n) for v in c):
        return False
    if not directed and len(c) == 2:
        return False
    return all((c[k], c[(k + 1) % len(c)]) in s for k in range(len(c)))


def reach_set(n, E, roots):
    adj = adj_of(n, E)
    seen = set(r for r in roots if 0 <= r < n)
    todo = list(seen)
    while todo:
        u = todo.pop()
        for v in adj[u]:
            if v not in seen:
                seen.add(v)
                todo.append(v)
    return seen


# ------------------------------------------------------------------------------------------------
# conversion of Coq values
# ------------------------------------------------------------------------------------------------
def conv(v, f=lambda x: x):
    if v[0] == 'Err':
        return {'err': v[1][0]}
    return {'ok': f(v[1])}


def edges_of_rows(rows):
    return sorted({(i, j) for i, r in enumerate(rows) for j in r})


def conv_largest(x):
    ncol, rows, index = x
    return {'shape': [len(rows), ncol], 'edges': edges_of_rows(rows), 'index': list(index)}


def conv_bip(x):
    b, rest = x
    if rest is None:
        return {'value': b, 'biadjacency': None, 'rows': None, 'cols': None}
    ncol, rows, rw, cl = rest[1]
    return {'value': b, 'biadjacency': {'shape': [len(rows), ncol], 'edges': edges_of_rows(rows)},
            'rows': list(rw), 'cols': list(cl)}


def norm(r):
    """Workers return exceptions as values (with the oracle answers captured before them)."""
    if 'ok' in r and isinstance(r['ok'], dict) and 'exc' in r['ok']:
        return {'err': r['ok']['exc'], 'msg': r['ok'].get('msg'), 'oracle': r['ok'].get('oracle', [])}
    return r


# ------------------------------------------------------------------------------------------------
def run(ctx, scratch):
    rng = ctx.rng
    quick = ctx.tier == 'quick'
    cases = []   # dicts: kind, fam, fn, args, meta

    def add(kind, fam, fn, args, **meta):
        cases.append(dict(kind=kind, fam=fam, fn=fn, args=args, meta=meta))

    def battery(fam, n, E, roots_all=False, light=False):
        """All entry points on the square pattern (n, E)."""
        E = sorted(set(E))
        sym = is_sym(E)
        dt = rng.choice(['int', 'int', 'float'])
        # float storage: one weight for every edge, of any magnitude (the entry points read only the pattern: an arc of weight 1e-9
        # is an arc, and a digraph with such arcs is not an undirected graph)
        wv = rng.choice([1, 1, 2.5, 1e-9, 2.0 ** -40, 1e12]) if dt == 'float' else 1
        m = mspec(n, n, E, dtype=dt, w=None if wv == 1 else {e: wv for e in E})
        base = dict(n=n, E=E, sym=sym)
        for connection in ('weak', 'strong'):
            a = dict(m=m, connection=connection)
            add('comp', fam, 'components', a, nrow=n, ncol=n, fb=False, **base)
            add('conn', fam, 'connected', a, nrow=n, ncol=n, fb=False, **base)
            add('largest', fam, 'largest', a, nrow=n, ncol=n, fb=False, **base)
        if sym or rng.random() < 0.15:
            add('bip', fam, 'bipartite', dict(m=m), **base)
        flags = [None, True, False] if (sym or rng.random() < 0.2) else [None, True]
        for d in flags:
            add('acyc', fam, 'acyclic', dict(m=m, directed=d), **base)
            add('cyc', fam, 'cycles', dict(m=m, directed=d), **base)
        # break_cycles: all int roots, list roots, inferred and explicit flag
        subsets = [list(c) for k in range(1, n + 1) for c in itertools.combinations(range(n), k)]
        int_roots = list(range(n))
        if light and n > 3:
            int_roots = rng.sample(int_roots, 3)
        roots = [{'int': r} for r in int_roots]
        lists = subsets if (roots_all and len(subsets) <= 15) else rng.sample(subsets, min(len(subsets), 2))
        roots += [l if rng.random() < 0.8 else list(reversed(l)) for l in lists]
        for root in roots:
            bflags = [None, True] if sym else [None]
            if rng.random() < (0.5 if sym else 0.15):
                bflags.append(False if sym or rng.random() < 0.5 else True)
            for d in bflags:
                args = dict(m=m, root=root, directed=d)
                starts = sorted({i for (i, j) in E})
                if starts and rng.random() < 0.2:
                    args['prior_root'] = rng.choice(starts)
                add('break', fam, 'breakc', args, **base)

    # ---- exhaustive undirected graphs with optional self-loops
    def und_with_loops(n, loops=True):
        for S in gen.all_undirected(n):
            for k in range(1 << n if loops else 1):
                yield gen.sym(S) + [(i, i) for i in range(n) if k >> i & 1]

    for n in (1, 2, 3):
        for E in und_with_loops(n):
            battery('exh_und_%d' % n, n, E, roots_all=True)
    g4 = list(und_with_loops(4))
    if quick:
        g4 = rng.sample(g4, 320)
    for E in g4:
        battery('exh_und_4', 4, E, roots_all=not quick, light=quick)
    g5 = list(und_with_loops(5, loops=False))
    g5 = rng.sample(g5, 120) if quick else g5
    for E in g5:
        battery('exh_und_5', 5, E, light=True)
    for _ in range(50 if quick else 800):
        S = rng.choice(g5 if not quick else list(und_with_loops(5, loops=False)))
        E = sorted(set(S) | {(i, i) for i in range(5) if rng.random() < 0.3})
        battery('exh_und_5_loops', 5, E, light=True)
    # ---- undirected graphs made of several small components (tree-like and cyclic ones, in any order), roots in some of them only:
    #      every component without a root must be traversed as well (its SciPy label is a small integer, as node ids are)
    shapes = {'single': (1, []), 'edge': (2, [(0, 1)]), 'path3': (3, [(0, 1), (1, 2)]), 'triangle': (3, [(0, 1), (1, 2), (0, 2)]),
              'cycle4': (4, [(0, 1), (1, 2), (2, 3), (0, 3)]), 'k4': (4, [(i, j) for i in range(4) for j in range(i + 1, 4)])}
    for _ in range(40 if quick else 400):
        comps = [rng.choice(['edge', 'edge', 'path3', 'triangle', 'triangle', 'cycle4', 'k4', 'single']) for _ in range(rng.randint(2, 4))]
        n, E = 0, []
        for c_ in comps:
            sz, ed = shapes[c_]
            E += [(n + a_, n + b_) for (a_, b_) in ed] + [(n + b_, n + a_) for (a_, b_) in ed]
            n += sz
        if E:
            battery('und_components_' + '+'.join(comps), n, E, light=True)
    # ---- exhaustive digraphs with loops n <= 3, sampled n = 4
    for n in (1, 2):
        for E in gen.all_directed(n, loops=True):
            battery('exh_dir_%d' % n, n, E, roots_all=True)
    g3 = list(gen.all_directed(3, loops=True))
    if quick:
        g3 = rng.sample(g3, 200)
    for E in g3:
        battery('exh_dir_3', 3, E, roots_all=not quick)
    pairs4 = [(i, j) for i in range(4) for j in range(4)]
    for _ in range(120 if quick else 1500):
        loops = rng.random() < 0.3
        E = [p for p in pairs4 if (loops or p[0] != p[1]) and rng.random() < rng.choice([0.2, 0.4, 0.6])]
        battery('exh_dir_4', 4, E, light=True)
    # ---- structured random graphs (n <= 9: cycle enumeration is exponential)
    for _ in range(150 if quick else 900):
        directed = rng.random() < 0.5
        fam = rng.choice(gen.FAMILIES)
        nmax = 7 if quick else 9
        if fam in ('gnp_dense', 'clique', 'two_cliques', 'union'):
            nmax = 6 if quick else 7
        n, E, fam = gen.random_graph(rng, nmax, directed=directed, family=fam)
        battery('rnd_%s_%s' % ('dir' if directed else 'und', fam), n, E, light=True)
    # ---- biadjacency input: components / connected / largest on the block adjacency
    bip_cases = []
    for (r, c) in ((1, 2), (2, 1), (2, 2), (2, 3), (3, 2), (3, 3)):
        mats = list(gen.all_biadj(r, c))
        lim = 25 if quick else 512
        if len(mats) > lim:
            mats = rng.sample(mats, lim)
        bip_cases += [(r, c, E, 'exh_biadj') for E in mats]
    for _ in range(40 if quick else 400):
        r, c, E = gen.random_biadj(rng, 5 if quick else 7, 5 if quick else 7)
        bip_cases.append((r, c, E, 'rnd_biadj'))
    for (r, c, E, fam) in bip_cases:
        fb = True if r == c else rng.random() < 0.5
        m = mspec(r, c, E)
        for connection in ('weak', 'strong'):
            a = dict(m=m, connection=connection, force_bipartite=fb)
            meta = dict(nrow=r, ncol=c, fb=fb, n=r, E=sorted(E), sym=False)
            add('comp', fam, 'components', a, **meta)
            add('conn', fam, 'connected', a, **meta)
            add('largest', fam, 'largest', a, **meta)
    # ---- malformed stream: same error kind in model and code
    for _ in range(20 if quick else 100):
        n, E, fam = gen.random_graph(rng, 5, directed=True)
        E = sorted(set(E))
        m = mspec(n, n, E)
        which = rng.choice(['root_oob', 'root_sink', 'not_sym', 'empty'])
        base = dict(n=n, E=E, sym=is_sym(E))
        if which == 'root_oob':
            add('break', 'malformed_root_oob', 'breakc', dict(m=m, root={'int': n + rng.randint(0, 2)}, directed=None), **base)
        elif which == 'root_sink':
            sinks = [v for v in range(n) if not any(i == v for (i, j) in E)]
            if sinks:
                add('break', 'malformed_root_sink', 'breakc', dict(m=m, root={'int': rng.choice(sinks)}, directed=None), **base)
        elif which == 'not_sym' and not is_sym(E):
            add('acyc', 'malformed_not_sym', 'acyclic', dict(m=m, directed=False), **base)
            add('cyc', 'malformed_not_sym', 'cycles', dict(m=m, directed=False), **base)
            add('bip', 'malformed_not_sym', 'bipartite', dict(m=m), **base)
        else:
            m0 = mspec(n, n, [])
            base0 = dict(n=n, E=[], sym=True, nrow=n, ncol=n, fb=False)
            add('comp', 'malformed_empty', 'components', dict(m=m0, connection='weak'), **base0)
            add('conn', 'malformed_empty', 'connected', dict(m=m0, connection='strong'), **base0)
            add('largest', 'malformed_empty', 'largest', dict(m=m0, connection='weak'), **base0)
    # ---- fractional weights (property oracle only; the model is a pattern model)
    weighted = []
    for _ in range(10 if quick else 60):
        n, E, fam = gen.random_graph(rng, 5, directed=True, family=rng.choice(['cycle', 'gnp_dense', 'clique']),
                                     allow_loops=False)
        E = sorted(set(E))
        if not E:
            continue
        w = {e: rng.choice([0.5, 0.25, 0.75, 1.5]) for e in E}
        roots = [v for v in range(n) if any(i == v for (i, j) in E)]
        weighted.append(dict(n=n, E=E, w=w, root=rng.choice(roots)))

    # ---- run the implementation (captures the oracle's label vectors)
    results = []
    with Impl(scratch) as impl:
        for c in cases:
            results.append(norm(impl.call('c12', c['fn'], c['args'], timeout=120)))
            ctx.traces += 1
        wres = []
        for wc in weighted:
            wres.append(norm(impl.call('c12', 'breakc', dict(m=mspec(wc['n'], wc['n'], wc['E'], dtype='float', w=wc['w']),
                                                         root={'int': wc['root']}, directed=True), timeout=60)))
            ctx.traces += 1

    # ---- model expressions (with the captured oracle answers)
    def oracle_labels(r, k, n):
        o = r['oracle'] if 'oracle' in r else (r.get('ok', {}).get('oracle', []) if isinstance(r.get('ok'), dict) else [])
        return o[k]['labels'] if k < len(o) else [0] * 0

    exprs = {k: [] for k in ('comp', 'conn', 'largest', 'bip', 'acyc', 'cyc', 'break')}
    index = {k: [] for k in exprs}
    for i, (c, r) in enumerate(zip(cases, results)):
        k, a, mt = c['kind'], c['args'], c['meta']
        if k in ('comp', 'conn', 'largest'):
            pm = cpmat(mt['nrow'], mt['ncol'], mt['E'])
            comp = cnats(oracle_labels(r, 0, None))
            fn = {'comp': 'get_connected_components', 'conn': 'is_connected', 'largest': 'get_largest_connected_component'}[k]
            e = '%s %s %s %s' % (fn, pm, cbool(mt['fb']), comp)
            if k == 'largest':
                e = 'show_largest (%s)' % e
        elif k == 'bip':
            e = 'show_bip (is_bipartite %s)' % cgraph(mt['n'], mt['E'])
        elif k in ('acyc', 'cyc'):
            fn = {'acyc': 'is_acyclic', 'cyc': 'get_cycles'}[k]
            e = '%s %s %s %s' % (fn, cgraph(mt['n'], mt['E']), cdir(a['directed']), cnats(oracle_labels(r, 0, None)))
        else:
            loops = any(x == y for (x, y) in mt['E'])
            # with a self-loop is_acyclic answers before consulting the oracle
            symm = mt['sym']
            first_reaches_oracle = not loops and not (a['directed'] is False and not symm)
            comp1 = oracle_labels(r, 0, None) if first_reaches_oracle else []
            comp2 = oracle_labels(r, 1 if first_reaches_oracle else 0, None)
            root = a['root']
            rl = [root['int']] if isinstance(root, dict) else list(root)
            e = 'break_cycles bc_und_visits_other_components %s %s %s %s %s' % (cgraph(mt['n'], mt['E']), cnats(rl), cdir(a['directed']),
                                                  cnats(comp1), cnats(comp2))
        exprs[k].append(e)
        index[k].append(i)
    convs = {'comp': lambda v: conv(v, list), 'conn': conv, 'largest': lambda v: conv(v, conv_largest),
             'bip': lambda v: conv(v, conv_bip), 'acyc': conv, 'cyc': lambda v: conv(v, lambda l: [list(x) for x in l]),
             'break': lambda v: conv(v, edges_of_rows)}
    model = [None] * len(cases)
    model_dead = set()
    for k in exprs:
        if not exprs[k]:
            continue
        try:
            vals = coq_eval('c12' + k, IMPORTS, exprs[k], prelude=PRELUDE, shard=300, timeout=1500)
        except CoqEvalError as exc:
            # the model (or a generated term it uses) no longer evaluates: the correspondence is broken, but the
            # property oracles below still search the implementation's outputs for a concrete failing input
            ctx.proof_broken.append('model evaluation failed for %s: %s' % (k, str(exc)[-400:]))
            model_dead.add(k)
            continue
        for i, v in zip(index[k], vals):
            model[i] = convs[k](v)

    # ---- diff and property oracle
    site_of = {'comp': 'get_connected_components', 'conn': 'is_connected', 'largest': 'get_largest_connected_component',
               'bip': 'is_bipartite', 'acyc': 'is_acyclic', 'cyc': 'get_cycles', 'break': 'break_cycles'}
    contract_checked = 0
    for i, (c, r, mo) in enumerate(zip(cases, results, model)):
        k, fam, a, mt = c['kind'], c['fam'], c['args'], c['meta']
        site = site_of[k]
        n, E = mt['n'], mt['E']
        key = (k, c['args'])
        nontrivial = len(E) > 0 and not fam.startswith('malformed')
        ctx.count(k + ':' + fam, key, nontrivial)
        if 'hang' in r or 'crash' in r:
            ctx.violation(site, 'implementation did not return (%s)' % ('hang' if 'hang' in r else 'crash'),
                          case=a, check='oracle', family=fam)
            continue
        # oracle contract of every captured connected_components answer, on the graph of the case
        # (the captured call is made on the case's adjacency or on it without self-loops: same partition)
        if True:
            for o in (r['oracle'] if 'oracle' in r else (r['ok'].get('oracle', []) if isinstance(r.get('ok'), dict) else [])):
                strong = o['directed'] and o['connection'] == 'strong'
                if k in ('comp', 'conn', 'largest') and (mt['fb'] or mt['nrow'] != mt['ncol']):
                    gE, gn = block_edges(mt['nrow'], mt['ncol'], E), mt['nrow'] + mt['ncol']
                else:
                    gE, gn = E, n
                contract_checked += 1
                if len(o['labels']) != gn or partition_of(o['labels']) != partition_bf(gn, gE, strong):
                    ctx.violation('scipy.connected_components', 'oracle contract violated (trusted base)', case=a,
                                  observed=o, check='oracle_contract', family=fam)
        # ---------- model vs implementation
        got = None
        if 'err' in r:
            got = {'err': r['err']}
        else:
            v = r['ok']
            if k == 'comp':
                got = {'ok': v['labels']}
            elif k == 'conn':
                got = {'ok': v['value']}
            elif k == 'largest':
                got = {'ok': {'shape': v['matrix']['shape'], 'edges': sorted(tuple(e) for e in v['matrix']['edges']),
                              'index': v['index']}}
            elif k == 'bip':
                b = v['biadjacency']
                got = {'ok': {'value': v['value'], 'rows': v['rows'], 'cols': v['cols'],
                              'biadjacency': None if b is None else {'shape': b['shape'], 'edges': sorted(tuple(e) for e in b['edges'])}}}
            elif k == 'acyc':
                got = {'ok': v['value']}
            elif k == 'cyc':
                got = {'ok': v['cycles']}
            else:
                got = {'ok': sorted(tuple(e) for e in v['matrix']['edges'])}
        exp = mo if mo is not None else {}     # {} : block of a dead model (no 'ok' / 'err' key: the refinements below skip)
        same = got == exp
        if k == 'cyc' and 'ok' in got and 'ok' in exp:
            d = a['directed'] if a['directed'] is not None else not mt['sym']
            canon = (lambda cs: sorted(canon_dir(list(x)) for x in cs)) if d else (lambda cs: sorted(tuple(sorted(x)) for x in cs))
            same = canon(got['ok']) == canon(exp['ok'])
        if k == 'comp' and 'ok' in got and 'ok' in exp:
            same = partition_of(got['ok']) == partition_of(exp['ok'])
        if not same and k == 'break' and n > 8 and 'ok' in got and 'ok' in exp and \
                (a['directed'] if a['directed'] is not None else not mt['sym']):
            # directed break_cycles iterates Python sets of node ids; ids >= 8 may collide modulo the
            # hash-table size, so CPython's iteration order is not the increasing order the model uses
            ctx.margin_dropped += 1
            same = True
        if not same and k not in model_dead:
            ctx.violation(site, 'implementation differs from the model (%s)' % fam, case=a, expected=exp, observed=got,
                          check='model', family=fam)
        if i % 1500 == 0:
            ctx.sample(dict(kind=k, family=fam, args=a, model=mo, impl=got))
        # ---------- property oracle on the implementation's output
        if fam.startswith('malformed'):
            continue
        if 'err' in r:
            # documented errors only: empty graph (components), explicit directed=False on a non-symmetric matrix,
            # is_bipartite on a non-symmetric matrix, root without outgoing edge on a cyclic graph
            ok_err = False
            if k in ('comp', 'conn', 'largest') and len(E) == 0 and r['err'] == 'ValueError':
                ok_err = True
            if k in ('acyc', 'cyc', 'break') and a.get('directed') is False and not mt['sym'] and r['err'] == 'ValueError':
                ok_err = True
            if k == 'bip' and not mt['sym'] and r['err'] == 'ValueError':
                ok_err = True
            if k == 'break' and r['err'] == 'ValueError':
                root = a['root']
                rl = [root['int']] if isinstance(root, dict) else list(root)
                if not any(x in rl for (x, y) in E):
                    ok_err = True
            if not ok_err:
                ctx.violation(site, 'unexpected exception on a valid input', case=a, observed=r, check='oracle', family=fam)
            continue
        v = r['ok']
        if k in ('comp', 'conn', 'largest'):
            strong = a['connection'] == 'strong'
            bip = mt['fb'] or mt['nrow'] != mt['ncol']
            gE, gn = (block_edges(mt['nrow'], mt['ncol'], E), mt['nrow'] + mt['ncol']) if bip else (E, n)
            part = partition_bf(gn, gE, strong and not bip) if not bip else partition_bf(gn, gE, False)
            if k == 'comp':
                if len(v['labels']) != gn or partition_of(v['labels']) != part:
                    ctx.violation(site, 'labels are not the %s components' % a['connection'], case=a,
                                  expected=sorted(sorted(s) for s in part), observed=v['labels'], check='oracle', family=fam)
            elif k == 'conn':
                if v['value'] != (len(part) == 1):
                    ctx.violation(site, 'is_connected disagrees with %s connectivity' % a['connection'], case=a,
                                  expected=len(part) == 1, observed=v['value'], check='oracle', family=fam)
            else:
                shape = v['matrix']['shape']
                idx = v['index']
                edges = set(tuple(e) for e in v['matrix']['edges'])
                S = set(E)
                if bip:
                    ir, ic = idx[:shape[0]], idx[shape[0]:]
                    nodes = frozenset(ir) | frozenset(mt['nrow'] + j for j in ic)
                    induced = {(x, y) for x in range(len(ir)) for y in range(len(ic)) if (ir[x], ic[y]) in S}
                    good = len(ic) == shape[1] and len(idx) == len(nodes)
                else:
                    nodes = frozenset(idx)
                    induced = {(x, y) for x in range(len(idx)) for y in range(len(idx)) if (idx[x], idx[y]) in S}
                    good = shape == [len(idx), len(idx)] and len(idx) == len(nodes)
                good = good and nodes in part and len(nodes) == max(len(s) for s in part) and edges == induced
                if not good or not v['plain_same']:
                    ctx.violation(site, 'not the induced sub-matrix of a largest %s component on the returned index' % a['connection'],
                                  case=a, observed=v, check='oracle', family=fam)
        elif k == 'bip':
            S = set(E)
            want = not any(x == y for (x, y) in E) and two_colourable_bf(n, E)
            good = v['value'] == want and v['plain'] == want
            if good and want:
                rw, cl = v['rows'], v['cols']
                b = v['biadjacency']
                good = sorted(rw + cl) == list(range(n)) and \
                    not any((x, y) in S for x in rw for y in rw) and not any((x, y) in S for x in cl for y in cl) and \
                    b['shape'] == [len(rw), len(cl)] and \
                    set(tuple(e) for e in b['edges']) == {(x, y) for x in range(len(rw)) for y in range(len(cl)) if (rw[x], cl[y]) in S}
            if good and not want:
                good = v['biadjacency'] is None and v['rows'] is None and v['cols'] is None
            if not good:
                ctx.violation(site, 'is_bipartite is not "loop-free and 2-colourable", or its biadjacency does not reassemble the graph',
                              case=a, expected=want, observed=v, check='oracle', family=fam)
        elif k in ('acyc', 'cyc'):
            d = a['directed'] if a['directed'] is not None else not mt['sym']
            want_acyclic = acyclic_directed_bf(n, E) if d else acyclic_undirected_bf(n, E)
            if k == 'acyc':
                if v['value'] != want_acyclic:
                    ctx.violation(site, 'is_acyclic disagrees with brute force', case=a, expected=want_acyclic,
                                  observed=v['value'], check='oracle', family=fam, branch='directed' if d else 'undirected')
            else:
                cs = v['cycles']
                canon = [canon_dir(list(x)) if d else canon_und(list(x)) for x in cs]
                why = None
                if not all(genuine_cycle(n, E, x, d) for x in cs):
                    why = 'a returned list is not a simple cycle of the input'
                elif len(set(canon)) != len(canon):
                    why = 'duplicate cycles (up to rotation%s)' % ('' if d else ' / orientation')
                elif (len(cs) == 0) != want_acyclic:
                    why = 'no cycle returned iff acyclic fails'
                elif d and set(canon) != cycles_directed_bf(n, E):
                    why = 'not all simple directed cycles are returned'
                if why:
                    ctx.violation(site, why, case=a, observed=cs, check='oracle', family=fam,
                                  expected=sorted(cycles_directed_bf(n, E)) if d else None,
                                  branch='directed' if d else 'undirected')
        else:
            d = a['directed'] if a['directed'] is not None else not mt['sym']
            root = a['root']
            rl = [root['int']] if isinstance(root, dict) else list(root)
            bc_oracle(ctx, site, fam, a, n, E, rl, d, v)
    # ---- fractional weights
    for wc, r in zip(weighted, wres):
        a = dict(n=wc['n'], edges=[[i, j, wc['w'][(i, j)]] for (i, j) in wc['E']], root=wc['root'], directed=True)
        ctx.count('break:weights_fractional', ('w', a['edges'], a['root']), True)
        if 'ok' not in r:
            ctx.violation('break_cycles', 'exception / no answer on a weighted digraph', case=a, observed=r,
                          check='oracle', weights='fractional', family='weights_fractional')
            continue
        bc_oracle(ctx, 'break_cycles', 'weights_fractional', a, wc['n'], wc['E'], [wc['root']], True, r['ok'],
                  weights='fractional')
    ctx.extra['oracle_contract_checks'] = contract_checked
    ctx.extra['set_order_cases_dropped_from_model_diff'] = ctx.margin_dropped
    variant = safe_coq_eval(ctx, 'c12var', IMPORTS, ['bc_und_visits_other_components'])      # informational only
    variant = variant[0] if variant is not None else None
    ctx.extra['model_variant'] = {'bc_und_visits_other_components (Gen/CyclesCode.v, re-extracted from cycles.py)': variant}
    ctx.notes.append('proved for all inputs (model): is_bipartite sound/complete/total, is_connected, largest component, '
                     'is_acyclic directed and undirected (forest_iff_count), get_cycles sound / complete (directed) / empty iff '
                     'acyclic; BOUNDED (all graphs on <= 4 nodes, vm_compute): break_cycles postcondition; beyond that bound '
                     'break_cycles is judged by the run-time brute-force oracle only')
    ctx.notes.append('undirected get_cycles: completeness is not demanded by the property (cycles sharing a node set are merged); '
                     'checked: genuine, duplicate-free, none iff acyclic')
    ctx.rule = ('exhaustive: all undirected graphs with optional self-loops on n<=3 (n=4: all in thorough, sampled in quick; '
                'n=5 loop-free all in thorough / sampled, with loops sampled), all digraphs with loops n<=3 (n=3 sampled in '
                'quick), sampled digraphs n=4; every graph goes through components/is_connected/largest (weak and strong), '
                'is_bipartite, is_acyclic and get_cycles (directed inferred / True / False), break_cycles (every int root, '
                'list roots, inferred and explicit flag); structured random graphs n<=9 (13 families, directed and not); '
                'biadjacency inputs up to 3x3 and random up to 7x7 for the component functions; malformed stream; '
                'fractional weights for break_cycles (oracle only). SciPy label vectors captured from the real calls are the '
                'model\'s oracle argument and are themselves checked against brute force. distinct by hash of (kind, '
                'arguments); non-trivial = at least one edge and not malformed')
    ctx.assumptions = ['roots are non-negative ints or lists of them (negative indices wrap in NumPy: outside the model)',
                       'model diff on 0/1 patterns in canonical CSR (sorted indices, no explicit zeros); weights only in '
                       'the fractional-weight family, judged by the oracle alone',
                       'break_cycles (directed) iterates Python sets of node ids < 9: CPython yields them in increasing '
                       'order except for ids >= 8 colliding modulo the table size; model diff there is limited to n <= 8',
                       'connected_components is an oracle (contract checked at run time on every captured answer)']


def bc_oracle(ctx, site, fam, a, n, E, rl, d, v, **extra):
    S = set(E)
    out = [tuple(e) for e in v['matrix']['edges']]
    branch = 'directed' if d else 'undirected'
    if v['matrix']['shape'] != [n, n] or not set(out) <= S:
        ctx.violation(site, 'result is not a subgraph of the input', case=a, observed=v, check='oracle', family=fam,
                      branch=branch, failed='subgraph', **extra)
    if not d and not is_sym(out):
        ctx.violation(site, 'undirected branch returned a non-symmetric matrix', case=a, observed=v, check='oracle',
                      family=fam, branch=branch, failed='symmetric', **extra)
    acyc = acyclic_directed_bf(n, out) if d else acyclic_undirected_bf(n, out)
    if not acyc:
        # where does a cycle survive? (components of the input that contain no root)
        part = partition_bf(n, E, False)
        rooted = set()
        for s in part:
            if any(x in s for x in rl):
                rooted |= s
        rest = [e for e in out if e[0] in rooted]
        inside = not (acyclic_directed_bf(n, rest) if d else acyclic_undirected_bf(n, rest))
        ctx.violation(site, 'result still has a cycle (%s)' % ('in a component containing a root' if inside else
                                                                'only in components containing no root'),
                      case=a, observed=v, check='oracle', family=fam, branch=branch, failed='acyclic',
                      surviving_cycle='component_with_root' if inside else 'component_without_root', **extra)
    before = reach_set(n, E, rl)
    after = reach_set(n, out, rl)
    if not before <= after:
        ctx.violation(site, 'a node reachable from the root is no longer reachable', case=a, observed=v,
                      lost=sorted(before - after), check='oracle', family=fam, branch=branch, failed='reachability', **extra)
    if not v.get('input_unchanged', True):
        ctx.notes.append('break_cycles modified its argument (C01 territory, not judged here)')

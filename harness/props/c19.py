"""C19 — GNN layers compute the documented message passing and consistent gradients.

(a) Convolution.forward: exact-Q model (Coq, vm_compute) vs implementation on the Q-exact combinations
    (identity / ReLu activation; `both` through a checked table of square roots), every combination against an
    independent evaluation of activation(N(A) X W + b) written from the property text, and renumbering
    equivariance on the implementation itself.
(b) activation.gradient / loss.loss_gradient vs central finite differences of the implementation's own
    output / loss (a test supporting the search), and vs the modelled closed forms evaluated in Coq on the
    implementation's own output (correspondence of the coded formula).
(c) UniformNeighborSampler vs the model on the recorded choice stream; GNNClassifier end to end.
"""
import itertools
import math
from fractions import Fraction

from .. import gen
from ..common import cnat, cq, cbool, clist, safe_coq_eval
from ..impl import Impl

IMPORTS = ['Base.Util', 'Model.Gnn']
# rationals are printed as (numerator, denominator) pairs: Coq prints dyadic Q literals in hexadecimal notation
PRELUDE = ('Definition qout (q : Q) : Z * Z := let r := Qred q in (Qnum r, Zpos (Qden r)).\n'
           'Definition mout (m : list (list Q)) : list (list (Z * Z)) := map (map qout) m.\n')
NORMS = ['left', 'right', 'both']
ACTS = ['identity', 'relu', 'sigmoid', 'softmax', 'ce', 'bce']
COQ_NORM = {'left': 'NLeft', 'right': 'NRight', 'both': 'NBoth'}
COQ_ACT = {'identity': 'Identity', 'relu': 'Relu', 'sigmoid': 'Sigmoid', 'softmax': 'Softmax',
           'ce': 'CrossEntropyLoss', 'bce': 'BinaryCrossEntropyLoss'}


# ------------------------------------------------------------------------------------------------
# numeric helpers
# ------------------------------------------------------------------------------------------------
def close(a, b, tol=1e-9):
    if a is None or b is None or isinstance(a, str) or isinstance(b, str):
        return False
    if math.isnan(a) or math.isnan(b):
        return False
    return abs(a - b) <= tol * max(1.0, abs(a), abs(b))


def mat_close(A, B, tol=1e-9):
    if not isinstance(A, list) or not isinstance(B, list) or len(A) != len(B):
        return False
    for ra, rb in zip(A, B):
        if not isinstance(ra, list) or not isinstance(rb, list) or len(ra) != len(rb):
            return False
        if not all(close(x, y, tol) for x, y in zip(ra, rb)):
            return False
    return True


def fd_close(a, b):
    """analytic vs central finite differences: rel 1e-5 with an absolute floor of 1e-6."""
    if math.isnan(a) or math.isnan(b):
        return False
    return abs(a - b) <= 1e-6 + 1e-5 * max(abs(a), abs(b))


def fd_mat_close(A, B):
    return len(A) == len(B) and all(len(r) == len(s) and all(fd_close(x, y) for x, y in zip(r, s)) for r, s in zip(A, B))


def dyadic(rng, lo, hi, den=4):
    return rng.randint(lo * den, hi * den) / den


def qmat(M):
    return clist(M, lambda r: clist(r, cq))


def to_float(M):
    """matrix of (numerator, denominator) pairs printed by Coq -> floats"""
    return [[float(Fraction(x[0], x[1])) for x in r] for r in M]


# ------------------------------------------------------------------------------------------------
# independent evaluation of activation(N(A) X W + b), from the property text
# ------------------------------------------------------------------------------------------------
def spec_forward(n, triples, X, W, b, norm, self_emb, use_bias, act):
    A = [[0.0] * n for _ in range(n)]
    for i, j, w in triples:
        A[i][j] += w
    deg = [sum(A[i]) for i in range(n)]      # out-weights (as coded: adjacency.dot(ones)) for all three

    def pinv(x):
        return 0.0 if x == 0 else 1.0 / x

    N = [[0.0] * n for _ in range(n)]
    for i in range(n):
        for j in range(n):
            if norm == 'left':
                N[i][j] = pinv(deg[i]) * A[i][j]
            elif norm == 'right':
                N[i][j] = A[i][j] * pinv(deg[j])
            else:
                N[i][j] = pinv(math.sqrt(deg[i])) * A[i][j] * pinv(math.sqrt(deg[j]))
        if self_emb:
            N[i][i] += 1.0
    d = len(W)
    o = len(W[0]) if W else len(b)
    out = []
    for i in range(n):
        msg = [sum(N[i][j] * X[j][c] for j in range(n)) for c in range(d)]
        emb = [sum(msg[c] * W[c][k] for c in range(d)) + (b[k] if use_bias else 0.0) for k in range(o)]
        if act == 'identity':
            row = emb
        elif act == 'relu':
            row = [max(x, 0.0) for x in emb]
        elif act in ('sigmoid', 'bce'):
            row = [1.0 / (1.0 + math.exp(-x)) for x in emb]
        else:
            m = max(emb)
            e = [math.exp(x - m) for x in emb]
            s = sum(e)
            row = [x / s for x in e]
        out.append(row)
    return out


# ------------------------------------------------------------------------------------------------
# case construction
# ------------------------------------------------------------------------------------------------
def make_features(rng, n, d, sparse):
    X = [[(dyadic(rng, -2, 2, 2) if rng.random() < (0.45 if sparse else 0.9) else 0.0) for _ in range(d)] for _ in range(n)]
    if sparse:
        spec = {'sparse': {'shape': [n, d], 'coo': [[i, c, X[i][c]] for i in range(n) for c in range(d) if X[i][c] != 0],
                           'dtype': 'float', 'fmt': 'csr'}}
    else:
        spec = {'dense': X, 'shape': [n, d]}
    return X, spec


def feats_lit(X, d, sparse):
    if sparse:
        return '(Sparse %d %s)' % (d, clist(X, lambda r: clist([(c, v) for c, v in enumerate(r) if v != 0],
                                                               lambda e: '(%d, %s)' % (e[0], cq(e[1])))))
    return '(Dense %d %s)' % (d, qmat(X))


def smat_lit(n, triples):
    rows = [[] for _ in range(n)]
    for i, j, w in triples:
        rows[i].append((j, w))
    return clist(rows, lambda r: clist(r, lambda e: '(%d, %s)' % (e[0], cq(e[1]))))


def layer_lit(case):
    return ('{| l_norm := %s; l_self := %s; l_use_bias := %s; l_act := %s; l_out := %d; l_weight := %s; l_bias := %s |}'
            % (COQ_NORM[case['norm']], cbool(case['self_embeddings']), cbool(case['use_bias']), COQ_ACT[case['act']],
               case['out'], qmat(case['weight']), clist(case['bias'], cq) if case['use_bias'] else '[]'))


def sqrt_table(n, triples):
    """Gallina square-root oracle: a table on the distinct out-weights, entries from math.sqrt (checked)."""
    deg = {}
    for i, j, w in triples:
        deg[i] = deg.get(i, Fraction(0)) + Fraction(w)
    vals = sorted(set(deg.values()))
    ok = True
    body = '0%Q'
    for v in reversed(vals):
        s = Fraction(math.sqrt(float(v)))
        if abs(s * s - v) > Fraction(1, 10 ** 12) * v:
            ok = False
        body = 'if Qeq_bool x %s then %s else %s' % (cq(v), cq(s), body)
    return '(fun x : Q => %s)' % body, ok


def permute_case(case, p):
    n = case['n']
    c2 = dict(case)
    c2['triples'] = sorted([p[i], p[j], w] for i, j, w in case['triples'])
    X2 = [None] * n
    for i in range(n):
        X2[p[i]] = case['X'][i]
    c2['X'] = X2
    return c2


def impl_args(case):
    n, d = case['n'], case['d']
    X = case['X']
    if case['sparse']:
        feats = {'sparse': {'shape': [n, d], 'coo': [[i, c, X[i][c]] for i in range(n) for c in range(d) if X[i][c] != 0],
                            'dtype': 'float', 'fmt': 'csr'}}
    else:
        feats = {'dense': X, 'shape': [n, d]}
    extra = {'prior_factors': case['prior_factors']} if case.get('prior_factors') else {}
    return dict(extra, adjacency={'shape': [n, n], 'coo': case['triples'], 'dtype': 'float', 'fmt': case['fmt']},
                features=feats, out=case['out'], use_bias=case['use_bias'], norm=case['norm'], norm_spelling=['lower', 'title', 'lower', 'upper'][(n + d + len(case['triples'])) % 4],
                self_embeddings=case['self_embeddings'], act=case['act'], weight=case['weight'], bias=case['bias'],
                **{'in': d})


def new_case(rng, fam, n, edges, directed, combo):
    norm, self_emb, use_bias, act, sparse = combo
    triples, kind = gen.random_weights(rng, edges, directed=directed)
    if rng.random() < 0.15:
        # the same graph with some rows (all rows when undirected) in units 2^60 times larger: out-weights of order 1e-18.  N(A) is
        # invariant under such a change of units of a row ('left') / of the whole graph; a node of out-weight 1e-18 is not isolated
        rows = {i for i in range(n) if rng.random() < 0.5} if (directed and norm == 'left') else set(range(n))
        triples = [(i, j, w * 2.0 ** -60 if i in rows else w) for (i, j, w) in triples]
        kind += '_tiny'
    d = rng.randint(1, 4)
    o = rng.randint(1, 3)
    X, _ = make_features(rng, n, d, sparse)
    W = [[dyadic(rng, -2, 2) for _ in range(o)] for _ in range(d)]
    b = [dyadic(rng, -2, 2) for _ in range(o)]
    prior = [rng.choice([1, 2, 3, 5]) for _ in triples] if (len(triples) >= 2 and rng.random() < 0.15) else None
    return dict(prior_factors=prior, family=fam, n=n, triples=[[i, j, float(w)] for i, j, w in triples], d=d, out=o, X=X, sparse=sparse,
                weight=W, bias=b, norm=norm, norm_spelling=rng.choice(['lower', 'lower', 'title', 'upper']), self_embeddings=self_emb, use_bias=use_bias, act=act,
                fmt=rng.choice(['csr', 'csr', 'csr_unsorted']), weights_kind=kind)


# ------------------------------------------------------------------------------------------------
def run(ctx, scratch):
    rng = ctx.rng
    quick = ctx.tier == 'quick'
    nmax = 8 if quick else 10
    combos = list(itertools.product(NORMS, [False, True], [False, True], ACTS, [False, True]))

    # ============================ (a) layer forward ============================================
    cases = []
    for n in (1, 2, 3):
        graphs = list(gen.all_directed(n, loops=True))
        if n == 3:
            graphs = rng.sample(graphs, 40 if quick else 300)
        for E in graphs:
            for norm in NORMS:
                for self_emb in (False, True):
                    combo = (norm, self_emb, rng.random() < 0.5, rng.choice(ACTS), rng.random() < 0.5)
                    cases.append(new_case(rng, 'exh_dir_%d' % n, n, E, True, combo))
    for _ in range(5 if quick else 50):
        order = list(combos)
        rng.shuffle(order)
        for combo in order:
            directed = rng.random() < 0.5
            n, E, fam = gen.random_graph(rng, nmax, directed=directed)
            cases.append(new_case(rng, 'rnd_' + fam, n, E, directed, combo))

    # model inside Coq for the Q-exact combinations
    exact_idx = [i for i, c in enumerate(cases) if c['act'] in ('identity', 'relu')]
    exprs = []
    sqrt_bad = 0
    for i in exact_idx:
        c = cases[i]
        sq = '(fun x : Q => x)'
        if c['norm'] == 'both':
            sq, ok = sqrt_table(c['n'], c['triples'])
            if not ok:
                sqrt_bad += 1
        exprs.append('mout (forward %s (fun x : Q => x) %s %s %s)' %
                     (sq, layer_lit(c), smat_lit(c['n'], c['triples']), feats_lit(c['X'], c['d'], c['sparse'])))
    # (None = the model no longer evaluates, recorded in ctx.proof_broken: no model diff; the formula oracle spec_forward and the
    # renumbering comparison below do not need it)
    model_vals = safe_coq_eval(ctx, 'c19fwd', IMPORTS, exprs, prelude=PRELUDE, shard=150)
    model = {i: to_float(v) for i, v in zip(exact_idx, model_vals or [])}
    if sqrt_bad:
        ctx.notes.append('%d square-root table entries missed the contract |s*s-d| <= 1e-12 d' % sqrt_bad)

    with Impl(scratch) as impl:
        conv_src = []
        for i, c in enumerate(cases):
            args = impl_args(c)
            r = impl.call('c19', 'layer_forward', args, timeout=30)
            ctx.traces += 1
            key = (c['n'], c['triples'], c['X'], c['weight'], c['bias'], c['norm'], c['self_embeddings'], c['use_bias'],
                   c['act'], c['sparse'])
            fam = 'forward:%s:%s:%s' % (c['norm'], c['act'], 'sparse' if c['sparse'] else 'dense')
            ctx.count(fam, key, len(c['triples']) > 0)
            fields = dict(norm=c['norm'], act=c['act'], self_embeddings=c['self_embeddings'], use_bias=c['use_bias'],
                          features='sparse' if c['sparse'] else 'dense', family=c['family'])
            if 'ok' not in r:
                ctx.violation('Convolution.forward', 'forward raised / crashed on a valid input', case=args,
                              expected='an output matrix', observed=r, **fields)
                continue
            out = r['ok']['output']
            exp = spec_forward(c['n'], c['triples'], c['X'], c['weight'], c['bias'], c['norm'], c['self_embeddings'],
                               c['use_bias'], c['act'])
            if not mat_close(out, exp):
                ctx.violation('Convolution.forward', 'output differs from activation(N(A) X W + b)', case=args,
                              expected=exp, observed=out, **fields)
            if i in model and not mat_close(out, model[i]):
                ctx.violation('Convolution.forward', 'implementation differs from the exact-Q model', case=args,
                              expected=model[i], observed=out, kind='model', **fields)
            if len(conv_src) < (48 if quick else 400) and c['n'] <= 8:
                conv_src.append((c, args, r['ok']['embedding']))
            o = r['ok']
            if 'second_layer_fresh' in o and not mat_close(o['second_layer_same_object'], o['second_layer_fresh'], 1e-12):
                ctx.violation('Convolution.forward', 'a second layer applied to the adjacency object the first layer has just used does '
                              'not compute activation(N(A) X W + b) any more (it differs from the same layer on a fresh copy)',
                              case=args, expected=o['second_layer_fresh'], observed=o['second_layer_same_object'],
                              kind='layer_sequence', adjacency_unchanged=o.get('adjacency_unchanged'), **fields)
            if i % 150 == 0:
                ctx.sample(dict(kind='forward', args=args, impl=out, spec=exp, model=model.get(i)))
            # equivariance on the implementation: renumber the nodes, rows of the output are permuted
            if c['n'] >= 2 and (i % 2 == 0 or not quick):
                p = gen.random_perm(rng, c['n'])
                c2 = permute_case(c, p)
                r2 = impl.call('c19', 'layer_forward', impl_args(c2), timeout=30)
                ctx.traces += 1
                ctx.count('equivariance:%s:%s' % (c['norm'], c['act']), ('perm', key, p), len(c['triples']) > 0)
                if 'ok' not in r2:
                    ctx.violation('Convolution.forward', 'forward raised on the renumbered input', case=impl_args(c2),
                                  expected='an output matrix', observed=r2, **fields)
                else:
                    out2 = r2['ok']['output']
                    expect2 = [None] * c['n']
                    for v in range(c['n']):
                        expect2[p[v]] = out[v]
                    if not mat_close(out2, expect2):
                        ctx.violation('Convolution.forward', 'renumbering the nodes does not permute the output rows',
                                      case=dict(args=args, perm=p), expected=expect2, observed=out2, kind='equivariance', **fields)

        # ---- (a2) the pre-activation embedding regenerated from layer.py (Gen/NpConv.v; theorem source_conv_embedding of Props/C19.v)
        #      evaluated inside Coq over exact rationals (square roots of the out-weights as a finite table of the float values)
        #      must reproduce layer.embedding
        import math as _m
        sexprs = []
        for (c, args, emb) in conv_src:
            n = c['n']
            dense = [[Fraction(0)] * n for _ in range(n)]
            for (i_, j_, w_) in c['triples']:
                dense[i_][j_] += Fraction(w_)
            ws = sorted({sum(row, Fraction(0)) for row in dense})
            tab = clist([(w_, Fraction(_m.sqrt(float(w_)))) for w_ in ws if w_ >= 0], lambda kv: '(%s, %s)' % (cq(kv[0]), cq(kv[1])))
            term = {'left': 'src_conv_embedding_left', 'right': 'src_conv_embedding_right', 'both': 'src_conv_embedding_both'}[c['norm']]
            Xd = c['X'] if isinstance(c['X'], list) and c['X'] and isinstance(c['X'][0], list) else None
            if Xd is None:
                continue
            sexprs.append(('map (map qz3) (qmresult (qvdenote_sqrt %s (qenv_conv %s %d %s %d %s %d %s %s %s) %s))' % (
                tab, qmat([[Fraction(v) for v in row] for row in dense]), n, qmat(Xd), c['d'], qmat(c['weight']), c['out'],
                clist(c['bias'], cq), cbool(c['self_embeddings']), cbool(c['use_bias']), term), c, args, emb))
        svals = safe_coq_eval(ctx, 'c19conv', ['Base.Util', 'Model.NpExpr', 'Model.NpVec', 'Gen.NpConv'], [e[0] for e in sexprs],
                              prelude='Definition qz3 (q : Q) : Z * Z := (Qnum q, Zpos (Qden q)).\n', shard=24) if sexprs else []
        n_conv = 0
        for (_, c, args, emb), v in zip(sexprs, svals or []):
            n_conv += 1
            ctx.count('source_term:Convolution.forward:' + c['norm'], ('srcconv', args), True)
            exp = [[float(Fraction(x[0], x[1])) for x in row] for row in v]
            if not mat_close(emb, exp, 1e-9):
                ctx.violation('Convolution.forward', 'the embedding regenerated from layer.py (src_conv_embedding_%s), evaluated with the '
                              'array semantics of Model/NpVec.v, differs from layer.embedding' % c['norm'], case=args, expected=exp,
                              observed=emb, kind='source_term', norm=c['norm'], self_embeddings=c['self_embeddings'],
                              use_bias=c['use_bias'])
        ctx.extra['source_conv_terms_evaluated'] = n_conv

        # ============================ (b) gradients ================================================
        grad_cases = []
        reps = 10 if quick else 100
        for name in ('identity', 'relu', 'sigmoid', 'softmax', 'CrossEntropy', 'BinaryCrossEntropy'):
            for ch in (1, 2, 3, 4):
                for _ in range(reps):
                    ns = rng.randint(1, 5)
                    signal = [[round(rng.uniform(-3, 3), 3) for _ in range(ch)] for _ in range(ns)]
                    if name == 'relu':
                        signal = [[x if abs(x) >= 0.01 else 0.5 for x in row] for row in signal]
                    direction = [[round(rng.uniform(-2, 2), 3) for _ in range(ch)] for _ in range(ns)]
                    grad_cases.append(dict(name=name, signal=signal, direction=direction))
        grad_res = []
        for g in grad_cases:
            r = impl.call('c19', 'activation_gradient', g, timeout=30)
            ctx.traces += 1
            ch = len(g['signal'][0])
            ctx.count('gradient:%s:%d' % (g['name'], ch), ('grad', g['name'], g['signal'], g['direction']), True)
            grad_res.append(r)
            if 'ok' not in r:
                ctx.violation('activation.gradient', 'gradient raised', case=g, expected='a matrix', observed=r,
                              activation=g['name'], channels=ch, kind='raised')
                continue
            if not fd_mat_close(r['ok']['gradient'], r['ok']['fd']):
                ctx.violation('activation.gradient', 'gradient(signal, direction) is not the Jacobian-transpose product '
                              '(central finite differences of the implementation\'s own output)', case=g,
                              expected=r['ok']['fd'], observed=r['ok']['gradient'], activation=g['name'], channels=ch,
                              kind='finite_difference')
        # outputs over a wide range of magnitudes: each row of the output depends on that row of the signal only
        # (softmax of a row is invariant under a shift of THAT row; sigmoid and relu are entrywise), whatever the other rows hold
        import math

        def ref_row(kind, row):
            if kind in ('softmax', 'CrossEntropy'):
                m = max(row)
                e = [math.exp(x - m) for x in row]
                t = sum(e)
                return [x / t for x in e]
            if kind in ('sigmoid', 'BinaryCrossEntropy'):
                return [1 / (1 + math.exp(-x)) if x >= 0 else math.exp(x) / (1 + math.exp(x)) for x in row]
            if kind == 'relu':
                return [max(x, 0.0) for x in row]
            return list(row)
        for name in ('identity', 'relu', 'sigmoid', 'softmax', 'CrossEntropy', 'BinaryCrossEntropy'):
            for _ in range(12 if quick else 150):
                ch, ns = rng.randint(1, 4), rng.randint(2, 5)
                offs = [rng.choice([0, 0, 30, -30, 300, -300, 800, -800, 5000, -5000]) for _ in range(ns)]
                signal = [[offs[i] + round(rng.uniform(-3, 3), 3) for _ in range(ch)] for i in range(ns)]
                g = dict(name=name, signal=signal)
                r = impl.call('c19', 'activation_output', g, timeout=30)
                ctx.traces += 1
                ctx.count('output_range:%s' % name, ('out', name, signal), True)
                fam = 'rows_offset_%d' % max(abs(o) for o in offs)
                if 'ok' not in r:
                    ctx.violation('activation.output', 'output raised', case=g, expected='a matrix', observed=r,
                                  activation=name, kind='raised', family=fam)
                    continue
                want = [ref_row(name, row) for row in signal]
                got = r['ok']['output']
                bad = any(isinstance(x, str) for row in got for x in row) or not mat_close(got, want, 1e-9)
                if bad:
                    ctx.violation('activation.output', 'output(signal) is not the row-wise activation of the signal (rows of very '
                                  'different magnitude)', case=g, expected=want, observed=got, activation=name,
                                  kind='row_independence', family=fam)
        loss_cases = []
        for name in ('CrossEntropy', 'BinaryCrossEntropy'):
            for ch in (1, 2, 3, 4):
                for _ in range(reps):
                    ns = rng.randint(1, 6)
                    signal = [[round(rng.uniform(-3, 3), 3) for _ in range(ch)] for _ in range(ns)]
                    if ch == 1:
                        labels = [0] * ns if name == 'CrossEntropy' else [rng.randint(0, 1) for _ in range(ns)]
                    else:
                        labels = [rng.randrange(ch) for _ in range(ns)]
                    loss_cases.append(dict(name=name, signal=signal, labels=labels))
        # the finite-difference reproducer of DESIGN.md D18 (3 classes, labels 0, 1, 2; repaired by 018b4674)
        loss_cases.append(dict(name='BinaryCrossEntropy', signal=[[0.1, -0.2, 0.3], [0.5, 0.2, -0.1], [0.0, 0.4, 0.2]],
                               labels=[0, 1, 2]))
        loss_res = []
        for g in loss_cases:
            r = impl.call('c19', 'loss_gradient', g, timeout=30)
            ctx.traces += 1
            ch = len(g['signal'][0])
            chan = 'single' if ch == 1 else 'multi'
            ctx.count('loss_gradient:%s:%d' % (g['name'], ch), ('loss', g['name'], g['signal'], g['labels']), True)
            loss_res.append(r)
            if 'ok' not in r:
                ctx.violation(g['name'] + '.loss_gradient', 'loss_gradient raised', case=g, expected='a matrix', observed=r,
                              loss=g['name'], channels=chan, kind='raised')
                continue
            if not fd_mat_close(r['ok']['gradient'], r['ok']['fd']):
                ctx.violation(g['name'] + '.loss_gradient',
                              'loss_gradient is not n times the derivative of the mean loss with respect to the signal '
                              '(central finite differences of the implementation\'s own loss)', case=g,
                              expected=r['ok']['fd'], observed=r['ok']['gradient'], loss=g['name'], channels=chan,
                              n_channels=ch, kind='finite_difference')

        # correspondence of the coded closed forms: the modelled formulas evaluated in Coq on the
        # implementation's own output must reproduce the implementation's gradient
        exprs, targets = [], []
        for g, r in zip(grad_cases, grad_res):
            if 'ok' not in r:
                continue
            out, dr, sg = r['ok']['output'], g['direction'], g['signal']
            if g['name'] == 'identity':
                e = qmat(dr)
            elif g['name'] == 'relu':
                e = clist([('map2 relu_gradient %s %s' % (clist(s, cq), clist(d_, cq))) for s, d_ in zip(sg, dr)])
            elif g['name'] in ('sigmoid', 'BinaryCrossEntropy'):
                e = clist([('map2 sigmoid_gradient_o %s %s' % (clist(o_, cq), clist(d_, cq))) for o_, d_ in zip(out, dr)])
            else:
                e = clist([('softmax_gradient_o %s %s' % (clist(o_, cq), clist(d_, cq))) for o_, d_ in zip(out, dr)])
            exprs.append('mout %s' % e)
            targets.append(('activation.gradient', g, r['ok']['gradient'], dict(activation=g['name'])))
        for g, r in zip(loss_cases, loss_res):
            if 'ok' not in r:
                continue
            fn = 'ce_gradient_o' if g['name'] == 'CrossEntropy' else 'bce_gradient_o'
            e = clist([('%s %s %d' % (fn, clist(p_, cq), y)) for p_, y in zip(r['ok']['probs'], g['labels'])])
            exprs.append('mout %s' % e)
            targets.append((g['name'] + '.loss_gradient', g, r['ok']['gradient'], dict(loss=g['name'])))
        # (closed forms evaluated inside Coq: model side, skipped when dead; finite differences above judged every gradient)
        vals = safe_coq_eval(ctx, 'c19grad', IMPORTS, exprs, prelude=PRELUDE, shard=120)
        for (site, g, got, fields), v in zip(targets, vals or []):
            ctx.count('formula:' + site, ('formula', site, g), True)
            if not mat_close(got, to_float(v)):
                ctx.violation(site, 'implementation differs from the modelled closed form', case=g, expected=to_float(v),
                              observed=got, kind='model', **fields)

        # ============================ (b2) the terms regenerated from activation.py / loss.py ======
        # Gen/NpGnn.v holds the bodies of output / gradient / loss / loss_gradient translated from the current source
        # (harness/translators/npexpr.py); Props/C19.v proves the property about their denotation.  Here the SAME terms
        # are evaluated inside Coq over exact rationals (NumPy semantics of Model/NpExpr.v; exp / ln as finite tables of
        # the float values) on the inputs the implementation just ran, and must reproduce its results: this validates
        # the translator and the array semantics against NumPy.
        import os
        from .. import npexpr_eval as NE
        from ..common import COQ
        src_terms = {}
        try:
            src_terms = NE.load_terms(os.path.join(COQ, 'Gen', 'NpGnn.v'))
        except (OSError, ValueError, IndexError) as e:
            ctx.extra['source_terms_unreadable'] = str(e)
        exprs, targets = [], []
        ACT = {'relu': 'relu', 'sigmoid': 'sigmoid', 'softmax': 'softmax'}

        def tabs_lit(tab):
            return (clist(sorted(tab.exp.items()), lambda kv: '(%s, %s)' % (cq(kv[0]), cq(kv[1]))),
                    clist(sorted(tab.ln.items()), lambda kv: '(%s, %s)' % (cq(kv[0]), cq(kv[1]))))

        def add_src(term, envkind, g, want, site, fields):
            if term not in src_terms:
                return
            sg = g['signal']
            n, k = len(sg), len(sg[0])
            tab = NE.Tables()
            env = {'signal': NE.mat(sg)}
            if envkind == 'sd':
                env['direction'] = NE.mat(g['direction'])
                coq_env = 'qenv_sd %s %s %d %d' % (qmat(sg), qmat(g['direction']), n, k)
            elif envkind == 'sl':
                env['labels'] = ('L', list(g['labels']))
                coq_env = 'qenv_sl %s %s %d %d' % (qmat(sg), clist(g['labels'], cnat), n, k)
            else:
                coq_env = 'qenv_s %s %d %d' % (qmat(sg), n, k)
            try:
                NE.ref_eval(src_terms[term], env, tab)
            except (ValueError, IndexError, KeyError, TypeError, ZeroDivisionError):
                pass
            et, lt = tabs_lit(tab)
            exprs.append('mout (qresult (qdenote %s %s (%s) %s))' % (et, lt, coq_env, term))
            targets.append((site, g, want, term, fields))
        lim = 8 if quick else 40
        seen = {}
        for g, r in zip(grad_cases, grad_res):
            if 'ok' not in r or g['name'] not in ACT:
                continue
            key = (g['name'], len(g['signal'][0]))
            seen[key] = seen.get(key, 0) + 1
            if seen[key] > lim:
                continue
            a = ACT[g['name']]
            add_src('src_%s_output' % a, 's', g, r['ok']['output'], 'activation.output', dict(activation=g['name']))
            add_src('src_%s_gradient' % a, 'sd', g, r['ok']['gradient'], 'activation.gradient', dict(activation=g['name']))
        for g, r in zip(loss_cases, loss_res):
            if 'ok' not in r:
                continue
            key = (g['name'], len(g['signal'][0]))
            seen[key] = seen.get(key, 0) + 1
            if seen[key] > lim:
                continue
            a = 'ce' if g['name'] == 'CrossEntropy' else 'bce'
            add_src('src_%s_loss' % a, 'sl', g, [[r['ok']['loss']]], g['name'] + '.loss', dict(loss=g['name']))
            add_src('src_%s_loss_gradient' % a, 'sl', g, r['ok']['gradient'], g['name'] + '.loss_gradient', dict(loss=g['name']))
        vals = safe_coq_eval(ctx, 'c19src', ['Base.Util', 'Model.Gnn', 'Model.NpExpr', 'Gen.NpGnn'], exprs, prelude=PRELUDE, shard=40)
        n_src = 0
        for (site, g, want, term, fields), v in zip(targets, vals or []):
            ctx.count('source_term:' + term, ('src', term, g.get('signal'), g.get('direction'), g.get('labels')), True)
            n_src += 1
            got = to_float(v)
            if not mat_close(want, got, 1e-8):
                ctx.violation(site, 'the term regenerated from the Python source (%s), evaluated with the array semantics of '
                              'Model/NpExpr.v, differs from what the implementation returns' % term, case=g, expected=got,
                              observed=want, kind='source_term', term=term, **fields)
        ctx.extra['source_terms_evaluated'] = n_src

        # ============================ (c) sampler ==================================================
        samp_cases = []
        for _ in range(80 if quick else 1500):
            directed = rng.random() < 0.5
            n, E, fam = gen.random_graph(rng, nmax, directed=directed)
            triples, _ = gen.random_weights(rng, E, directed=directed)
            samp_cases.append(dict(adjacency={'shape': [n, n], 'coo': [[i, j, float(w)] for i, j, w in triples],
                                              'dtype': 'float', 'fmt': rng.choice(['csr', 'csr_unsorted'])},
                                   sample_size=rng.randint(1, 4), seed=rng.randrange(10 ** 6), family=fam))
        samp_res = [impl.call('c19', 'sampler', {k: v for k, v in s.items() if k != 'family'}, timeout=30) for s in samp_cases]
        exprs, keep = [], []
        for s, r in zip(samp_cases, samp_res):
            ctx.traces += 1
            ctx.count('sampler:' + s['family'], ('sampler', s['adjacency']['coo'], s['sample_size'], s['seed']),
                      len(s['adjacency']['coo']) > 0)
            if 'ok' not in r:
                ctx.violation('UniformNeighborSampler', 'sampler raised', case=s, expected='a matrix', observed=r)
                continue
            src, rows, ss = r['ok']['source_rows'], r['ok']['rows'], s['sample_size']
            bad = None
            for i, (row, srow) in enumerate(zip(rows, src)):
                cols = [e[0] for e in row]
                scol = [e[0] for e in srow]
                if len(row) > ss or len(row) > len(srow) or any(e[1] != 1.0 for e in row) or \
                        any(cols.count(cc) > scol.count(cc) for cc in set(cols)):
                    bad = i
                if len(row) != min(len(srow), ss):
                    bad = i
            if bad is not None or len(rows) != len(src):
                ctx.violation('UniformNeighborSampler', 'sampled row is not a subset of the row of size min(degree, sample_size) '
                              'with unit weights', case=s, expected=src, observed=rows, row=bad)
            exprs.append('sout (sample_rows %d %s %s)' % (ss, clist(src, lambda rw: clist(rw, lambda e: '(%d, %s)' % (e[0], cq(e[1])))),
                                                  clist(r['ok']['stream'], lambda l: clist(l, cnat))))
            keep.append((s, rows))
        vals = safe_coq_eval(ctx, 'c19samp', IMPORTS, exprs, shard=200, prelude=PRELUDE +
                             'Definition sout (r : result smat) : result (list (list (nat * (Z * Z)))) :=\n'
                             '  match r with Ok a => Ok (map (map (fun e => (fst e, qout (snd e)))) a) | Err e => Err e end.\n')
        for (s, rows), v in zip(keep, vals or []):
            exp = [[[int(e[0]), float(Fraction(e[1][0], e[1][1]))] for e in rw] for rw in v[1]] if v[0] == 'Ok' else {'err': v}
            if exp != rows:
                ctx.violation('UniformNeighborSampler', 'implementation differs from the model on the recorded choice stream',
                              case=s, expected=exp, observed=rows, kind='model')

        # ============================ (c) classifier end to end ====================================
        for t in range(200 if quick else 3000):
            directed = rng.random() < 0.3
            n, E, fam = gen.random_graph(rng, nmax, directed=directed, nmin=3)
            triples, _ = gen.random_weights(rng, E, directed=directed)
            coo = [[i, j, float(w)] for i, j, w in triples]
            k = rng.choice([2, 2, 3])
            loss = rng.choice(['CrossEntropy', 'CrossEntropy', 'BinaryCrossEntropy'])
            o = k if k == 3 else rng.choice([1, 2, 2, 3])
            nodes = list(range(n))
            rng.shuffle(nodes)
            lab_nodes = nodes[:rng.randint(k, n)]
            labels = {str(v): (idx % k if idx < k else rng.randrange(k)) for idx, v in enumerate(lab_nodes)}
            hidden = [] if rng.random() < 0.4 else [rng.randint(2, 4)]
            sparse_f = rng.random() < 0.5
            d = rng.randint(1, 4)
            X, fspec = make_features(rng, n, d, sparse_f)
            early = rng.random() < 0.5
            args = dict(adjacency={'shape': [n, n], 'coo': coo, 'dtype': 'float', 'fmt': 'csr'}, features=fspec,
                        dims=hidden + [o], layer_types=rng.choice(['Conv', 'Sage']),
                        activations=rng.choice(['ReLu', 'Sigmoid', 'Identity']), normalizations=rng.choice(NORMS),
                        self_embeddings=rng.random() < 0.5, sample_sizes=rng.randint(1, 3), loss=loss,
                        optimizer=rng.choice(['Adam', 'GD']), early_stopping=early, patience=rng.randint(1, 3),
                        validation=(0.3 if early and len(lab_nodes) >= 4 and rng.random() < 0.7 else 0),
                        n_epochs=rng.randint(1, 5),
                        random_state=rng.choice([0, 0, rng.randrange(1000)]), labels=labels)
            r = impl.call('c19', 'classifier', args, timeout=60)
            ctx.traces += 1
            chan = 'single' if o == 1 else 'multi'
            eff_loss = 'BinaryCrossEntropy' if o == 1 else loss   # check_loss turns a 1-channel CrossEntropy into BCE
            fields = dict(loss=eff_loss, channels=chan, layer_types=args['layer_types'], optimizer=args['optimizer'],
                          early_stopping=early, family=fam)
            ctx.count('classifier:%s:%s:%s:%s' % (eff_loss, chan, args['layer_types'], args['optimizer']),
                      ('clf', coo, X, args['dims'], args['labels'], args['random_state'], args['layer_types'],
                       args['optimizer'], args['normalizations']), len(coo) > 0)
            if 'err' in r and args['validation'] and 'No sample with both true' in r.get('msg', ''):
                # the random validation split left no training node: a degenerate draw, not a valid configuration
                ctx.margin_dropped += 1
                continue
            if 'ok' not in r:
                ctx.violation('GNNClassifier.fit', 'fit raised / crashed on a valid configuration', case=args,
                              expected='a fitted classifier', observed=r, **fields)
                continue
            a, b = r['ok']['first'], r['ok']['second']
            if t % 40 == 0:
                ctx.sample(dict(kind='classifier', args=args, labels=a['labels'], proba=a.get('proba', a.get('proba_err'))))
            if a.get('n_train') == 0:
                ctx.margin_dropped += 1
                continue
            bound = max(o, 2)
            labs = a['labels']
            if not (isinstance(labs, list) and len(labs) == n and all(isinstance(y, int) and 0 <= y < bound for y in labs)
                    and a['predict'] == labs):
                ctx.violation('GNNClassifier.labels_', 'not exactly one label below the output dimension per node', case=args,
                              expected='%d labels in [0, %d)' % (n, bound), observed=labs, **fields)
            outm = a['output']
            if not (len(outm) == n and all(len(row) == o for row in outm)):
                ctx.violation('GNNClassifier.output_', 'output shape is not (n, out_channels)', case=args,
                              expected=[n, o], observed=[len(outm), len(outm[0]) if outm else 0], **fields)
            if 'proba_err' in a:
                ctx.violation('predict_proba', 'predict_proba raised %s: %s' % (a['proba_err'], a.get('proba_msg')), case=args,
                              expected='probability rows summing to 1', observed=a['proba_err'], kind='raised',
                              error=a['proba_err'], **fields)
            else:
                pr = a['proba']
                width = 2 if o == 1 else o
                okp = len(pr) == n and all(len(row) == width and close(sum(row), 1.0) and
                                           all(-1e-12 <= x <= 1 + 1e-12 for x in row) for row in pr)
                if not okp:
                    ctx.violation('predict_proba', 'probability rows do not sum to 1', case=args, expected='rows summing to 1',
                                  observed=pr, row_sums=[sum(row) if isinstance(row, list) else None for row in pr],
                                  kind='row_sums', **fields)
            same = a['labels'] == b['labels'] and mat_close(a['output'], b['output'], 1e-12) and \
                a.get('proba_err') == b.get('proba_err') and \
                ('proba' not in a or mat_close(a['proba'], b['proba'], 1e-12)) and a['epochs'] == b['epochs']
            if not same:
                ctx.violation('GNNClassifier.fit', 'two fresh objects with identical random_state give different results',
                              case=args, expected=dict(labels=a['labels'], output=a['output']),
                              observed=dict(labels=b['labels'], output=b['output']), kind='repeatability', **fields)
            c = r['ok'].get('refit') or {}
            if 'skipped' in c:
                ctx.extra['refit_history_skipped'] = ctx.extra.get('refit_history_skipped', 0) + 1
            elif 'err' in c:
                ctx.violation('GNNClassifier.fit', 'fit(reinit=True) on an already fitted object raised', case=args,
                              expected='a fit', observed=c, kind='repeatability_refit', **fields)
            elif c and not (a['labels'] == c['labels'] and mat_close(a['output'], c['output'], 1e-12)
                            and a['epochs'] == c['epochs']):
                ctx.violation('GNNClassifier.fit', 'fit(reinit=True, random_state=s) on an already fitted object differs from '
                              'a fresh object fitted with random_state=s', case=args,
                              expected=dict(labels=a['labels'], output=a['output']),
                              observed=dict(labels=c['labels'], output=c['output']), kind='repeatability_refit', **fields)

    ctx.rule = ('(a) all digraphs with loops on 1-2 nodes and sampled ones on 3 nodes x {left,right,both} x self_embeddings, then '
                'structured random weighted graphs (13 families, n<=%d, zero-degree nodes and self loops included) cycling through '
                'every combination normalisation x self_embeddings x use_bias x 6 activations/losses x dense/sparse features, '
                'explicit dyadic weights/bias, feature dim<=4, out dim<=3; each compared with an independent evaluation of '
                'activation(N(A)XW+b), the identity/ReLu ones also with the Coq model (vm_compute), half of them re-run on a '
                'renumbered graph; (b) random signals/directions/labels, 1-4 channels, analytic gradients vs central differences '
                'of the implementation and vs the modelled closed forms evaluated in Coq; (c) sampler vs model on the recorded '
                'choice stream, GNNClassifier fitted twice per configuration. distinct by hash of the arguments; non-trivial = '
                'at least one edge (gradient cases: always)') % nmax
    ctx.assumptions = [
        'adjacency is a square CSR matrix with non-negative weights (dense adjacency is C01 / D10)',
        'a single output channel stands for the two classes 0/1: labels are demanded below max(out_channels, 2)',
        'single-channel binary cross-entropy is used with labels in {0, 1}',
        'ReLu gradients are compared away from the kink (|signal| >= 0.01); losses away from the clipping threshold (|signal| <= 3)',
        'exp / log / sqrt of NumPy and SciPy are trusted; the `both` normalisation enters the exact model through a table of '
        'math.sqrt values checked by |s*s - d| <= 1e-12 d',
        'use_bias=False with the GD optimizer raises TypeError in GD.step (bias None); optimizers are outside the property\'s '
        'quantifier and that combination is not generated',
    ]

"""C11 — triangles, cliques, cores, clustering coefficient: model (Coq, vm_compute) vs implementation,
plus brute-force oracles on the implementation's outputs, sequential and parallel (several thread counts)."""
import itertools
import math
from fractions import Fraction

from .. import gen
from ..common import cnat, clist, safe_coq_eval
from ..impl import Impl

GEN_FILES = ['TrianglesPrange.v']

IMPORTS = ['Base.Util', 'Model.Bfs', 'Model.Topology']
# rationals are returned as (numerator, denominator): Coq prints some Q values in decimal notation
PRELUDE = ('Definition qpair (o : option Q) : option (Z * Z) := '
           'match o with Some q => Some (Qnum q, Zpos (Qden q)) | None => None end.')


def glit(n, edges):
    return clist(gen.rows_of(n, edges), lambda r: clist(r, cnat))


# storage dtype -> the weight every edge carries (the counts read only the pattern; the symmetrisation A + A^T in front of the
# kernels must not lose an edge whatever the weight: 128 + 128 wraps to 0 in uint8, 32768 + 32768 in uint16)
DTYPE_WEIGHT = {'int': 1, 'bool': 1, 'float': 1, 'uint8': 128, 'uint16': 32768, 'int32': 2 ** 30, 'float32': 0.5, 'int8': 64}


def mspec(n, edges, dtype='int', zeros=()):
    """zeros: positions that are NOT edges but are stored explicitly with value 0 (what `A[i, j] = 0` leaves behind)"""
    return {'shape': [n, n], 'coo': [[i, j, DTYPE_WEIGHT[dtype]] for (i, j) in edges] + [[i, j, 0] for (i, j) in zeros], 'dtype': dtype,
            'fmt': 'csr'}


# ---------------------------------------------------------------------------------------------
# Oracles (independent of the Coq model): brute-force subset enumeration, simple peeling
# ---------------------------------------------------------------------------------------------
def adj_sets(n, edges):
    adj = [set() for _ in range(n)]
    for (i, j) in edges:
        if i != j:
            adj[i].add(j)
            adj[j].add(i)
    return adj


def cliques_bruteforce(n, adj, k):
    c = 0
    for s in itertools.combinations(range(n), k):
        ok = True
        for a in range(k):
            sa = adj[s[a]]
            for b in range(a + 1, k):
                if s[b] not in sa:
                    ok = False
                    break
            if not ok:
                break
        if ok:
            c += 1
    return c


def clique_profile(n, adj, budget):
    """Number of cliques of every size by extension with higher-numbered common neighbours;
    None when more than `budget` cliques exist (the case is then only run for small k)."""
    counts = {}
    seen = [0]

    def rec(size, cand):
        for idx, v in enumerate(cand):
            seen[0] += 1
            if seen[0] > budget:
                raise OverflowError
            counts[size + 1] = counts.get(size + 1, 0) + 1
            nxt = [w for w in cand[idx + 1:] if w in adj[v]]
            if nxt:
                rec(size + 1, nxt)
    try:
        rec(0, list(range(n)))
    except OverflowError:
        return None
    return counts


def peeling(n, adj):
    """Simple peeling: (removal order, core numbers). Ties broken by smallest index."""
    alive = set(range(n))
    deg = [len(adj[v]) for v in range(n)]
    order, core, c = [], [0] * n, 0
    while alive:
        v = min(alive, key=lambda x: (deg[x], x))
        c = max(c, deg[v])
        core[v] = c
        order.append(v)
        alive.discard(v)
        for w in adj[v]:
            if w in alive:
                deg[w] -= 1
    return order, core


def core_is_valid(n, adj, core):
    """Definition check, independent of peeling: for every k, the set {v : core v >= k} has min-degree >= k
    inside itself, and iteratively deleting nodes of degree < k+1 from the whole graph deletes every node
    of core value k (so no node of value k lies in a (k+1)-core)."""
    for k in sorted(set(core)):
        s = {v for v in range(n) if core[v] >= k}
        if any(len(adj[v] & s) < k for v in s):
            return False
        t = set(range(n))
        changed = True
        while changed:
            changed = False
            for v in list(t):
                if len(adj[v] & t) < k + 1:
                    t.discard(v)
                    changed = True
        if any(core[v] == k and v in t for v in range(n)):
            return False
    return True


def coef_exact(n, adj, tri):
    den = sum(len(a) * (len(a) - 1) for a in adj if len(a) > 1)
    if den == 0:
        return None
    return Fraction(3 * tri * 2, den)


def close(x, q, rel=1e-9):
    if not isinstance(x, (int, float)):
        return False
    return abs(Fraction(x) - q) <= Fraction(rel) * max(1, abs(q))


def res_nat(v):
    """Coq `result nat` -> python."""
    if v[0] == 'Ok':
        return {'ok': v[1]}
    return {'err': v[1][0]}


def opt(v):
    return None if v is None else v[1]


# ---------------------------------------------------------------------------------------------
def run(ctx, scratch):
    rng = ctx.rng
    quick = ctx.tier == 'quick'
    budget = 4000 if quick else 20000
    cases = []   # dict(fam, n, E)

    def add(fam, n, E):
        cases.append(dict(fam=fam, n=n, E=sorted(E)))

    # ---- exhaustive: ALL undirected simple graphs on n <= 4 (quick: + sample of n = 5; thorough: all n = 5, sample n = 6)
    for n in (1, 2, 3, 4):
        for E in gen.all_undirected(n):
            add('exh_%d' % n, n, gen.sym(E))
    g5 = list(gen.all_undirected(5))
    for E in (rng.sample(g5, 600) if quick else g5):
        add('exh_5', 5, gen.sym(E))
    if not quick:
        pairs6 = [(i, j) for i in range(6) for j in range(i + 1, 6)]
        for _ in range(1500):
            mask = rng.getrandbits(15)
            add('exh_6_sample', 6, gen.sym([pairs6[k] for k in range(15) if mask >> k & 1]))
    # ---- structured random (13 families of harness/gen.py, loop-free, symmetric)
    nmax = 14 if quick else 40
    for _ in range(260 if quick else 1600):
        n, E, fam = gen.random_graph(rng, nmax, directed=False, allow_loops=False)
        E = [(i, j) for (i, j) in E if i != j]
        add('rnd_' + fam, n, E)
    # a few relabelled copies (the node order drives get_dag and the heap tie-breaks)
    for c in list(cases[-60:]):
        p = gen.random_perm(rng, c['n'])
        add(c['fam'] + '_perm', c['n'], [(p[i], p[j]) for (i, j) in c['E']])

    # ---- oracle values and clique sizes to run
    for c in cases:
        n, E = c['n'], c['E']
        adj = adj_sets(n, E)
        c['adj'] = adj
        prof = clique_profile(n, adj, budget)
        c['profile'] = prof
        if prof is not None:
            ks = list(range(2, n + 1))
        else:
            ks = [2, 3] + ([4] if n <= 25 else [])
        c['ks'] = ks
        # the model (vm_compute on lists) is evaluated for k up to (largest clique size + 2): beyond, the kernel repeats
        # the same exploration and returns 0; the implementation is still run for every k and checked against brute force
        omega = max(prof) if prof else None
        c['mks'] = [k for k in ks if omega is None or k <= omega + 2]
        c['order'], c['core'] = peeling(n, adj)
        c['tri'] = cliques_bruteforce(n, adj, 3)
        c['dtype'] = rng.choice(['int', 'bool', 'float', 'int', 'bool', 'float', 'uint8', 'uint16', 'int32', 'float32', 'int8'])
        c['zeros'] = []
        if rng.random() < 0.2 and c['dtype'] != 'bool':
            have = set(c['E'])
            free = [(i, j) for i in range(c['n']) for j in range(i + 1, c['n']) if (i, j) not in have]
            c['zeros'] = [q for (i, j) in rng.sample(free, min(len(free), rng.randint(1, 4))) for q in ((i, j), (j, i))]

    tri_dir = []   # directed stream for count_triangles
    for _ in range(120 if quick else 800):
        n, E, fam = gen.random_graph(rng, nmax, directed=True, allow_loops=False)
        E = [(i, j) for (i, j) in E if i != j]
        tri_dir.append(dict(fam='dir_' + fam, n=n, E=E, S=gen.sym(E)))
    if not quick:
        for E in gen.all_directed(3, loops=False):
            tri_dir.append(dict(fam='dir_exh_3', n=3, E=E, S=gen.sym(E)))

    # ---- run the implementation (one thread): every entry point, every selected clique size
    with Impl(scratch, threads=1) as impl:
        for c in cases:
            r = impl.call('c11', 'everything', dict(m=mspec(c['n'], c['E'], c['dtype'], c.get('zeros', ())), ks=c['ks']), timeout=120)
            ctx.traces += 4 + len(c['ks'])
            c['impl'] = r
        for c in tri_dir:
            c['impl'] = [impl.call('c11', 'triangles', dict(m=mspec(c['n'], c['E']), parallelize=par), timeout=60)
                         for par in (False, True)]
            c['impl_sym'] = impl.call('c11', 'triangles', dict(m=mspec(c['n'], c['S']), parallelize=False), timeout=60)
            ctx.traces += 3

    # ---- run the model inside Coq
    exprs = []
    for c in cases:
        g = glit(c['n'], c['E'])
        r = c['impl']
        a = r.get('ok', {}).get('argsort', {}).get('ok') if 'ok' in r else None
        if not (isinstance(a, list) and sorted(a) == list(range(c['n']))):
            a = list(range(c['n']))   # the oracle answer is unusable (reported below); any permutation serves the model
            c['argsort_bad'] = True
        c['argsort'] = a
        al = clist(a, cnat)
        exprs.append('(count_triangles %s, compute_core %s, qpair (clustering_coefficient %s), peel %s %s, '
                     '[%s], [%s], core_heap_inv %s)' % (g, g, g, g, clist(c['order'], cnat),
                                      '; '.join('count_cliques %s %d %s' % (g, k, al) for k in c['mks']),
                                      '; '.join('count_cliques_L1 %s %d %s' % (g, k, al) for k in c['mks']), g))
    vals = safe_coq_eval(ctx, 'c11u', IMPORTS, exprs, prelude=PRELUDE, shard=150 if quick else 100, timeout=1500)
    for c in cases:
        c['model'] = None     # stays None when the model no longer evaluates (recorded in ctx.proof_broken): model diffs are
        #                       skipped, the brute-force / peeling / definition oracles still judge every output
    for c, v in zip(cases, vals or []):
        c['model'] = dict(tri=v[0], core=opt(v[1]), coef=None if v[2] is None else Fraction(v[2][1][0], v[2][1][1]), peel=opt(v[3]),
                          cliques=[res_nat(x) for x in v[4]], cliques_l1=[res_nat(x) for x in v[5]], heap_inv=v[6])
    dvals = safe_coq_eval(ctx, 'c11d', IMPORTS, ['(count_triangles %s, count_triangles %s)' % (glit(c['n'], c['E']), glit(c['n'], c['S']))
                                                  for c in tri_dir], shard=200)
    for c in tri_dir:
        c['model'] = None
    for c, v in zip(tri_dir, dvals or []):
        c['model'] = v

    # ---- diff and oracles
    coef_skipped = 0
    clique_runs = 0
    for idx, c in enumerate(cases):
        n, E, fam, adj = c['n'], c['E'], c['fam'], c['adj']
        case = dict(n=n, edges=[e for e in E if e[0] < e[1]], dtype=c['dtype'], stored_zeros=[list(z) for z in c.get('zeros', ())])
        ctx.count(fam, ('u', n, tuple(E)), len(E) > 0)
        r = c['impl']
        m = c['model']
        if 'ok' not in r:
            ctx.violation('worker', 'implementation run did not complete', case=case, observed=r, family=fam)
            continue
        r = r['ok']
        # model-internal agreement (L0 vs L1 of the model, model vs python oracle): a failure here is a harness/model
        # error and is reported as broken correspondence, never silently dropped
        if m is not None and m['heap_inv'] is not True:
            ctx.violation('model', 'heap invariant (heap_ok_b) fails before some pop_min of the L0 model', case=case,
                          family=fam, kind='model')
        if m is not None and (m['peel'] is None or [int(x) for x in m['peel']] != c['core'] or m['cliques'] != m['cliques_l1']):
            ctx.violation('model', 'L1 and L0 models (or the python peeling) disagree', case=case,
                          expected=dict(core=c['core']), observed=dict(peel=m['peel'], l0=m['cliques'], l1=m['cliques_l1']),
                          family=fam, kind='model')
        # count_triangles
        for par, key in ((False, 'tri_seq'), (True, 'tri_par')):
            got = r[key]
            if m is not None and got != {'ok': m['tri']}:
                ctx.violation('count_triangles', 'implementation differs from the proved-exact model', case=case,
                              expected=m['tri'], observed=got, parallelize=par, threads=1, family=fam, kind='correspondence',
                              directed=False)
            if got != {'ok': c['tri']}:
                ctx.violation('count_triangles', 'count is not the number of 3-cliques (brute force)', case=case,
                              expected=c['tri'], observed=got, parallelize=par, threads=1, family=fam, kind='oracle',
                              directed=False)
        # explicitly stored zeros: triangles and cliques are counted on the graph without them (the kernels run on get_dag /
        # directed2undirected output, which drop them), and that is what is judged; the core decomposition and the clustering
        # coefficient read indptr / indices of their argument and so take a stored zero for an edge: whether a stored zero is an edge is
        # not settled by the documentation, and these two are not judged on such matrices (same reading as C01, part (b))
        zeros_stored = bool(c.get('zeros'))
        if zeros_stored:
            ctx.extra['stored_zero_graphs'] = ctx.extra.get('stored_zero_graphs', 0) + 1
        # get_core_decomposition
        got = r['core']
        exp = None if (m is None or m['core'] is None) else [int(x) for x in m['core']]
        if zeros_stored:
            pass
        elif m is not None and got != {'ok': exp}:
            ctx.violation('get_core_decomposition', 'implementation differs from the model of compute_core', case=case,
                          expected=exp, observed=got, family=fam, kind='correspondence')
        if not zeros_stored and (got != {'ok': c['core']} or ('ok' in got and not core_is_valid(n, adj, got['ok']))):
            ctx.violation('get_core_decomposition', 'labels are not the core numbers (peeling oracle / definition check)',
                          case=case, expected=c['core'], observed=got, family=fam, kind='oracle')
        # get_clustering_coefficient
        q = coef_exact(n, adj, c['tri'])
        if m is not None and q != m['coef']:
            ctx.violation('model', 'clustering coefficient of the model differs from the exact definition', case=case,
                          expected=q, observed=m['coef'], family=fam, kind='model')
        if q is None or zeros_stored:
            coef_skipped += 1    # no connected triple: the quotient is undefined (the code returns nan); outside the property
        else:
            for par, key in ((False, 'coef'), (True, 'coef_par')):
                got = r[key]
                if not ('ok' in got and close(got['ok'], q)):
                    ctx.violation('get_clustering_coefficient', 'coefficient differs from 3 T / #connected triples', case=case,
                                  expected=q, observed=got, parallelize=par, family=fam, kind='oracle')
        # count_cliques, every selected k >= 2
        if c.get('argsort_bad'):
            ctx.violation('count_cliques', 'np.argsort(core values) is not a permutation of the nodes', case=case,
                          observed=r.get('argsort'), family=fam, kind='oracle-contract')
        mcl = dict(zip(c['mks'], m['cliques'])) if m is not None else {}
        for k in c['ks']:
            clique_runs += 1
            got = r['cliques'][str(k)]
            mv = mcl.get(k)
            if mv is not None and got != mv:
                ctx.violation('count_cliques', 'implementation differs from the model of the listing kernel', case=case,
                              expected=mv, observed=got, k=k, family=fam, kind='correspondence')
            if c['profile'] is not None:
                exp = c['profile'].get(k, 0)
                if math.comb(n, k) <= 30000 and cliques_bruteforce(n, adj, k) != exp:
                    raise AssertionError('harness oracles disagree on %r k=%d' % (case, k))
            else:
                exp = cliques_bruteforce(n, adj, k) if math.comb(n, k) <= 200000 else None
            if exp is not None and got != {'ok': exp}:
                ctx.violation('count_cliques', 'count is not the number of k-cliques (brute force)', case=case,
                              expected=exp, observed=got, k=k, family=fam, kind='oracle')
        if idx % 150 == 0:
            ctx.sample(dict(family=fam, case=case, ks=c['ks'], impl=dict(tri=r['tri_seq'], core=r['core'], coef=r['coef'],
                                                                        cliques=r['cliques']),
                            model=dict(tri=m['tri'], core=m['core'], coef=m['coef'], cliques=m['cliques']) if m is not None else None))
    for c in tri_dir:
        n, E, fam = c['n'], c['E'], c['fam']
        case = dict(n=n, edges=E, directed=True)
        ctx.count(fam, ('d', n, tuple(E)), len(E) > 0)
        exp = cliques_bruteforce(n, adj_sets(n, E), 3)
        if c['model'] is not None and (c['model'][0] != exp or c['model'][1] != exp):
            ctx.violation('model', 'model count on directed input differs from brute force on the symmetrised graph',
                          case=case, expected=exp, observed=list(c['model']), family=fam, kind='model')
        for par, got in zip((False, True), c['impl']):
            if got != {'ok': exp}:
                ctx.violation('count_triangles', 'directed input: count differs from the 3-cliques of the undirected graph',
                              case=case, expected=exp, observed=got, parallelize=par, threads=1, family=fam, kind='oracle',
                              directed=True)
        if c['impl_sym'] != {'ok': exp}:
            ctx.violation('count_triangles', 'count on the symmetrised matrix differs from brute force', case=case,
                          expected=exp, observed=c['impl_sym'], parallelize=False, threads=1, family=fam, kind='oracle',
                          directed=False)

    # ---- parallelize=True under several OpenMP thread counts, repeated runs
    threads = [4] if quick else [2, 4, 16]
    repeat = 2 if quick else 5
    par_cases = [c for c in cases if c['n'] >= 3]
    if quick:
        par_cases = [c for c in par_cases if not c['fam'].startswith('exh')] + \
                    [c for c in par_cases if c['fam'] == 'exh_5'][:100]
    par_runs = 0
    for t in threads:
        with Impl(scratch, threads=t) as impl:
            for c in par_cases:
                got = impl.call('c11', 'triangles_repeat', dict(m=mspec(c['n'], c['E'], c['dtype'], c.get('zeros', ())), repeat=repeat), timeout=120)
                ctx.traces += repeat
                par_runs += repeat
                ctx.count('par_t%d' % t, ('p', t, c['n'], tuple(c['E'])), len(c['E']) > 0, n=repeat)
                if got != {'ok': [c['tri']] * repeat}:
                    ctx.violation('count_triangles', 'parallel count differs from the sequential count / brute force',
                                  case=dict(n=c['n'], edges=[e for e in c['E'] if e[0] < e[1]], dtype=c['dtype']),
                                  expected=c['tri'], observed=got, parallelize=True, threads=t, family=c['fam'], kind='oracle',
                                  directed=False)
            for c in tri_dir[:60 if quick else 400]:
                got = impl.call('c11', 'triangles_repeat', dict(m=mspec(c['n'], c['E']), repeat=repeat), timeout=120)
                ctx.traces += repeat
                par_runs += repeat
                # (model dead: the brute-force count on the symmetrised graph, which the model is checked against above)
                exp = c['model'][0] if c['model'] is not None else cliques_bruteforce(c['n'], adj_sets(c['n'], c['E']), 3)
                if got != {'ok': [exp] * repeat}:
                    ctx.violation('count_triangles', 'parallel count on directed input differs from the model',
                                  case=dict(n=c['n'], edges=c['E'], directed=True), expected=exp, observed=got,
                                  parallelize=True, threads=t, family=c['fam'], kind='oracle', directed=True)

    # ---- cores on medium sparse graphs with many degree ties (heap layouts that small graphs never produce: a faulty
    #      decrease_key / heapify order needs two tied neighbours in parent / child slots; about 1 % of such graphs at n = 20..40)
    core_medium = 0
    witness = [[2, 5, 6, 7], [6], [0, 4, 6], [4, 7], [2, 3, 5], [0, 4, 6, 7], [0, 1, 2, 5], [0, 3, 5]]
    medium = [(8, sorted({(i, j) for i, row in enumerate(witness) for j in row}), 'core_witness_8')]
    for _ in range(700 if quick else 6000):
        n = rng.randint(12, 40)
        m_edges = int(n * rng.choice([1.2, 1.5, 2.0, 2.5, 3.0]))
        E = set()
        while len(E) < m_edges:
            i, j = rng.randrange(n), rng.randrange(n)
            if i != j:
                E.add((min(i, j), max(i, j)))
        medium.append((n, gen.sym(sorted(E)), 'core_medium_sparse'))
    with Impl(scratch) as impl:
        for (n, E, fam) in medium:
            adj = adj_sets(n, E)
            _, exp = peeling(n, adj)
            got = impl.call('c11', 'core', dict(m=mspec(n, E, 'int')), timeout=30)
            ctx.traces += 1
            core_medium += 1
            ctx.count(fam, ('cm', n, tuple(E)), True)
            if got != {'ok': {'ok': exp}} and got != {'ok': exp}:
                ctx.violation('get_core_decomposition', 'labels are not the core numbers (peeling oracle) on a medium sparse graph',
                              case=dict(n=n, edges=[e for e in E if e[0] < e[1]], dtype='int'), expected=exp, observed=got,
                              family=fam, kind='oracle')
    ctx.extra['core_medium_graphs'] = core_medium
    # ---- one large star with a triangle at the hub: the number of connected triples d(d-1)/2 of the hub exceeds 2^31 (finding D37:
    #      int32 degrees overflowed and the coefficient came out negative)
    big = 50001
    E = gen.sym([(0, v) for v in range(1, big)] + [(1, 2)])
    with Impl(scratch) as impl:
        got = impl.call('c11', 'coefficient', dict(m=mspec(big, E, 'int')), timeout=300)
        ctx.traces += 1
        ctx.count('coefficient_large_star', ('star', big), True)
        triples = (big - 1) * (big - 2) // 2 + 2 * 1        # hub + the two leaves of degree 2
        exp = 3 * 1 / triples
        val = got.get('ok')
        val = val.get('ok') if isinstance(val, dict) else val
        if not isinstance(val, (int, float)) or abs(val - exp) > 1e-9 * exp:
            ctx.violation('get_clustering_coefficient', 'coefficient of a %d-node star with one triangle is not 3T / #connected triples '
                          '(the hub alone has more than 2^31 connected triples)' % big,
                          case=dict(n=big, edges='star centred at 0 plus the edge (1, 2)', dtype='int'), expected=exp, observed=got,
                          family='large_star', kind='oracle')

    ctx.extra['c11'] = dict(graphs=len(cases), directed_graphs=len(tri_dir), clique_runs=clique_runs,
                            coefficient_undefined_skipped=coef_skipped, parallel_runs=par_runs,
                            thread_counts=[1] + threads, repeat=repeat,
                            clique_budget=budget,
                            graphs_with_restricted_k=len([c for c in cases if c['profile'] is None]))
    ctx.rule = ('all undirected simple graphs on n<=4 nodes (quick: + 600 sampled of the 1024 on 5 nodes; thorough: all on 5, '
                '1500 sampled on 6), structured random loop-free symmetric graphs from harness/gen.py (13 families, n<=%d) '
                'and relabelled copies; per graph: count_triangles (parallelize False/True), get_core_decomposition, '
                'get_clustering_coefficient (both parallelize values; skipped when no connected triple exists), '
                'count_cliques for every k in 2..n (k in {2,3,4} only when the graph has more than %d cliques); directed '
                'loop-free graphs for count_triangles vs the symmetrised graph; parallelize=True repeated %d times under '
                'OMP_NUM_THREADS in %s. Model evaluated by vm_compute inside Coq (L0 kernels and L1 set-level models, '
                'peel run on an independently computed removal order); oracles: brute-force subset enumeration, simple '
                'peeling and a definition check of core numbers. distinct = hash of (kind, n, edge list[, threads]); '
                'non-trivial = at least one edge' % (nmax, budget, repeat, [1] + threads))
    ctx.assumptions = ['matrices are 0/1 CSR, symmetric and loop-free for cores / cliques / coefficient (undirected simple graphs); '
                       'count_triangles is also fed directed loop-free input',
                       'no explicitly stored zeros; counts fit in a C long, clique sizes in a C short',
                       'np.argsort(core values) is treated as an oracle returning a permutation (checked on every run)',
                       'OpenMP interleavings are sampled (thread counts x repetitions), not enumerated; all interleavings of the '
                       'reduction are covered by count_triangles_schedule_independent on the model',
                       'MinHeap storage (reserve vs resize, DESIGN D12) is a memory-safety matter left to C17; it does not change results']

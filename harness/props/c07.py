"""C07 — hierarchical algorithms always return a valid dendrogram.

ORACLE (on the implementation's outputs, written independently of the models): validity of dendrogram_,
dendrogram_row_, dendrogram_col_, dendrogram_full_ exactly as the property states.
CORRESPONDENCE (model evaluated inside Coq by vm_compute vs the real code):
  * get_dendrogram / reorder_dendrogram / split_dendrogram called directly on random trees / dendrograms: exact;
  * Paris, exact-Q model: merges compared as sets of leaf sets, heights at rel 2e-4, near-tie runs dropped by the
    margin guard and counted;
  * Paris, IEEE model (C float = 24 bits, double = 53 bits, round to nearest even): rows and heights bit for bit;
  * LouvainHierarchy / LouvainIteration: tree construction + post-processing around the recorded Louvain answers: exact.
"""
import itertools
import math
from fractions import Fraction

from .. import gen
from ..common import cnat, cq, cz, cbool, clist, safe_coq_eval
from ..impl import Impl

GEN_FILES = ['ParisSrc.v']     # how the source computes the height of a merge, C type of the similarities
IMPORTS = ['Base.Util', 'Model.Dendrogram', 'Model.Cuts', 'Model.Hierarchy', 'Model.Paris', 'Gen.ParisSrc']
HINF = Fraction(10 ** 9)        # stands for float('inf') in the models
TOL32 = 2e-4                    # float32 similarity kernel (DESIGN.md App. C)
MARGIN = Fraction(1, 10000)

PRELUDE = '''
Definition qq (q : Q) : Z * Z := (Qnum q, Zpos (Qden q)).
Definition cvd (D : dendrogram) := map (fun r => (r_left r, r_right r, qq (r_height r), r_size r)) D.
Definition cvr (r : result dendrogram) := match r with Ok D => Ok (cvd D) | Err e => Err e end.
Definition cvg (r : result (dendrogram * nat)) := match r with Ok (D, i) => Ok (cvd D, i) | Err e => Err e end.
Definition cvs (r : result (dendrogram * dendrogram)) := match r with Ok (D, E) => Ok (cvd D, cvd E) | Err e => Err e end.
Definition cvp (o : option (result (dendrogram * option Q * nat))) :=
  match o with
  | Some (Ok (D, m, t)) => Ok (cvd D, match m with Some q => [qq q] | None => [] end, t)
  | Some (Err e) => Err e
  | None => Err IndexError
  end.
Definition cvb (o : option (result (dendrogram * dendrogram * dendrogram))) :=
  match o with
  | Some (Ok (D, Dr, Dc)) => Ok [cvd D; cvd Dr; cvd Dc]
  | Some (Err e) => Err e
  | None => Err IndexError
  end.
(* the model of the CURRENT source: clamp and float width as extracted by harness/translators/paris.py *)
Definition src_rounding : rounding := if paris_src_float32 then ieee else {| r32 := rne 53; r64 := rne 53 |}.
Definition paris_src (R : rounding) := paris_fit_gen R paris_src_clamp.
Definition paris_src_bipartite (R : rounding) (hinf : Q) (degree reorder : bool) (n1 n2 : nat) (B : entries) :=
  match paris_src R hinf degree reorder (n1 + n2) (biadj_block n1 B) with
  | None => None
  | Some (Err e) => Some (Err e)
  | Some (Ok (D, _, _)) =>
      match split_dendrogram D n1 n2 with
      | Ok (Dr, Dc) => Some (Ok (D, Dr, Dc))
      | Err e => Some (Err e)
      end
  end.
Fixpoint leqb (a b : list nat) : bool :=
  match a, b with
  | [], [] => true
  | x :: a', y :: b' => Nat.eqb x y && leqb a' b'
  | _, _ => false
  end.
Definition tab_oracle (tab : list (list nat * list nat)) (l : list nat) : list nat :=
  match find (fun p => leqb (fst p) l) tab with Some p => snd p | None => [] end.
Definition tab_edge (tab : list (list nat * bool)) (l : list nat) : bool :=
  match find (fun p => leqb (fst p) l) tab with Some p => snd p | None => false end.
'''


# ---------------------------------------------------------------------------------------------------------------
# the property oracle (independent of the models)
# ---------------------------------------------------------------------------------------------------------------
def check_dendrogram(info, n, monotone):
    """None when `info` (shape + rows as returned by the worker) is a valid dendrogram over n leaves, else
    (kind, detail).  Exactly the property: n-1 rows; row t merges two distinct clusters existing at step t, each
    merged exactly once; size = number of original nodes below, n in the last row; heights never decrease
    (when `monotone`)."""
    if info is None:
        return ('missing', 'attribute is None')
    shape, rows = info['shape'], info['rows']
    if n - 1 == 0:
        return None if (len(rows) == 0) else ('shape', 'expected no row, got shape %s' % shape)
    if shape != [n - 1, 4]:
        return ('shape', 'expected (%d, 4), got %s' % (n - 1, tuple(shape)))
    live = {i: 1 for i in range(n)}
    for t, (i, j, h, s) in enumerate(rows):
        if i != int(i) or j != int(j) or i < 0 or j < 0:
            return ('ids', 'row %d: ids %r, %r' % (t, i, j))
        i, j = int(i), int(j)
        if i == j:
            return ('same_cluster', 'row %d merges cluster %d with itself' % (t, i))
        for c in (i, j):
            if c not in live:
                if c >= n + t:
                    return ('not_yet_created', 'row %d merges cluster %d, which is created by row %d' % (t, c, c - n))
                return ('merged_twice', 'row %d merges cluster %d, which was merged before' % (t, c))
        sz = live.pop(i) + live.pop(j)
        if s != sz:
            return ('size', 'row %d: size column %r, %d original nodes below' % (t, s, sz))
        if isinstance(h, float) and math.isnan(h):
            return ('nan_height', 'row %d' % t)
        live[n + t] = sz
    if rows[-1][3] != n:
        return ('last_size', 'last size %r != %d' % (rows[-1][3], n))
    if monotone:
        for t in range(len(rows) - 1):
            if rows[t][2] > rows[t + 1][2]:
                return ('heights_decrease', 'height %r of row %d > height %r of row %d' % (rows[t][2], t, rows[t + 1][2], t + 1))
    return None


def leaf_sets(rows, n):
    sets = {i: frozenset([i]) for i in range(n)}
    for t, r in enumerate(rows):
        sets[n + t] = sets[int(r[0])] | sets[int(r[1])]
    return sets


def merges_of(rows, n, shift=0):
    """Sequence of (unordered pair of leaf sets, height) of a valid dendrogram."""
    ls = leaf_sets(rows, n)
    return [(frozenset([frozenset(x + shift for x in ls[int(r[0])]), frozenset(x + shift for x in ls[int(r[1])])]), r[2])
            for r in rows]


def restricted(rows, n, side):
    """The merges of the full dendrogram among clusters that both contain a node of `side`, restricted to it."""
    ls = leaf_sets(rows, n)
    out = []
    for r in rows:
        a = ls[int(r[0])] & side
        b = ls[int(r[1])] & side
        if a and b:
            out.append((frozenset([a, b]), r[2]))
    return out


def inversion(rows, n):
    """Largest relative amount by which a merge is below a merge that created one of its children (valid rows)."""
    worst = 0.0
    for t, r in enumerate(rows):
        for c in (int(r[0]), int(r[1])):
            if c >= n:
                hc = rows[c - n][2]
                if hc > r[2] and math.isfinite(hc):
                    worst = max(worst, (hc - r[2]) / abs(hc))
    return worst


# ---------------------------------------------------------------------------------------------------------------
# generators
# ---------------------------------------------------------------------------------------------------------------
def und(edges_w):
    """[(i, j, w)] with i < j -> COO triples of the symmetric matrix."""
    out = []
    for (i, j, w) in edges_w:
        out.append([i, j, w])
        if i != j:
            out.append([j, i, w])
    return out


def spec(nr, nc, coo, dtype=None):
    if dtype is None:
        dtype = 'int' if all(float(e[2]) == int(e[2]) for e in coo) else 'float'
    return {'shape': [nr, nc], 'coo': [[e[0], e[1], e[2]] for e in coo], 'dtype': dtype, 'fmt': 'csr'}


# Known reproducers of D25 (found by the design probe and by this check's own search), run first.
CORPUS = [
    ('d25_6', 6, [(0, 1, 3), (0, 2, 3), (2, 3, 2), (3, 4, 2), (3, 5, 2), (4, 5, 1)]),
    ('d25_5_isolated', 5, [(1, 3, 2), (1, 4, 2), (2, 3, 1), (2, 4, 1), (3, 4, 3)]),
    ('d25_5', 5, [(0, 1, 1), (0, 2, 1), (0, 3, 1), (1, 2, 2), (1, 3, 3), (2, 3, 3), (3, 4, 2)]),
]


def tie_rich(rng, fam):
    """Graphs with many equal similarities: unit weights, regular structures."""
    if fam == 'gnp_unit':
        n = rng.randint(8, 40)
        p = rng.choice([0.1, 0.15, 0.25])
        return n, [(i, j, 1) for i in range(n) for j in range(i + 1, n) if rng.random() < p]
    if fam == 'gnp_int':
        n = rng.randint(8, 40)
        p = rng.choice([0.1, 0.15, 0.25])
        return n, [(i, j, rng.randint(1, 3)) for i in range(n) for j in range(i + 1, n) if rng.random() < p]
    if fam == 'cliques_chain':
        k = rng.randint(2, 5)
        E, off, prev = [], 0, None
        for _ in range(k):
            s = rng.randint(2, 6)
            E += [(off + i, off + j, 1) for i in range(s) for j in range(i + 1, s)]
            if prev is not None:
                E.append((prev, off, rng.choice([1, 1, 2])))
            prev = off + s - 1
            off += s
        return off, E
    if fam == 'circulant':
        n = rng.randint(8, 30)
        ks = rng.sample(range(1, n // 2), rng.randint(1, 3))
        E = set()
        for i in range(n):
            for k in ks:
                a, b = sorted((i, (i + k) % n))
                if a != b:
                    E.add((a, b, 1))
        E = sorted(E)
        for _ in range(rng.randint(0, 3)):
            if len(E) > 1:
                E.pop(rng.randrange(len(E)))
        return n, E
    if fam == 'grid':
        w, h = rng.randint(2, 6), rng.randint(2, 6)
        n = w * h
        E = []
        for i in range(n):
            if (i + 1) % w:
                E.append((i, i + 1, 1))
            if i + w < n:
                E.append((i, i + w, 1))
        return n, E
    if fam == 'complete_bipartite':
        a, b = rng.randint(1, 5), rng.randint(2, 6)
        return a + b, [(i, a + j, 1) for i in range(a) for j in range(b)]
    if fam == 'cycle':
        n = rng.randint(3, 30)
        return n, [(i, (i + 1) % n, 1) if i + 1 < n else (0, i, 1) for i in range(n)]
    raise ValueError(fam)


def near_tie(rng):
    """A triangle / small clique with weights 1 + k * 1.4e-6 (k = 0, 1, 2, ...: similarities within a relative 1e-6 of
    each other but not equal) placed on random indices of a graph with 8..32 nodes.  CPython iterates a small set
    of ints by index mod 8, so placements whose residues mod 8 DEcrease while the indices INcrease (a node meets its
    higher-indexed neighbour first) and placements with equal residues are over-sampled.  The other nodes are
    isolated or carry a few unit edges among themselves."""
    n = rng.randint(8, 32)
    k = rng.choice([3, 3, 3, 4])
    mode = rng.choice(['descending', 'descending', 'same_residue', 'random'])
    nodes = None
    if mode == 'descending':
        for _ in range(50):
            res = sorted(rng.sample(range(8), k), reverse=True)
            cand, lo = [], -1
            for r_ in res:
                opts = [i for i in range(n) if i % 8 == r_ and i > lo]
                if not opts:
                    break
                lo = rng.choice(opts[:2])
                cand.append(lo)
            if len(cand) == k:
                nodes = cand
                break
    elif mode == 'same_residue':
        r_ = rng.randrange(8)
        opts = [i for i in range(n) if i % 8 == r_]
        if len(opts) >= k:
            nodes = sorted(rng.sample(opts, k))
    if nodes is None:
        nodes = sorted(rng.sample(range(n), k))
    pairs = [(nodes[a], nodes[b]) for a in range(k) for b in range(a + 1, k)]
    ks = list(range(len(pairs)))
    if rng.random() < 0.5:
        rng.shuffle(ks)
    k0 = rng.choice([0, 0, 1])
    E = [(i, j, 1 + (k0 + q) * 1.4e-6) for (i, j), q in zip(pairs, ks)]
    others = [i for i in range(n) if i not in nodes]
    if rng.random() < 0.5:
        for _ in range(rng.randint(1, 5)):
            if len(others) >= 2:
                a, b = sorted(rng.sample(others, 2))
                if not any(e[0] == a and e[1] == b for e in E):
                    E.append((a, b, 1))
    return n, E, mode


def rtree(rng, leaves):
    if len(leaves) == 1:
        return ['L', leaves[0]]
    k = rng.randint(2, min(len(leaves), 5))
    cuts = sorted(rng.sample(range(1, len(leaves)), k - 1))
    parts = [leaves[a:b] for a, b in zip([0] + cuts, cuts + [len(leaves)])]
    return ['N', [rtree(rng, p) for p in parts]]


def all_trees(leaves):
    """All trees (ordered set partitions, recursively) over a short list of leaves."""
    if len(leaves) == 1:
        yield ['L', leaves[0]]
        return
    n = len(leaves)
    for k in range(2, n + 1):
        for cuts in itertools.combinations(range(1, n), k - 1):
            parts = [leaves[a:b] for a, b in zip((0,) + cuts, cuts + (n,))]
            for combo in itertools.product(*[list(all_trees(p)) for p in parts]):
                yield ['N', list(combo)]


def ctree(t):
    return '(PLeaf %d)' % t[1] if t[0] == 'L' else '(PNode %s)' % clist([ctree(c) for c in t[1]])


def tree_leaves(t):
    return [t[1]] if t[0] == 'L' else [x for c in t[1] for x in tree_leaves(c)]


def rdend(rng, n, heights):
    """A valid dendrogram (random merge order) with the given kind of heights."""
    live = list(range(n))
    size = {i: 1 for i in range(n)}
    hgt = {i: Fraction(0) for i in range(n)}
    rows = []
    for t in range(n - 1):
        a, b = rng.sample(live, 2)
        live = [x for x in live if x not in (a, b)] + [n + t]
        size[n + t] = size[a] + size[b]
        if heights == 'monotone':      # parent never below its children, many ties
            h = max(hgt[a], hgt[b]) + Fraction(rng.choice([0, 0, 1, 2]), 2)
        elif heights == 'distinct':
            h = max(hgt[a], hgt[b]) + Fraction(rng.randint(1, 4), 4) + Fraction(t, 1024)   # dyadic: exact as a float
        elif heights == 'sorted':
            h = Fraction(t // 2)
        else:                          # arbitrary: parents may be lower than their children
            h = Fraction(rng.randint(0, 6), 2)
        hgt[n + t] = h
        rows.append([a, b, h, size[n + t]])
    return rows


def cdend(rows):
    return clist(['(%d, %d, %s, %d)' % (a, b, cq(h), s) for a, b, h, s in rows])


def centries(coo):
    return clist(['(%d, %d, %s)' % (e[0], e[1], cq(Fraction(e[2]))) for e in coo])


def frac_rows(rows):
    """Model rows with (num, den) heights -> [(i, j, Fraction, size)]."""
    return [(i, j, Fraction(h[0], h[1]), s) for (i, j, h, s) in rows]


def impl_frac_rows(rows):
    return [(int(r[0]), int(r[1]), (Fraction(r[2]) if math.isfinite(r[2]) else HINF), int(r[3])) for r in rows]


# ---------------------------------------------------------------------------------------------------------------
def _flat4(x):
    """(a, b, (num, den), s) in whatever nesting the parser / the worker gives -> [a, b, num, den, s]"""
    out = []

    def rec(y):
        if isinstance(y, (list, tuple)):
            for z in y:
                rec(z)
        else:
            out.append(int(y))
    rec(x)
    return out


def model_vals(ctx, tag, exprs, **kw):
    """Model values, one per expression; a list of None when the model no longer evaluates (recorded in ctx.proof_broken by
    safe_coq_eval): the model comparison of each case is then skipped, the validity oracles on the implementation's output stay."""
    vals = safe_coq_eval(ctx, tag, IMPORTS, exprs, prelude=PRELUDE, **kw)
    return vals if vals is not None else [None] * len(exprs)


def run(ctx, scratch):
    rng = ctx.rng
    quick = ctx.tier == 'quick'
    nmax = 12 if quick else 40
    stats = dict(paris_fits=0, louvain_fits=0, d25=0, hangs=0)
    MAX_HANGS = 3      # every hang costs a time-out and a worker restart: stop searching once it is established

    def report_invalid(site, attr, res, case, n, extra):
        kind, detail = res
        ctx.violation(site, '%s is not a valid dendrogram: %s' % (attr, detail), case=case,
                      expected='a valid dendrogram over %d nodes (property C07)' % n, observed=extra.pop('observed', None),
                      kind='invalid_dendrogram', attribute=attr, failure=kind, **extra)

    def check_attrs(site, algo, opts, out, n, n1, n2, case, monotone, paris_plain=None):
        """Property oracle on one fit.  Returns True when every attribute is fine."""
        ok = True
        if out['bipartite']:
            full = out['full']
            res = check_dendrogram(full, n1 + n2, monotone)
            if res:
                cause = 'other'
                if algo == 'Paris' and paris_plain is not None:
                    cause = classify_d25(paris_plain, n1 + n2)
                report_invalid(site, 'dendrogram_full_', res, case, n1 + n2, dict(cause=cause, observed=full))
                return False
            for attr, cnt, lo in (('row', n1, 0), ('col', n2, n1)):
                d = out[attr]
                res = check_dendrogram(d, cnt, monotone)
                if res:
                    report_invalid(site, 'dendrogram_%s_' % attr, res, case, cnt, dict(cause='split', observed=d))
                    ok = False
                    continue
                side = frozenset(range(lo, lo + cnt))
                exp = restricted(full['rows'], n1 + n2, side)
                got = merges_of(d['rows'], cnt, shift=lo)
                if exp != got:
                    ctx.violation(site, 'dendrogram_%s_ does not agree with dendrogram_full_ restricted to that side' % attr,
                                  case=case, expected=[[sorted(map(sorted, p)), h] for p, h in exp],
                                  observed=[[sorted(map(sorted, p)), h] for p, h in got], kind='split_disagrees',
                                  attribute='dendrogram_%s_' % attr)
                    ok = False
            if out['dendrogram'] != out['row']:
                ctx.violation(site, 'dendrogram_ is not dendrogram_row_ for bipartite input', case=case,
                              expected=out['row'], observed=out['dendrogram'], kind='attribute_mismatch')
                ok = False
        else:
            res = check_dendrogram(out['dendrogram'], n, monotone)
            if res:
                cause = 'other'
                if algo == 'Paris' and paris_plain is not None:
                    cause = classify_d25(paris_plain, n)
                report_invalid(site, 'dendrogram_', res, case, n, dict(cause=cause, observed=out['dendrogram']))
                ok = False
        return ok

    def classify_d25(plain, n):
        """`plain`: the rows of the same fit with reorder=False.  D25 = these rows are valid, but a merge is lower
        than the merge that created one of its children by no more than float32 round-off."""
        if check_dendrogram(plain, n, False) is not None:
            return 'other'
        inv = inversion(plain['rows'], n)
        if 0 < inv <= TOL32:
            stats['d25'] += 1
            return 'float32_height_inversion'
        return 'other'

    impl = Impl(scratch)
    try:
        # =====================================================================================================
        # 1. ORACLE on the three algorithms
        # =====================================================================================================
        def paris_case(fam, n, coo, n1=None, n2=None, directed=False, runs=None, timeout=15, cause='nearest_neighbour_chain'):
            """All four (weights, reorder) combinations on one matrix."""
            bip = n1 is not None
            m = spec(n1, n2, coo) if bip else spec(n, n, coo)
            if stats['hangs'] >= MAX_HANGS:
                return None
            runs = runs or [dict(weights=w, reorder=ro) for w in ('degree', 'uniform') for ro in (False, True)]
            r = impl.call('c07', 'fit_many', dict(algo='Paris', m=m, runs=runs, force_bipartite=bip), timeout=timeout)
            ctx.traces += len(runs)
            stats['paris_fits'] += len(runs)
            nontrivial = len(coo) > 0
            ctx.count('oracle:Paris:' + fam, ('Paris', m), nontrivial, n=len(runs))
            if r.get('hang'):
                stats['hangs'] += 1
                ctx.violation('Paris', 'fit does not return within %g s on a %d-node graph (the nearest-neighbour chain cycles)' % (timeout, n),
                              case=dict(algo='Paris', runs=runs, m=m, family=fam), expected='a dendrogram (a fit on a graph of this '
                              'size takes milliseconds)', observed='no answer; worker killed after the time-out', kind='hang',
                              cause=cause, family=fam)
                return None
            if 'ok' not in r:
                ctx.violation('Paris', 'fit did not return', case=dict(m=m), observed=r, kind='no_result', family=fam)
                return None
            outs = r['ok']
            plain = {}
            for opts, o in zip(runs, outs):
                if 'ok' in o and not opts['reorder']:
                    plain[opts['weights']] = o['ok']['full'] if o['ok']['bipartite'] else o['ok']['dendrogram']
            for opts, o in zip(runs, outs):
                case = dict(algo='Paris', opts=opts, m=m, family=fam)
                if 'ok' not in o:
                    ctx.violation('Paris', 'fit raised %s on a graph with at least two nodes and one edge' % o.get('err'),
                                  case=case, observed=o, kind='exception', family=fam)
                    continue
                check_attrs('Paris', 'Paris', opts, o['ok'], n, n1, n2, case, opts['reorder'], plain.get(opts['weights']))
            return outs

        # corpus first
        for name, n, E in CORPUS:
            paris_case('corpus_' + name, n, und(E))
        # near-tie search (termination of the chain depends on the exact, smallest-index tie rule): supervised, short time-out
        for _ in range(80 if quick else 600):
            n, E, mode = near_tie(rng)
            paris_case('near_tie_' + mode, n, und(E), runs=[dict(weights='degree', reorder=True), dict(weights='uniform', reorder=True)],
                       timeout=4, cause='tie_rule')
        # all undirected graphs on n <= 4 nodes with at least one edge, sampled n = 5
        for n in (2, 3, 4):
            for E in gen.all_undirected(n):
                if E:
                    paris_case('exh_%d' % n, n, und([(i, j, 1) for (i, j) in E]))
        g5 = [E for E in gen.all_undirected(5) if E]
        for E in rng.sample(g5, 60 if quick else 600):
            w = rng.choice([1, 1, 2])
            paris_case('exh_5', 5, und([(i, j, rng.randint(1, w)) for (i, j) in E]))
        # structured random (13 families: weighted / unweighted / disconnected / isolated nodes / cliques / stars ...)
        structured = []
        for _ in range(140 if quick else 1200):
            n, E, fam = gen.random_graph(rng, nmax, directed=False, allow_loops=True)
            if not E:
                continue
            EW, kind = gen.random_weights(rng, E)
            coo = [[i, j, w] for (i, j, w) in EW]
            structured.append((fam + ':' + kind, n, coo))
            paris_case('rnd_' + fam, n, coo)
        # directed graphs (Paris symmetrises them)
        for _ in range(30 if quick else 300):
            n, E, fam = gen.random_graph(rng, nmax, directed=True, allow_loops=False)
            if not E:
                continue
            EW, kind = gen.random_weights(rng, E, directed=True)
            paris_case('dir_' + fam, n, [[i, j, w] for (i, j, w) in EW], directed=True)
        # bipartite (rectangular biadjacency)
        bips = []
        for (r, c) in ((1, 2), (2, 1), (2, 2), (2, 3), (3, 2)):
            mats = [E for E in gen.all_biadj(r, c) if E]
            if len(mats) > 20:
                mats = rng.sample(mats, 20 if quick else 60)
            for E in mats:
                bips.append((r, c, [[i, j, 1] for (i, j) in E]))
        for _ in range(60 if quick else 500):
            r, c, E = gen.random_biadj(rng, 6 if quick else 14, 6 if quick else 14)
            if r == c:
                c += 1
            if E:
                wmax = rng.choice([1, 3])
                bips.append((r, c, [[i, j, rng.randint(1, wmax)] for (i, j) in E]))
        for (r, c, coo) in bips:
            paris_case('bip_%s' % ('small' if r * c <= 6 else 'rnd'), r + c, coo, n1=r, n2=c)
        # the search for D25: graphs with many equal similarities, up to 40 nodes in both tiers (Paris is fast)
        fams = ['gnp_unit', 'cliques_chain', 'cliques_chain', 'circulant', 'gnp_int', 'grid', 'complete_bipartite', 'cycle']
        for k in range(2400 if quick else 12000):
            fam = fams[k % len(fams)]
            n, E = tie_rich(rng, fam)
            if E and n >= 2:
                paris_case('ties_' + fam, n, und(E))
        # rank-one weights A = x x^T with self-loops: EVERY pair of clusters has similarity exactly 1 at every level, so the merge
        # heights differ by float32 rounding only (seed C07_13 needed exact ties over three successive levels)
        for k in range(300 if quick else 3000):
            n = rng.randint(5, 14)
            x = [rng.randint(1, 5) for _ in range(n)]
            paris_case('ties_rank_one', n, [[i, j, x[i] * x[j]] for i in range(n) for j in range(n)])

        # ---- LouvainHierarchy / LouvainIteration
        def louvain_case(fam, n, coo, n1=None, n2=None, k=2):
            bip = n1 is not None
            m = spec(n1, n2, coo) if bip else spec(n, n, coo)
            for algo in ('LouvainHierarchy', 'LouvainIteration'):
                runs = []
                for _ in range(k):
                    o = dict(resolution=rng.choice([0.5, 1, 1, 2]), shuffle_nodes=rng.random() < 0.4,
                             random_state=rng.choice([0, 1, 7]))
                    if algo == 'LouvainIteration':
                        o['depth'] = rng.choice([-1, 0, 1, 2, 3])
                    runs.append(o)
                r = impl.call('c07', 'fit_many', dict(algo=algo, m=m, runs=runs, force_bipartite=bip), timeout=120)
                ctx.traces += len(runs)
                stats['louvain_fits'] += len(runs)
                ctx.count('oracle:%s:%s' % (algo, fam), (algo, m, runs), len(coo) > 0, n=len(runs))
                if 'ok' not in r:
                    ctx.violation(algo, 'fit did not return', case=dict(m=m, runs=runs), observed=r, kind='no_result', family=fam)
                    continue
                for opts, o in zip(runs, r['ok']):
                    case = dict(algo=algo, opts=opts, m=m, family=fam)
                    if 'ok' not in o:
                        ctx.violation(algo, 'fit raised %s on a graph with at least two nodes and one edge' % o.get('err'),
                                      case=case, observed=o, kind='exception', family=fam)
                        continue
                    check_attrs(algo, algo, opts, o['ok'], n, n1, n2, case, True)

        for n in (2, 3, 4):
            for E in gen.all_undirected(n):
                if E:
                    louvain_case('exh_%d' % n, n, und([(i, j, 1) for (i, j) in E]), k=1)
        for E in rng.sample(g5, 30 if quick else 300):
            louvain_case('exh_5', 5, und([(i, j, 1) for (i, j) in E]), k=1)
        # graphs where Louvain finds a single cluster: stars, small cliques, [[1,1],[1,0]]
        louvain_case('single_cluster', 2, [[0, 0, 1], [0, 1, 1], [1, 0, 1]])
        for n in range(2, 9 if quick else 16):
            louvain_case('single_cluster_star', n, und([(0, i, 1) for i in range(1, n)]), k=1)
            louvain_case('single_cluster_clique', n, und([(i, j, 1) for i in range(n) for j in range(i + 1, n)]), k=1)
        for (fam, n, coo) in structured[: (90 if quick else 800)]:
            louvain_case('rnd_' + fam.split(':')[0], n, coo)
        for (r, c, coo) in bips[: (50 if quick else 400)]:
            louvain_case('bip', r + c, coo, n1=r, n2=c, k=1)

        # =====================================================================================================
        # 2. CORRESPONDENCE: post-processing functions called directly
        # =====================================================================================================
        # ---- get_dendrogram on all trees over <= 4 leaves and random trees
        trees = []
        for n in (2, 3, 4):
            for perm in (list(range(n)), list(range(n))[::-1]):
                trees += list(all_trees(perm))
        for _ in range(150 if quick else 1500):
            n = rng.randint(2, nmax)
            lv = list(range(n))
            rng.shuffle(lv)
            trees.append(rtree(rng, lv))
        vals = model_vals(ctx, 'c07gd', ['cvg (get_dendrogram %s)' % ctree(t) for t in trees])
        for t, v in zip(trees, vals):
            r = impl.call('c07', 'tree_dendrogram', dict(tree=t))
            ctx.traces += 1
            n = len(tree_leaves(t))
            ctx.count('corr:get_dendrogram', ('gd', t), True)
            got = None
            if 'ok' in r:
                got = ('Ok', ([(int(x[0]), int(x[1]), (int(x[2]), 1), int(x[3])) for x in r['ok']['rows']], r['ok']['index']))
            if v is not None and got != v:
                ctx.violation('get_dendrogram', 'implementation differs from the model', case=dict(tree=t), expected=v,
                              observed=r, kind='model_mismatch')
            elif 'ok' in r:
                res = check_dendrogram({'shape': [n - 1, 4], 'rows': r['ok']['rows']}, n, False)
                if res:
                    ctx.violation('get_dendrogram', 'rows are not a valid dendrogram: %s' % res[1], case=dict(tree=t),
                                  observed=r['ok'], kind='invalid_dendrogram', cause='get_dendrogram', failure=res[0])
        ctx.sample(dict(kind='get_dendrogram', tree=trees[-1], model=vals[-1]))

        # ---- reorder_dendrogram on random valid dendrograms (monotone with ties / distinct / arbitrary heights)
        dends = []
        for _ in range(200 if quick else 2000):
            n = rng.randint(2, nmax)
            dends.append((n, rdend(rng, n, rng.choice(['monotone', 'monotone', 'distinct', 'sorted', 'arbitrary']))))
        vals = model_vals(ctx, 'c07ro', ['cvr (reorder_dendrogram %s)' % cdend(D) for (_, D) in dends])
        for (n, D), v in zip(dends, vals):
            r = impl.call('c07', 'reorder', dict(rows=[[a, b, float(h), s] for a, b, h, s in D]))
            ctx.traces += 1
            ctx.count('corr:reorder_dendrogram', ('ro', D), True)
            got = ('Ok', [(int(x[0]), int(x[1]), (Fraction(x[2]).numerator, Fraction(x[2]).denominator), int(x[3]))
                          for x in r['ok']['rows']]) if 'ok' in r else None
            if v is not None and got != v:
                ctx.violation('reorder_dendrogram', 'implementation differs from the model', case=dict(rows=D), expected=v,
                              observed=r, kind='model_mismatch')
                continue
            if 'ok' not in r:
                continue       # (model dead and no output to judge)
            # property side (theorem reorder_valid): valid + no parent below a child  =>  output valid and sorted
            fl = [[a, b, float(h), s] for a, b, h, s in D]
            if inversion(fl, n) == 0:
                res = check_dendrogram({'shape': [n - 1, 4], 'rows': r['ok']['rows']}, n, True)
                if res:
                    ctx.violation('reorder_dendrogram', 'output invalid although no merge is below its children: %s' % res[1],
                                  case=dict(rows=D), observed=r['ok'], kind='invalid_dendrogram', cause='reorder', failure=res[0])
            if not r['ok']['input_unchanged']:
                ctx.violation('reorder_dendrogram', 'input array modified', case=dict(rows=D), kind='input_modified')

        # ---- split_dendrogram on random valid dendrograms over n1 + n2 leaves
        sp = []
        for _ in range(200 if quick else 2000):
            n1, n2 = rng.randint(1, 6 if quick else 14), rng.randint(1, 6 if quick else 14)
            sp.append((n1, n2, rdend(rng, n1 + n2, rng.choice(['monotone', 'sorted', 'distinct']))))
        vals = model_vals(ctx, 'c07sp', ['cvs (split_dendrogram %s %d %d)' % (cdend(D), n1, n2) for (n1, n2, D) in sp])
        for (n1, n2, D), v in zip(sp, vals):
            r = impl.call('c07', 'split', dict(rows=[[a, b, float(h), s] for a, b, h, s in D], shape=[n1, n2]))
            ctx.traces += 1
            ctx.count('corr:split_dendrogram', ('sp', n1, n2, D), True)

            def conv(info):
                return [(int(x[0]), int(x[1]), (Fraction(x[2]).numerator, Fraction(x[2]).denominator), int(x[3]))
                        for x in info['rows']]
            got = ('Ok', (conv(r['ok']['row']), conv(r['ok']['col']))) if 'ok' in r else None
            if v is not None and got != v:
                ctx.violation('split_dendrogram', 'implementation differs from the model', case=dict(rows=D, shape=[n1, n2]),
                              expected=v, observed=r, kind='model_mismatch')

        # ---- the statements regenerated from postprocess.py:split_dendrogram (Gen/PySplit.v, theorem source_split_dendrogram_is_model)
        #      run inside Coq on the same dendrograms: same rows as the implementation
        src_prelude = '''
From Coq Require Import String.
Local Open Scope string_scope.
Definition qq2 (q : Q) : Z * Z := (Qnum q, Zpos (Qden q)).
Definition dec_nat2 (v : val) : nat := match v with VInt z => Z.to_nat z | _ => 0 end.
Definition dec_row2 (v : val) : nat * nat * (Z * Z) * nat :=
  match v with VList [a; b; VNum h; s] => (dec_nat2 a, dec_nat2 b, qq2 h, dec_nat2 s) | _ => (0, 0, (0%Z, 1%Z), 0) end.
Definition src_split (D : dendrogram) (n1 n2 : nat) :=
  match exec src_split_dendrogram (env_of [("dendrogram", embD D); ("shape", VList [vnat n1; vnat n2])]) with
  | POk e => match e "dendrogram_row", e "dendrogram_col" with
             | Some (VList r), Some (VList c) => (0, map dec_row2 r, map dec_row2 c)
             | _, _ => (6, [], [])
             end
  | PErr PKeyError => (3, [], []) | PErr PIndexError => (2, [], []) | PErr PValueError => (1, [], [])
  | PErr PTypeError => (4, [], []) | PErr PUnbound => (5, [], [])
  end.
'''
        svals = safe_coq_eval(ctx, 'c07src', IMPORTS + ['Model.PyImp', 'Gen.PySplit', 'Proofs.PyCutsProofs'],
                              ['src_split %s %d %d' % (cdend(D), n1, n2) for (n1, n2, D) in sp], prelude=src_prelude, shard=100)
        n_src = 0
        for (n1, n2, D), sv in zip(sp, svals or []):
            r = impl.call('c07', 'split', dict(rows=[[a, b, float(h), s] for a, b, h, s in D], shape=[n1, n2]))
            ctx.traces += 1
            n_src += 1
            code = sv[0]
            if code in (4, 5, 6):
                if len(ctx.proof_broken) < 12:
                    ctx.proof_broken.append('the statements regenerated from split_dendrogram do not run under the semantics of '
                                            'Model/PyImp.v (code %d) on %r' % (code, (n1, n2, D)))
                continue

            def conv2(info):
                return [(int(x[0]), int(x[1]), (Fraction(x[2]).numerator, Fraction(x[2]).denominator), int(x[3])) for x in info['rows']]
            if 'ok' in r:
                got = (conv2(r['ok']['row']), conv2(r['ok']['col']))
                exp = ([tuple(x[:2]) + (tuple(x[2]), x[3]) for x in sv[1]], [tuple(x[:2]) + (tuple(x[2]), x[3]) for x in sv[2]]) if code == 0 else None
                if exp is None or [list(map(_flat4, got[0])), list(map(_flat4, got[1]))] != [list(map(_flat4, exp[0])), list(map(_flat4, exp[1]))]:
                    ctx.violation('split_dendrogram', 'the implementation differs from the statements regenerated from its own source '
                                  '(run under the semantics of Model/PyImp.v)', case=dict(rows=D, shape=[n1, n2]), expected=sv, observed=r,
                                  kind='source_term_mismatch')
            elif code == 0:
                ctx.violation('split_dendrogram', 'the implementation raises where the statements regenerated from its own source return',
                              case=dict(rows=D, shape=[n1, n2]), expected=sv, observed=r, kind='source_term_mismatch')
        ctx.extra['source_terms_evaluated'] = ctx.extra.get('source_terms_evaluated', 0) + n_src

        # =====================================================================================================
        # 3. CORRESPONDENCE: Paris
        # =====================================================================================================
        paris_corr = stats['hangs'] < MAX_HANGS
        if not paris_corr:
            ctx.notes.append('Paris hangs (reported above): the Paris correspondence runs are skipped')
        pc = []
        for name, n, E in CORPUS:
            pc.append(('corpus_' + name, n, und(E)))
        for n in (2, 3, 4):
            for E in gen.all_undirected(n):
                if E and (n < 4 or rng.random() < 0.5):
                    pc.append(('exh_%d' % n, n, und([(i, j, 1) for (i, j) in E])))
        for _ in range(120 if quick else 1200):
            n, E, fam = gen.random_graph(rng, 10, directed=False, allow_loops=False)
            if not E:
                continue
            wmax = rng.choice([1, 2, 5])
            seen = {}
            coo = []
            for (i, j) in E:
                w = seen.get((j, i)) or rng.randint(1, wmax)
                seen[(i, j)] = w
                coo.append([i, j, w])
            pc.append(('rnd_' + fam, n, coo))
        if not paris_corr:
            pc = []
        exprs, meta = [], []
        for (fam, n, coo) in pc:
            for degree in (True, False):
                for ro in (False, True):
                    exprs.append('cvp (paris_src exact %s %s %s %d %s)' % (cq(HINF), cbool(degree), cbool(ro), n, centries(coo)))
                    meta.append((fam, n, coo, degree, ro))
        vals = model_vals(ctx, 'c07px', exprs, shard=60)
        compared = dropped = 0
        for (fam, n, coo, degree, ro), v in zip(meta, vals):
            opts = dict(weights='degree' if degree else 'uniform', reorder=ro)
            r = impl.call('c07', 'fit', dict(algo='Paris', opts=opts, m=spec(n, n, coo)))
            ctx.traces += 1
            ctx.count('corr:Paris_exact:' + fam, ('px', n, coo, degree, ro), True)
            case = dict(algo='Paris', opts=opts, m=spec(n, n, coo), family=fam)
            if v is None:
                continue     # model dead: nothing to compare with (validity of these fits is judged by the oracle part)
            if v[0] != 'Ok' or 'ok' not in r:
                ctx.violation('Paris', 'model or implementation failed', case=case, expected=v, observed=r, kind='model_mismatch')
                continue
            rows_m = frac_rows(v[1][0])
            margin = Fraction(*v[1][1][0]) if v[1][1] else None
            ties = v[1][2]
            d = r['ok']['dendrogram']
            if check_dendrogram(d, n, ro) is not None:
                continue     # reported by the oracle part (same options are run there on the corpus); nothing to compare
            ambiguous = ties > 0 or (margin is not None and margin < MARGIN)
            mm = merges_of([[a, b, h, s] for a, b, h, s in rows_m], n)
            mi = merges_of([[a, b, (Fraction(x) if math.isfinite(x) else HINF), s] for a, b, x, s in d['rows']], n)
            dm, di = dict(mm), dict(mi)
            same = set(dm) == set(di) and all(abs(dm[k] - di[k]) <= Fraction(TOL32) * abs(dm[k]) for k in dm)
            if same:
                compared += 1
            elif ambiguous:
                dropped += 1
            else:
                ctx.violation('Paris', 'implementation differs from the exact model beyond float32 round-off (no near-tie decision)',
                              case=case, expected=[[a, b, float(h), s] for a, b, h, s in rows_m], observed=d['rows'],
                              kind='model_mismatch', margin=str(margin), ties=ties)
        ctx.margin_dropped += dropped
        ctx.extra['paris_exact_compared'] = compared
        ctx.extra['paris_exact_dropped_near_tie'] = dropped

        # ---- IEEE model: bit for bit (smaller sample: the rounding arithmetic is slow inside Coq)
        pi = pc[:len(CORPUS)] + [c for c in pc[len(CORPUS):] if c[1] <= 8][: (50 if quick else 400)]
        exprs, meta = [], []
        for (fam, n, coo) in pi:
            degree = rng.random() < 0.6
            ro = rng.random() < 0.5 or fam.startswith('corpus')
            exprs.append('cvp (paris_src src_rounding %s %s %s %d %s)' % (cq(HINF), cbool(degree or fam.startswith('corpus')), cbool(ro), n, centries(coo)))
            meta.append((fam, n, coo, degree or fam.startswith('corpus'), ro))
        vals = model_vals(ctx, 'c07pf', exprs, shard=8)
        for (fam, n, coo, degree, ro), v in zip(meta, vals):
            opts = dict(weights='degree' if degree else 'uniform', reorder=ro)
            r = impl.call('c07', 'fit', dict(algo='Paris', opts=opts, m=spec(n, n, coo)))
            ctx.traces += 1
            ctx.count('corr:Paris_ieee:' + fam, ('pf', n, coo, degree, ro), True)
            if v is None:
                continue
            exp = frac_rows(v[1][0]) if v[0] == 'Ok' else v
            got = impl_frac_rows(r['ok']['dendrogram']['rows']) if 'ok' in r else r
            if exp != got:
                ctx.violation('Paris', 'implementation differs from the IEEE-rounding model (expected bit-for-bit agreement)',
                              case=dict(algo='Paris', opts=opts, m=spec(n, n, coo), family=fam),
                              expected=[[a, b, float(h), s] for a, b, h, s in exp] if isinstance(exp, list) else exp,
                              observed=r, kind='model_mismatch', model='ieee')
        if meta and vals[0] is not None:
            ctx.sample(dict(kind='Paris_ieee', case=meta[0][:3], model=[[a, b, float(h), s] for a, b, h, s in frac_rows(vals[0][1][0])]))

        # ---- bipartite: fit on the block adjacency + _split_vars (IEEE model, exact comparison)
        pb = [b for b in bips if b[0] + b[1] <= 7][: (25 if quick else 150)] if paris_corr else []
        exprs = ['cvb (paris_src_bipartite src_rounding %s true true %d %d %s)' % (cq(HINF), r_, c_, centries(coo)) for (r_, c_, coo) in pb]
        vals = model_vals(ctx, 'c07pb', exprs, shard=6)
        for (r_, c_, coo), v in zip(pb, vals):
            r = impl.call('c07', 'fit', dict(algo='Paris', opts=dict(weights='degree', reorder=True), m=spec(r_, c_, coo),
                                        force_bipartite=True))
            ctx.traces += 1
            ctx.count('corr:Paris_bipartite', ('pb', r_, c_, coo), True)
            if v is None:
                continue
            exp = [frac_rows(x) for x in v[1]] if v[0] == 'Ok' else v
            got = [impl_frac_rows(r['ok'][k]['rows']) for k in ('full', 'row', 'col')] if 'ok' in r else r
            if exp != got:
                ctx.violation('Paris', 'bipartite fit differs from the IEEE-rounding model', case=dict(shape=[r_, c_], coo=coo),
                              expected=str(exp)[:600], observed=r, kind='model_mismatch', model='ieee_bipartite')

        # =====================================================================================================
        # 4. CORRESPONDENCE: LouvainHierarchy / LouvainIteration around the recorded Louvain answers
        # =====================================================================================================
        lcases = [('single', 2, [[0, 0, 1], [0, 1, 1], [1, 0, 1]])]
        lcases += [('star', n, und([(0, i, 1) for i in range(1, n)])) for n in (3, 5)]
        lcases += [(fam, n, coo) for (fam, n, coo) in structured[: (60 if quick else 500)]]
        exprs, meta, outs = [], [], []
        for (fam, n, coo) in lcases:
            opts = dict(resolution=rng.choice([0.5, 1, 1, 2]), shuffle_nodes=rng.random() < 0.3, random_state=rng.choice([0, 1]))
            r = impl.call('c07', 'louvain_hierarchy_traced', dict(opts=opts, m=spec(n, n, coo)), timeout=60)
            ctx.traces += 1
            if 'ok' not in r:
                ctx.violation('LouvainHierarchy', 'traced fit failed', case=dict(opts=opts, m=spec(n, n, coo)), observed=r,
                              kind='exception', family=fam)
                continue
            levels = r['ok']['levels']
            exprs.append('cvr (louvain_hierarchy_fit %d %s)' % (n, clist([clist(l, cnat) for l in levels])))
            meta.append(('LouvainHierarchy', fam, n, coo, opts))
            outs.append(r['ok'])
            o2 = dict(opts)
            o2['depth'] = rng.choice([-1, 0, 1, 2, 3])
            r = impl.call('c07', 'louvain_iteration_traced', dict(opts=o2, m=spec(n, n, coo)), timeout=60)
            ctx.traces += 1
            if 'ok' not in r:
                ctx.violation('LouvainIteration', 'traced fit failed', case=dict(opts=o2, m=spec(n, n, coo)), observed=r,
                              kind='exception', family=fam)
                continue
            calls = r['ok']['calls']
            tab_o = clist(['(%s, %s)' % (clist(c['nodes'], cnat), clist(c['labels'], cnat)) for c in calls if c['labels'] is not None])
            tab_e = clist(['(%s, %s)' % (clist(c['nodes'], cnat), cbool(c['has_edge'])) for c in calls])
            exprs.append('cvr (louvain_iteration_fit (tab_oracle %s) (tab_edge %s) %s %d)' % (tab_o, tab_e, cz(o2['depth']), n))
            meta.append(('LouvainIteration', fam, n, coo, o2))
            outs.append(r['ok'])
        vals = model_vals(ctx, 'c07lv', exprs, shard=40)
        for (algo, fam, n, coo, opts), out, v in zip(meta, outs, vals):
            ctx.count('corr:%s:%s' % (algo, fam.split(':')[0]), (algo, n, coo, opts), True)
            if v is None:
                continue
            got = impl_frac_rows(out['dendrogram']['rows'])
            exp = frac_rows(v[1]) if v[0] == 'Ok' else v
            if exp != got:
                ctx.violation(algo, 'dendrogram differs from the model run on the recorded Louvain answers',
                              case=dict(algo=algo, opts=opts, m=spec(n, n, coo), family=fam),
                              expected=str(exp)[:800], observed=out['dendrogram'], kind='model_mismatch')
        if meta:
            ctx.sample(dict(kind='louvain_traced', algo=meta[0][0], n=meta[0][2], model=str(vals[0])[:300]))
    finally:
        impl.close()

    ctx.extra['fits'] = stats
    ctx.extra['d25_reproduced_on'] = stats['d25']
    ctx.extra['paris_hangs'] = stats['hangs']
    ctx.rule = ('oracle: Paris x {degree, uniform} x {reorder on, off} and LouvainHierarchy / LouvainIteration x sampled '
                '(resolution, shuffle_nodes + random_state, depth) on: the D25 corpus, a near-tie search (triangles / 4-cliques with weights '
                '1 + k*1.4e-6 at index placements biased to decreasing / equal residues mod 8 in graphs of 8..32 nodes, 4 s time-out: '
                'a hang is a violation), all undirected graphs on n <= 4 nodes with '
                '>= 1 edge, sampled n = 5, 13 structured random families of harness/gen.py with unit / small-integer / dyadic '
                'weights (disconnected, isolated nodes, self-loops, cliques, stars, ...), directed graphs, single-cluster graphs '
                '(stars, cliques, [[1,1],[1,0]]), rectangular biadjacency matrices (all 0/1 up to 2x3 + random), and for Paris '
                'tie-rich graphs up to 40 nodes (unit-weight G(n,p), chains of cliques, circulants, grids, complete bipartite, '
                'cycles); validity checked by an independent Python validator on dendrogram_, _row_, _col_, _full_. '
                'correspondence: get_dendrogram on all trees over <= 4 leaves + random trees, reorder_dendrogram and '
                'split_dendrogram on random valid dendrograms (exact), Paris exact-Q model (leaf-set merges, heights rel 2e-4, '
                'near-tie runs dropped) and IEEE-rounding model (bit for bit) on graphs n <= 10, Louvain hierarchies against the '
                'model run on the recorded Louvain label vectors (exact). distinct = hash of (entry point, arguments); '
                'non-trivial = at least one edge')
    ctx.rule += ' Source terms: the statements regenerated from split_dendrogram are executed inside Coq on the split cases and compared with the implementation (source_terms_evaluated).'
    ctx.assumptions = ['matrices have no explicitly stored zeros and non-negative weights',
                       'CPython dict insertion order (cluster_sizes) as modelled; set iteration order is irrelevant to the result',
                       'sums of the small integer / dyadic weights used are exact in double precision',
                       'float("inf") heights are represented by 10^9 in the models',
                       'Louvain itself is an oracle here (its label vectors are recorded and replayed); C05/C06 cover it']

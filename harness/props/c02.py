"""C02 — renumbering the nodes only renumbers the results.

Metamorphic run of every order-independent registered algorithm on G and pG (all permutations for tiny graphs,
random ones beyond; independent row/column permutations for biadjacency matrices), plus the two Weisfeiler-Lehman
clauses: the colouring equals colour refinement's partition, and are_isomorphic(G, pG) is never False.
Theorem side: Props/C02.v (permutation action, equivariance of the BFS/DAG specifications, matvec_perm)."""
import itertools

from .. import cases, gen
from ..compare import compare
from ..impl import Impl

LOOSE = {'PageRank[diteration]': (2e-3, 2e-4), 'PageRank[push]': (2e-3, 2e-4)}
BLOCK_KEYS = ('path', 'labels')


def refine_partition(n, edges):
    """Colour refinement (1-WL) fixed point on an undirected simple graph, as a partition."""
    adj = gen.rows_of(n, edges)
    col = [0] * n
    while True:
        sig = [(col[v], tuple(sorted(col[u] for u in adj[v]))) for v in range(n)]
        ids = {s: i for i, s in enumerate(sorted(set(sig)))}
        new = [ids[s] for s in sig]
        if len(set(new)) == len(set(col)):
            return new
        col = new


def run(ctx, scratch):
    rng = ctx.rng
    quick = ctx.tier == 'quick'
    nmax = 9 if quick else 20
    reps = 16 if quick else 60
    with Impl(scratch) as impl:
        desc = impl.call('registry', 'describe', None, timeout=120)['ok']
        names = sorted(n for n, d in desc.items() if d['equiv'] and d['deterministic'])
        ctx.extra['order_independent_algorithms'] = names
        for name in names:
            d = desc[name]
            for rep in range(reps):
                kind = cases.pick_kind(rng, d)
                spec, nr, nc, fam = cases.make_matrix(rng, kind, nmax, weighted=rng.random() < 0.6)
                opts = cases.make_opts(rng, d, nr, nc, kind == 'bip')
                if kind == 'bip':
                    pr, pc = gen.random_perm(rng, nr), gen.random_perm(rng, nc)
                    perm = {'row': pr, 'col': pc, 'all': pr + [nr + x for x in pc], 'block_keys': BLOCK_KEYS}
                    s2, o2 = cases.permute_case(spec, opts, pr, pc)
                else:
                    pr = gen.random_perm(rng, nr)
                    perm = pr
                    s2, o2 = cases.permute_case(spec, opts, pr)
                _one(ctx, impl, name, spec, opts, s2, o2, perm, fam)
        # exhaustive: every permutation of every graph on <= 4 nodes for the exact kernels
        exact = [n for n in names if desc[n]['exact'] and 'sym' in desc[n]['kinds'] or n in ('get_distances', 'get_shortest_path')]
        perms4 = {n: list(itertools.permutations(range(n))) for n in (3, 4)}
        for n in (3, 4):
            graphs = list(gen.all_undirected(n))
            if quick:
                graphs = rng.sample(graphs, min(len(graphs), 12))
            for E in graphs:
                if not E:
                    continue
                spec = dict(shape=[n, n], coo=[[i, j, 1] for (i, j) in gen.sym(E)], dtype='int', fmt='csr')
                for name in exact:
                    opts = cases.make_opts(rng, desc[name], n, n, False)
                    ps = perms4[n] if not quick else rng.sample(perms4[n], 4)
                    for p in ps:
                        s2, o2 = cases.permute_case(spec, opts, list(p))
                        s2 = _as_indexed(s2, sum(p) + len(ps))
                        _one(ctx, impl, name, spec, opts, s2, o2, list(p), 'exh_%d' % n)
        # graphs on 3 nodes WITH self-loops (every subset of loops), all / sampled permutations
        loopy = []
        for E in gen.all_undirected(3):
            for mask in range(1, 8):
                loopy.append(gen.sym(E) + [(v, v) for v in range(3) if mask >> v & 1])
        if quick:
            loopy = rng.sample(loopy, 24)
        for S in loopy:
            spec = dict(shape=[3, 3], coo=[[i, j, 1] for (i, j) in sorted(S)], dtype='int', fmt='csr')
            for name in exact:
                opts = cases.make_opts(rng, desc[name], 3, 3, False)
                for p in (perms4[3] if not quick else rng.sample(perms4[3], 3)):
                    s2, o2 = cases.permute_case(spec, opts, list(p))
                    s2 = _as_indexed(s2, p[0])
                    _one(ctx, impl, name, spec, opts, s2, o2, list(p), 'exh_3_loops')
        # dense graphs on 6-8 nodes x many numberings (nested neighbourhoods: clique listing, cores, triangles)
        dense_kernels = [n for n in exact if n.startswith('count_') or n == 'get_core_decomposition']
        for _ in range(16 if quick else 120):
            n = rng.randint(6, 8)
            E = [(i, j) for i in range(n) for j in range(i + 1, n) if rng.random() < rng.choice([0.6, 0.75, 0.9])]
            if not E:
                continue
            spec = dict(shape=[n, n], coo=[[i, j, 1] for (i, j) in gen.sym(E)], dtype='int', fmt='csr')
            for name in dense_kernels:
                opts = cases.make_opts(rng, desc[name], n, n, False)
                for _k in range(12 if quick else 40):
                    p = gen.random_perm(rng, n)
                    s2, o2 = cases.permute_case(spec, opts, p)
                    s2 = _as_indexed(s2, _k)
                    _one(ctx, impl, name, spec, opts, s2, o2, p, 'dense_%d' % n)
        # core numbers on medium sparse graphs with many degree ties, many numberings each: the heap of compute_core is laid
        # out by node number, so a tie-handling slip shows only for SOME numberings of SOME graphs (seed C02_4: 21 of 301
        # numberings of one 8-node graph, about 1 % of sparse graphs on 20-40 nodes)
        if 'get_core_decomposition' in names:
            witness = [[2, 5, 6, 7], [6], [0, 4, 6], [4, 7], [2, 3, 5], [0, 4, 6, 7], [0, 1, 2, 5], [0, 3, 5]]
            med = [(8, sorted({(i, j) for i, row in enumerate(witness) for j in row}), 40 if quick else 300)]
            for _ in range(120 if quick else 1200):
                n = rng.randint(12, 40)
                want = int(n * rng.choice([1.2, 1.5, 2.0, 2.5, 3.0]))
                E = set()
                while len(E) < want:
                    i, j = rng.randrange(n), rng.randrange(n)
                    if i != j:
                        E.add((min(i, j), max(i, j)))
                med.append((n, gen.sym(sorted(E)), 4))
            for (n, S, nperm) in med:
                spec = dict(shape=[n, n], coo=[[i, j, 1] for (i, j) in S], dtype='int', fmt='csr')
                opts = cases.make_opts(rng, desc['get_core_decomposition'], n, n, False)
                for _k in range(nperm):
                    p = gen.random_perm(rng, n)
                    s2, o2 = cases.permute_case(spec, opts, p)
                    _one(ctx, impl, 'get_core_decomposition', spec, opts, s2, o2, p, 'core_medium_%d' % (8 if n == 8 else 40))
        # Weisfeiler-Lehman: colouring = colour refinement; never "non-isomorphic" for a renumbered copy
        for k in range(150 if quick else 1500):
            if k < 60:
                n = rng.choice([3, 4, 5])
                E = rng.choice(list(gen.all_undirected(n))) if n < 5 else None
            else:
                E = None
            if k >= 130:
                # twin structures: two copies of a spider (a hub with legs of different lengths) joined at their hubs, optionally
                # renumbered.  Twin nodes have the same multiset of neighbour colours listed in different index orders, and the
                # hubs' hashes are sums of several unequal terms: a comparison of float hashes that is too strict, or depends on
                # the summation order, separates nodes that colour refinement cannot (seed C02_5)
                legs = sorted(rng.sample(range(1, 6), rng.randint(3, 4)))
                one, nxt = [], 1
                for L in legs:
                    prev = 0
                    for _s in range(L):
                        one.append((prev, nxt))
                        prev, nxt = nxt, nxt + 1
                m1 = nxt
                n = 2 * m1
                E = one + [(a + m1, b + m1) for (a, b) in one] + [(0, m1)]
                if k % 2:
                    q = gen.random_perm(rng, n)
                    E = [(min(q[a], q[b]), max(q[a], q[b])) for (a, b) in E]
            elif E is None:
                n, E2, fam = gen.random_graph(rng, 6 if k < 100 else nmax, directed=False, allow_loops=False)
                E = [(i, j) for (i, j) in E2 if i < j]
            if not E:
                continue
            S = gen.sym(E)
            spec = dict(shape=[n, n], coo=[[i, j, 1] for (i, j) in S], dtype='int', fmt='csr')
            r = impl.call('registry', 'run', dict(name='color_weisfeiler_lehman', m=spec, opts={}), timeout=30)
            ctx.traces += 1
            ctx.count('wl_refinement', ('wl', n, S), True)
            if 'ok' in r:
                from ..compare import partition
                got = partition(r['ok']['colors'][1])
                want = partition(refine_partition(n, S))
                if got != want:
                    ctx.violation('color_weisfeiler_lehman', 'colour classes differ from colour refinement', case=dict(n=n, edges=E),
                                  expected=want, observed=got, kind='wl_refinement')
            p = gen.random_perm(rng, n)
            s2, _ = cases.permute_case(spec, {}, p)
            r2 = impl.call('c02', 'are_isomorphic', dict(a=spec, b=s2), timeout=30)
            ctx.traces += 1
            if r2.get('ok') is not True:
                ctx.violation('are_isomorphic', 'a graph is declared non-isomorphic to a renumbered copy of itself',
                              case=dict(n=n, edges=E, perm=p), observed=r2, kind='wl_iso')
        # >>> WL model correspondence (Model/Wl.v, Proofs/WlProofs.v) -- added block, see _wl_model_family below
        _wl_model_family(ctx, impl)
        # <<< WL model correspondence
    ctx.rule = ('order-independent registered algorithms (%d) x random graphs x random permutations (independent row/column '
                'permutations for biadjacency input); all permutations of graphs on <=4 nodes for the exact kernels; WL colouring vs '
                'colour refinement and are_isomorphic(G,pG) on exhaustive small and random graphs; distinct by (algorithm, graph, '
                'arguments, permutation); non-trivial = at least one edge. WL model family: small graphs (exhaustive n<=4 sample, '
                'random n<=9/14, some with loops, some directed) x max_iter in {-1, k<=n}: the Coq model of the kernel '
                '(Model/Wl.v, evaluated with the powers table and CSR arrays intercepted at the kernel call) vs the '
                'implementation as partitions, vs the k-th iterate of colour refinement evaluated in Coq, hypothesis '
                'wl_collision_free evaluated on every graph; model of are_isomorphic vs implementation on renumbered copies '
                'and on unrelated pairs; one fixed 90-node adversarial graph for the numeric hash (wl_adversarial_graph)' % len(names))
    ctx.assumptions = ['ARPACK-backed vectors are compared up to sign and not at all when the spectrum has a near-tie (margin guard)',
                       'iterative float32 solvers (diteration, push) are compared at 2e-3: their sweep order depends on the numbering',
                       'classifier labels may differ where the two best class probabilities are tied within 1e-6']


def _as_indexed(s2, k):
    """The renumbered copy as the usual idiom A[p][:, p] leaves it: a CSR matrix whose rows hold their column indices in an
    arbitrary order (every second case; reversed rows every fourth).  Only used for the integer-exact kernels."""
    if s2.get('fmt', 'csr') != 'csr' or k % 2 == 0:
        return s2
    unit = all(len(e) < 3 or e[2] == 1 for e in s2['coo'])
    if k % 4 == 1:
        # adjacency[p][:, p] of a library graph: bool entries (the loaders return bool matrices), arbitrary index order
        return dict(s2, fmt='csr_shuffled', dtype='bool' if unit else s2.get('dtype', 'int'))
    return dict(s2, fmt='csr_unsorted')


def _one(ctx, impl, name, spec, opts, s2, o2, perm, fam):
    from .c01 import margin_ok, CLASSIFIERS, base_name
    a = impl.call('registry', 'run', dict(name=name, m=spec, opts=opts), timeout=60)
    b = impl.call('registry', 'run', dict(name=name, m=s2, opts=o2), timeout=60)
    ctx.traces += 2
    ctx.count(name, (name, spec['shape'], spec['coo'], repr(sorted(opts.items(), key=str)), repr(perm)), len(spec['coo']) > 0)
    if any(k in a or k in b for k in ('hang', 'crash')):
        return
    case = dict(name=name, m=spec, opts=opts, perm=perm, family=fam)
    if ('ok' in a) != ('ok' in b):
        ctx.violation(name, 'one numbering raises, the other does not', case=case, entry=name, kind='error_mismatch',
                      base=a.get('err', 'ok'), observed=b.get('err', 'ok'))
        return
    if 'ok' not in a:
        return
    skip = ()
    if cases.degenerate(impl, name, spec, opts):
        ctx.margin_dropped += 1
        skip = ('emb', 'vec') if base_name(name) == 'HITS' else ('emb',)
    rtol, atol = LOOSE.get(name, (1e-6, 1e-8))
    bad = compare(a['ok'], b['ok'], perm=perm, rtol=rtol, atol=atol, skip_tags=skip)
    if base_name(name) in CLASSIFIERS:
        pb = {k: [v[0], _unperm(v, perm, k)] for k, v in b['ok'].items()}
        bad = [(k, why) for (k, why) in bad if not (k.startswith('labels') and margin_ok(a['ok'], pb, k))]
    if bad:
        ctx.violation(name, 'result on the renumbered graph is not the renumbered result: %s' % bad[0][0], case=case, entry=name,
                      kind='not_equivariant', mismatches=bad[:4], base={k: a['ok'].get(k) for k, _ in bad[:2]},
                      observed={k: b['ok'].get(k) for k, _ in bad[:2]}, solver=name.split('[')[1][:-1] if '[' in name else None)
    if len(ctx.samples) < 6 and fam.startswith('exh') is False:
        ctx.sample(dict(name=name, family=fam, m=spec, perm=perm))


def _unperm(v, perm, key):
    from ..compare import _pick, unperm
    p = _pick(perm, key)
    tag, val = v
    if p is not None and tag in ('vec', 'ivec', 'labels', 'mat', 'emb') and isinstance(val, list) and len(val) == len(p):
        return unperm(val, p)
    return val


# ======================================================================================================
# >>> WL model correspondence (added block; everything below is used only by _wl_model_family)
# ======================================================================================================
WL_IMPORTS = ['Base.Util', 'Model.Bfs', 'Model.Wl']
WL_TOL = '(1 # 1000000000000)%Q'     # margin guard on |abs(h - h') - epsilon| (float64 sums vs exact sums)


def _glit(rows):
    return '[' + '; '.join('[' + '; '.join(str(int(j)) for j in r) + ']' for r in rows) + ']'


def _plit(powers):
    return '[' + '; '.join('(%d # %d)%%Q' % (int(a), int(b)) for a, b in powers) + ']'


def _rows_of_call(call):
    ip, ix = call['indptr'], call['indices']
    return [ix[ip[i]:ip[i + 1]] for i in range(len(ip) - 1)]


def _tab_partition(tab):
    n = len(tab)
    seen, out = set(), []
    for u in range(n):
        if u in seen:
            continue
        cls = tuple(v for v in range(n) if tab[u][v])
        seen.update(cls)
        out.append(cls)
    return sorted(out)


def _wl_model_family(ctx, impl):
    """(i) powers table and CSR arrays exactly as the implementation hands them to its kernel (worker wl_trace),
    (ii) Coq model of color_weisfeiler_lehman vs the implementation, as partitions, and vs the iterate of colour
    refinement evaluated in Coq; hypothesis of the partial theorems evaluated on every graph (a graph violating it
    is reported: it is a counterexample to `colours = colour refinement` for some max_iter),
    (iii) Coq model of are_isomorphic vs the implementation."""
    from ..common import safe_coq_eval
    from ..compare import partition
    rng = ctx.rng
    quick = ctx.tier == 'quick'
    nmax = 9 if quick else 14
    cases_ = []
    small = [(n, E) for n in (2, 3, 4) for E in gen.all_undirected(n)]
    for (n, E) in rng.sample(small, 24 if quick else len(small)):
        cases_.append((n, gen.sym(E), 'exh'))
    for k in range(80 if quick else 500):
        r = rng.random()
        if r < 0.7:
            n, E2, fam = gen.random_graph(rng, nmax, directed=False, allow_loops=False)
            S = gen.sym([(i, j) for (i, j) in E2 if i < j])
            fam = 'und'
        elif r < 0.85:
            n, E2, fam = gen.random_graph(rng, nmax, directed=False, allow_loops=True)
            S = sorted(set(gen.sym([(i, j) for (i, j) in E2 if i < j]) + [(i, j) for (i, j) in E2 if i == j]))
            fam = 'loops'
        else:
            n, E2, fam = gen.random_graph(rng, nmax, directed=True, allow_loops=False)
            S = sorted(set((i, j) for (i, j) in E2))
            fam = 'dir'
        cases_.append((n, S, fam))
    runs = []
    for (n, S, fam) in cases_:
        mi = -1 if rng.random() < 0.6 else rng.randint(0, n)
        spec = dict(shape=[n, n], coo=[[i, j, 1] for (i, j) in S], dtype='int', fmt='csr')
        r = impl.call('c02', 'wl_trace', dict(m=spec, max_iter=mi), timeout=30)
        ctx.traces += 1
        ctx.count('wl_model', ('wlm', n, tuple(S), mi), len(S) > 0)
        if 'ok' not in r:
            ctx.extra['wl_model_impl_errors'] = ctx.extra.get('wl_model_impl_errors', 0) + 1
            continue
        calls = r['ok']['calls']
        if len(calls) != 1 or len(calls[0]['indptr']) != n + 1 or len(calls[0]['powers']) != n:
            ctx.violation('color_weisfeiler_lehman', 'the kernel is not called once with an n-entry powers table (model anchor)',
                          case=dict(n=n, edges=S, max_iter=mi), observed=[dict(c, powers=len(c['powers'])) for c in calls],
                          kind='wl_model_anchor')
            continue
        runs.append(dict(n=n, S=S, fam=fam, mi=mi, spec=spec, rows=_rows_of_call(calls[0]), powers=calls[0]['powers'],
                         kmi=calls[0]['max_iter'], colors=r['ok']['colors']))
    exprs = []
    for c in runs:
        g, P = _glit(c['rows']), _plit(c['powers'])
        exprs.append('(let g := %s in let P := %s in let k := wl_max_iter (length g) (%d)%%Z in '
                     '(color_weisfeiler_lehman wl_sort g P (%d)%%Z, '
                     '(k, wl_collision_free wl_sort g P wl_eps k (repeat 0 (length g)) true, '
                     'wl_margin_ok wl_sort g P wl_eps %s k (repeat 0 (length g)) true), '
                     'cr_iter_tab g k))' % (g, P, c['mi'], c['mi'], WL_TOL))
    vals = safe_coq_eval(ctx, 'c02wl', WL_IMPORTS, exprs, shard=40 if quick else 60, timeout=900) if exprs else []
    if vals is None:
        # model dead (recorded in ctx.proof_broken): the implementation's colouring is still judged by the Python colour
        # refinement where that is the whole specification (undirected, no loops, run to the fixed point)
        vals = []
        for c in runs:
            if c['fam'] in ('exh', 'und') and c['mi'] == -1 and c['S']:
                want, got = partition(refine_partition(c['n'], c['S'])), partition(c['colors'])
                if got != want:
                    ctx.violation('color_weisfeiler_lehman', 'colour classes differ from colour refinement',
                                  case=dict(n=c['n'], edges=c['S'], max_iter=c['mi'], family=c['fam']), expected=want,
                                  observed=got, kind='wl_refinement')
    agree_exact = 0
    for c, v in zip(runs, vals):
        model, (k, coll_free, margin), tab = v
        case = dict(n=c['n'], edges=c['S'], max_iter=c['mi'], family=c['fam'])
        if k != c['kmi']:
            ctx.violation('color_weisfeiler_lehman', 'max_iter handed to the kernel differs from the model', case=case,
                          expected=k, observed=c['kmi'], kind='wl_model_mismatch')
        spec_part = _tab_partition(tab) if c['n'] else []
        model_part = partition(model)
        impl_part = partition(c['colors'])
        if not coll_free:
            ctx.violation('color_weisfeiler_lehman',
                          'two nodes with the same colour and different multisets of neighbour colours have hashes within epsilon '
                          '(hash collision): that round is not a refinement step',
                          case=case, expected=spec_part, observed=impl_part, kind='hash_collision',
                          final_partition_wrong=(impl_part != spec_part))
            continue
        if model_part != spec_part:      # an instance of wl_colouring_is_refinement_partial: cannot happen
            ctx.violation('color_weisfeiler_lehman', 'Coq model and Coq specification disagree although the hypothesis holds '
                          '(harness or theorem-statement defect)', case=case, expected=spec_part, observed=model_part,
                          kind='wl_theorem_instance')
            continue
        if not margin:
            ctx.margin_dropped += 1
            continue
        if impl_part != model_part:
            ctx.violation('color_weisfeiler_lehman', 'colour classes differ from the Coq model of the kernel = the max_iter-th '
                          'iterate of colour refinement', case=case, expected=model_part, observed=impl_part,
                          kind='wl_refinement' if c['fam'] != 'dir' else 'wl_model_mismatch', model_labels=model,
                          impl_labels=c['colors'])
        elif list(model) == list(c['colors']):
            agree_exact += 1
    ctx.extra['wl_model_cases'] = len(runs)
    ctx.extra['wl_model_labels_identical'] = agree_exact
    if runs and len(ctx.samples) < 8:
        c = runs[len(runs) // 2]
        ctx.sample(dict(name='wl_model', n=c['n'], edges=c['S'], max_iter=c['mi'], colors=c['colors']))
    # (iii) are_isomorphic: renumbered copies (must be True) and unrelated pairs with the same n (model: Ok b / Err ValueError)
    pairs = []
    und = [c for c in runs if c['fam'] != 'dir' and c['S']]
    for c in rng.sample(und, min(len(und), 30 if quick else 150)):
        n = c['n']
        p = gen.random_perm(rng, n)
        s2, _ = cases.permute_case(c['spec'], {}, p)
        pairs.append((c, s2, 'perm', p))
    for _ in range(30 if quick else 150):
        if len(und) < 2:
            break
        a = rng.choice(und)
        if rng.random() < 0.7 and a['fam'] == 'und':
            # same n and same number of edges (the early `nnz` exit is not taken): a random rewiring of a
            allp = [(i, j) for i in range(a['n']) for j in range(i + 1, a['n'])]
            S2 = gen.sym(rng.sample(allp, len(a['S']) // 2))
            pairs.append((a, dict(shape=[a['n'], a['n']], coo=[[i, j, 1] for (i, j) in S2], dtype='int', fmt='csr'), 'pair', None))
            continue
        same = [c for c in und if c['n'] == a['n'] and c is not a]
        if not same:
            continue
        b = rng.choice(same)
        pairs.append((a, b['spec'], 'pair', None))
    iso_runs = []
    for (a, s2, what, p) in pairs:
        mi = -1 if rng.random() < 0.7 else rng.randint(0, a['n'])
        tb = impl.call('c02', 'wl_trace', dict(m=s2, max_iter=-1), timeout=30)
        r = impl.call('c02', 'are_isomorphic_k', dict(a=a['spec'], b=s2, max_iter=mi), timeout=30)
        ctx.traces += 2
        ctx.count('wl_iso_model', ('wli', a['n'], tuple(a['S']), repr(s2['coo']), mi), True)
        if 'ok' not in tb or any(k in r for k in ('hang', 'crash')):
            continue
        iso_runs.append(dict(a=a, rows2=_rows_of_call(tb['ok']['calls'][0]), what=what, perm=p, mi=mi, r=r, s2=s2))
    exprs = ['are_isomorphic wl_sort %s %s %s (%d)%%Z' % (_glit(x['a']['rows']), _glit(x['rows2']), _plit(x['a']['powers']), x['mi'])
             for x in iso_runs]
    vals = safe_coq_eval(ctx, 'c02wli', WL_IMPORTS, exprs, shard=40 if quick else 60, timeout=900) if exprs else []
    iso_dead = vals is None
    if iso_dead:
        vals = [None] * len(iso_runs)      # model dead: only the clause judged on the implementation alone is checked
    n_err = 0
    for x, v in zip(iso_runs, vals):
        r = x['r']
        obs = ('Ok', r['ok']) if 'ok' in r else ('Err', (r.get('err'),))
        case = dict(n=x['a']['n'], edges=x['a']['S'], other=x['s2']['coo'], perm=x['perm'], max_iter=x['mi'])
        if x['what'] == 'perm':
            if not iso_dead and v != ('Ok', True):        # an instance of are_isomorphic_iso: cannot happen
                ctx.violation('are_isomorphic', 'Coq model rejects a renumbered copy (harness or theorem-statement defect)',
                              case=case, observed=v, kind='wl_theorem_instance')
            if obs != ('Ok', True):
                ctx.violation('are_isomorphic', 'a graph is declared non-isomorphic to a renumbered copy of itself',
                              case=case, observed=r, kind='wl_iso')
            continue
        if iso_dead:
            continue
        if v == ('Err', ('ValueError',)):
            n_err += 1
        if tuple(v) != obs:
            # Outside the property's clause (unrelated graphs): a disagreement means the model of are_isomorphic is not the
            # code; reported so that the theorems are not read as statements about different code.
            ctx.violation('are_isomorphic', 'Coq model of are_isomorphic and the implementation disagree on a pair of graphs',
                          case=case, expected=v, observed=r, kind='wl_model_mismatch')
    ctx.extra['wl_iso_model_cases'] = len(iso_runs)
    ctx.extra['wl_iso_pairs_where_numpy_raises_ValueError'] = n_err
    _wl_adversarial(ctx, impl)


# A fixed adversarial input for the numeric hash (Props/C02.v: wl_colouring_is_refinement_refuted): anchors 0..43 form the
# connected antiregular graph (i ~ j iff i + j >= 43), so that after round 1 anchor i has colour i (i <= 21) or i - 1
# (i >= 22); u = 44 is joined to the anchors whose colour is in WL_ADV_A and to anchor 21, v = 45 to the other anchors;
# nodes 46..89 are a clique joined to u and v. sum_{l in A} x^l - sum_{l in B} x^l = 2.4e-13 for x = -pi/3.15.
WL_ADV_M = 44
WL_ADV_A = [0, 1, 5, 9, 10, 12, 13, 14, 17, 20, 22, 23, 24, 26, 30, 31, 33, 34, 35, 36, 41]


def wl_adversarial_graph():
    m, z = WL_ADV_M, WL_ADV_M
    u, v = m, m + 1
    E = set()
    for i in range(1, m + 1):               # anchor v_i is node i - 1
        for j in range(i + 1, m + 1):
            if i + j >= m + 1:
                E.add((i - 1, j - 1))
        lab = i - 1 if i <= m // 2 else i - 2
        if i == m // 2:
            E.add((i - 1, u))
        elif i == m // 2 + 1:
            E.add((i - 1, v))
        else:
            E.add((i - 1, u if lab in WL_ADV_A else v))
    hubs = list(range(m + 2, m + 2 + z))
    for a in range(z):
        E.add((u, hubs[a]))
        E.add((v, hubs[a]))
        for b in range(a + 1, z):
            E.add((hubs[a], hubs[b]))
    return m + 2 + z, sorted(E), u, v


def _wl_adversarial(ctx, impl):
    from ..common import safe_coq_eval
    from ..compare import partition
    n, E, u, v = wl_adversarial_graph()
    S = gen.sym(E)
    spec = dict(shape=[n, n], coo=[[i, j, 1] for (i, j) in S], dtype='int', fmt='csr')
    r = impl.call('c02', 'wl_trace', dict(m=spec, max_iter=-1), timeout=60)
    ctx.traces += 1
    ctx.count('wl_adversarial', ('wla', n, WL_ADV_M, tuple(WL_ADV_A)), True)
    if 'ok' not in r or len(r['ok']['calls']) != 1:
        ctx.extra['wl_adversarial'] = 'not run: %s' % str(r)[:200]
        return
    call = r['ok']['calls'][0]
    colors = r['ok']['colors']
    want = partition(refine_partition(n, S))
    got = partition(colors)
    g, P = _glit(_rows_of_call(call)), _plit(call['powers'])
    val = safe_coq_eval(ctx, 'c02wla', WL_IMPORTS,
                        ['(let g := %s in let P := %s in let c := color_weisfeiler_lehman wl_sort g P (-1)%%Z in '
                         '(c, (wl_collision_free wl_sort g P wl_eps (length g) (repeat 0 (length g)) true, '
                         'wl_margin_ok wl_sort g P wl_eps %s (length g) (repeat 0 (length g)) true)))' % (g, P, WL_TOL)],
                        timeout=900)
    if val is None:
        # model dead: the verdict below (implementation vs Python colour refinement) does not need it
        model, (coll_free, margin) = None, (None, None)
    else:
        model, (coll_free, margin) = val[0]
    model_eq = None if model is None else (partition(model) == got)
    ctx.extra['wl_adversarial'] = dict(n=n, implementation_classes=len(got), refinement_classes=len(want),
                                       model_classes=None if model is None else len(partition(model)),
                                       model_collision_free=coll_free, model_equals_implementation=model_eq, margin_ok=margin)
    if got != want:
        ctx.violation('color_weisfeiler_lehman',
                      'nodes %d and %d have the same degree and different multisets of neighbour colours whose hashes differ by '
                      'less than epsilon: they keep a common colour, colour refinement separates them' % (u, v),
                      case=dict(n=n, edges=E, generator='harness.props.c02.wl_adversarial_graph'),
                      expected=dict(classes=len(want), same_class=False),
                      observed=dict(classes=len(got), same_class=(colors[u] == colors[v])),
                      kind='hash_collision', final_partition_wrong=True, adversarial=True,
                      model_collision_free=coll_free, model_equals_implementation=model_eq)
# <<< WL model correspondence

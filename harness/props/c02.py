"""C02 — renumbering the nodes only renumbers the results.

Metamorphic run of every order-independent registered algorithm on G and pG (all permutations for tiny graphs,
random ones beyond; independent row/column permutations for biadjacency matrices), plus the two Weisfeiler-Lehman
clauses: the colouring equals colour refinement's partition, and are_isomorphic(G, pG) is never False.
Theorem side: Props/C02.v (permutation action, equivariance of the BFS/DAG specifications, matvec_perm)."""
import itertools

from .. import cases, gen
from ..compare import compare
from ..impl import Impl

LOOSE = {'PageRank[diteration]': (2e-3, 2e-4), 'PageRank[push]': (2e-3, 2e-4)}
BLOCK_KEYS = ('path', 'labels')


def refine_partition(n, edges):
    """Colour refinement (1-WL) fixed point on an undirected simple graph, as a partition."""
    adj = gen.rows_of(n, edges)
    col = [0] * n
    while True:
        sig = [(col[v], tuple(sorted(col[u] for u in adj[v]))) for v in range(n)]
        ids = {s: i for i, s in enumerate(sorted(set(sig)))}
        new = [ids[s] for s in sig]
        if len(set(new)) == len(set(col)):
            return new
        col = new


def run(ctx, scratch):
    rng = ctx.rng
    quick = ctx.tier == 'quick'
    nmax = 9 if quick else 20
    reps = 16 if quick else 60
    with Impl(scratch) as impl:
        desc = impl.call('registry', 'describe', None, timeout=120)['ok']
        names = sorted(n for n, d in desc.items() if d['equiv'] and d['deterministic'])
        ctx.extra['order_independent_algorithms'] = names
        for name in names:
            d = desc[name]
            for rep in range(reps):
                kind = cases.pick_kind(rng, d)
                spec, nr, nc, fam = cases.make_matrix(rng, kind, nmax, weighted=rng.random() < 0.6)
                opts = cases.make_opts(rng, d, nr, nc, kind == 'bip')
                if kind == 'bip':
                    pr, pc = gen.random_perm(rng, nr), gen.random_perm(rng, nc)
                    perm = {'row': pr, 'col': pc, 'all': pr + [nr + x for x in pc], 'block_keys': BLOCK_KEYS}
                    s2, o2 = cases.permute_case(spec, opts, pr, pc)
                else:
                    pr = gen.random_perm(rng, nr)
                    perm = pr
                    s2, o2 = cases.permute_case(spec, opts, pr)
                _one(ctx, impl, name, spec, opts, s2, o2, perm, fam)
        # exhaustive: every permutation of every graph on <= 4 nodes for the exact kernels
        exact = [n for n in names if desc[n]['exact'] and 'sym' in desc[n]['kinds'] or n in ('get_distances', 'get_shortest_path')]
        perms4 = {n: list(itertools.permutations(range(n))) for n in (3, 4)}
        for n in (3, 4):
            graphs = list(gen.all_undirected(n))
            if quick:
                graphs = rng.sample(graphs, min(len(graphs), 12))
            for E in graphs:
                if not E:
                    continue
                spec = dict(shape=[n, n], coo=[[i, j, 1] for (i, j) in gen.sym(E)], dtype='int', fmt='csr')
                for name in exact:
                    opts = cases.make_opts(rng, desc[name], n, n, False)
                    ps = perms4[n] if not quick else rng.sample(perms4[n], 4)
                    for p in ps:
                        s2, o2 = cases.permute_case(spec, opts, list(p))
                        _one(ctx, impl, name, spec, opts, s2, o2, list(p), 'exh_%d' % n)
        # graphs on 3 nodes WITH self-loops (every subset of loops), all / sampled permutations
        loopy = []
        for E in gen.all_undirected(3):
            for mask in range(1, 8):
                loopy.append(gen.sym(E) + [(v, v) for v in range(3) if mask >> v & 1])
        if quick:
            loopy = rng.sample(loopy, 24)
        for S in loopy:
            spec = dict(shape=[3, 3], coo=[[i, j, 1] for (i, j) in sorted(S)], dtype='int', fmt='csr')
            for name in exact:
                opts = cases.make_opts(rng, desc[name], 3, 3, False)
                for p in (perms4[3] if not quick else rng.sample(perms4[3], 3)):
                    s2, o2 = cases.permute_case(spec, opts, list(p))
                    _one(ctx, impl, name, spec, opts, s2, o2, list(p), 'exh_3_loops')
        # dense graphs on 6-8 nodes x many numberings (nested neighbourhoods: clique listing, cores, triangles)
        dense_kernels = [n for n in exact if n.startswith('count_') or n == 'get_core_decomposition']
        for _ in range(16 if quick else 120):
            n = rng.randint(6, 8)
            E = [(i, j) for i in range(n) for j in range(i + 1, n) if rng.random() < rng.choice([0.6, 0.75, 0.9])]
            if not E:
                continue
            spec = dict(shape=[n, n], coo=[[i, j, 1] for (i, j) in gen.sym(E)], dtype='int', fmt='csr')
            for name in dense_kernels:
                opts = cases.make_opts(rng, desc[name], n, n, False)
                for _k in range(12 if quick else 40):
                    p = gen.random_perm(rng, n)
                    s2, o2 = cases.permute_case(spec, opts, p)
                    _one(ctx, impl, name, spec, opts, s2, o2, p, 'dense_%d' % n)
        # Weisfeiler-Lehman: colouring = colour refinement; never "non-isomorphic" for a renumbered copy
        for k in range(150 if quick else 1500):
            if k < 60:
                n = rng.choice([3, 4, 5])
                E = rng.choice(list(gen.all_undirected(n))) if n < 5 else None
            else:
                E = None
            if E is None:
                n, E2, fam = gen.random_graph(rng, 6 if k < 100 else nmax, directed=False, allow_loops=False)
                E = [(i, j) for (i, j) in E2 if i < j]
            if not E:
                continue
            S = gen.sym(E)
            spec = dict(shape=[n, n], coo=[[i, j, 1] for (i, j) in S], dtype='int', fmt='csr')
            r = impl.call('registry', 'run', dict(name='color_weisfeiler_lehman', m=spec, opts={}), timeout=30)
            ctx.traces += 1
            ctx.count('wl_refinement', ('wl', n, S), True)
            if 'ok' in r:
                from ..compare import partition
                got = partition(r['ok']['colors'][1])
                want = partition(refine_partition(n, S))
                if got != want:
                    ctx.violation('color_weisfeiler_lehman', 'colour classes differ from colour refinement', case=dict(n=n, edges=E),
                                  expected=want, observed=got, kind='wl_refinement')
            p = gen.random_perm(rng, n)
            s2, _ = cases.permute_case(spec, {}, p)
            r2 = impl.call('c02', 'are_isomorphic', dict(a=spec, b=s2), timeout=30)
            ctx.traces += 1
            if r2.get('ok') is not True:
                ctx.violation('are_isomorphic', 'a graph is declared non-isomorphic to a renumbered copy of itself',
                              case=dict(n=n, edges=E, perm=p), observed=r2, kind='wl_iso')
    ctx.rule = ('order-independent registered algorithms (%d) x random graphs x random permutations (independent row/column '
                'permutations for biadjacency input); all permutations of graphs on <=4 nodes for the exact kernels; WL colouring vs '
                'colour refinement and are_isomorphic(G,pG) on exhaustive small and random graphs; distinct by (algorithm, graph, '
                'arguments, permutation); non-trivial = at least one edge' % len(names))
    ctx.assumptions = ['ARPACK-backed vectors are compared up to sign and not at all when the spectrum has a near-tie (margin guard)',
                       'iterative float32 solvers (diteration, push) are compared at 2e-3: their sweep order depends on the numbering',
                       'classifier labels may differ where the two best class probabilities are tied within 1e-6']


def _one(ctx, impl, name, spec, opts, s2, o2, perm, fam):
    from .c01 import margin_ok, CLASSIFIERS, base_name
    a = impl.call('registry', 'run', dict(name=name, m=spec, opts=opts), timeout=60)
    b = impl.call('registry', 'run', dict(name=name, m=s2, opts=o2), timeout=60)
    ctx.traces += 2
    ctx.count(name, (name, spec['shape'], spec['coo'], repr(sorted(opts.items(), key=str)), repr(perm)), len(spec['coo']) > 0)
    if any(k in a or k in b for k in ('hang', 'crash')):
        return
    case = dict(name=name, m=spec, opts=opts, perm=perm, family=fam)
    if ('ok' in a) != ('ok' in b):
        ctx.violation(name, 'one numbering raises, the other does not', case=case, entry=name, kind='error_mismatch',
                      base=a.get('err', 'ok'), observed=b.get('err', 'ok'))
        return
    if 'ok' not in a:
        return
    skip = ()
    if cases.degenerate(impl, name, spec, opts):
        ctx.margin_dropped += 1
        skip = ('emb', 'vec') if base_name(name) == 'HITS' else ('emb',)
    rtol, atol = LOOSE.get(name, (1e-6, 1e-8))
    bad = compare(a['ok'], b['ok'], perm=perm, rtol=rtol, atol=atol, skip_tags=skip)
    if base_name(name) in CLASSIFIERS:
        pb = {k: [v[0], _unperm(v, perm, k)] for k, v in b['ok'].items()}
        bad = [(k, why) for (k, why) in bad if not (k.startswith('labels') and margin_ok(a['ok'], pb, k))]
    if bad:
        ctx.violation(name, 'result on the renumbered graph is not the renumbered result: %s' % bad[0][0], case=case, entry=name,
                      kind='not_equivariant', mismatches=bad[:4], base={k: a['ok'].get(k) for k, _ in bad[:2]},
                      observed={k: b['ok'].get(k) for k, _ in bad[:2]}, solver=name.split('[')[1][:-1] if '[' in name else None)
    if len(ctx.samples) < 6 and fam.startswith('exh') is False:
        ctx.sample(dict(name=name, family=fam, m=spec, perm=perm))


def _unperm(v, perm, key):
    from ..compare import _pick, unperm
    p = _pick(perm, key)
    tag, val = v
    if p is not None and tag in ('vec', 'ivec', 'labels', 'mat', 'emb') and isinstance(val, list) and len(val) == len(p):
        return unperm(val, p)
    return val

"""C05 — every clustering is a well-formed partition with consistent secondary outputs.

(i)  Correspondence: the implementation's raw ingredients (labels_, labels_row_/col_, the input matrix, the
     recorded answers of np.argsort / RandomState.permutation / np.random.choice / PageRank) are fed to the Coq
     model (Model/Clustering.v, evaluated by vm_compute) and the reported outputs are compared exactly (integers)
     or to 1e-9 (probabilities, aggregate): reindex_labels, get_membership, np.unique compaction,
     Louvain._post_processing, Louvain.fit / Leiden.fit with the optimiser replaced by prescribed answers
     (compaction + membership composition + sort + un-shuffle + split), _secondary_outputs, KCenters._init_centers.
(ii) Property oracle, written independently in Python, on the outputs of Louvain, Leiden, PropagationClustering
     and KCenters over graph families x option space."""
from fractions import Fraction

from .. import gen
from ..common import cnat, cz, cq, cbool, clist, safe_coq_eval
from ..impl import Impl

IMPORTS = ['Base.Util', 'Model.Clustering']
SITE = {'louvain': 'Louvain.fit', 'leiden': 'Leiden.fit', 'propagation': 'PropagationClustering.fit',
        'kcenters': 'KCenters.fit'}
TOL = 1e-9


# ------------------------------------------------------------------------------------------------
# literals / conversions
# ------------------------------------------------------------------------------------------------
def zlist(l):
    return clist(l, cz)


def nlist(l):
    return clist(l, cnat)


def triples_lit(t):
    return clist(t, lambda e: '(%d, %d, %s)' % (e[0], e[1], cq(e[2])))


def mat_lit(nr, nc, t):
    return '(mat_of_triples %d %d %s)' % (nr, nc, triples_lit(t))


def mspec(nr, nc, t, dtype='float'):
    return {'shape': [nr, nc], 'coo': [[i, j, w] for (i, j, w) in t], 'dtype': dtype, 'fmt': 'csr'}


def fr(x):
    return Fraction(x)


def close(x, f):
    f = float(f)
    return abs(float(x) - f) <= TOL * max(1.0, abs(f))


def mat_close(obs, model):
    """obs: {'shape','data'} from the worker, model: list of lists of Fractions/ints."""
    if obs is None:
        return False
    data = obs['data']
    if len(data) != len(model):
        return False
    for ro, rm in zip(data, model):
        if len(ro) != len(rm):
            return False
        for x, f in zip(ro, rm):
            if not close(x, f):
                return False
    return True


def dense(nr, nc, t):
    A = [[Fraction(0)] * nc for _ in range(nr)]
    for (i, j, w) in t:
        A[i][j] += Fraction(w)
    return A


def unpair(M):
    """Model matrices are printed as (numerator, denominator) pairs."""
    return [[Fraction(a, b) for (a, b) in row] for row in M]


def err_kind(v):
    """('Err', ('ValueError',)) -> 'ValueError'"""
    e = v[1]
    return e[0] if isinstance(e, tuple) else e


# ------------------------------------------------------------------------------------------------
# generators
# ------------------------------------------------------------------------------------------------
def weighted(rng, E, directed, kind=None):
    t, kind = gen.random_weights(rng, E, directed=directed, kind=kind)
    return [(i, j, w) for (i, j, w) in t]


def tiny_units(rng, kind, nr, t):
    """The same graph with some rows (every row of an undirected graph) in units 2^40 times larger: weights of order 1e-12.
    probs_ is scale-free per row: a node of total weight 1e-12 has a membership row of sum 1, not a null row."""
    rows = set(range(nr)) if kind == 'undirected' else {i for i in range(nr) if rng.random() < 0.5}
    return [(i, j, w * 2.0 ** -40 if i in rows else w) for (i, j, w) in t]


def random_case(rng, nmax, kinds=('undirected', 'directed', 'bipartite'), tiny=False):
    """A graph with at least one edge: (kind, nr, nc, triples, family)."""
    if tiny and rng.random() < 0.2:
        kind, nr, nc, t, fam = random_case(rng, nmax, kinds)
        return kind, nr, nc, tiny_units(rng, kind, nr, t), fam + '_tiny'
    while True:
        kind = rng.choice(kinds)
        if kind == 'bipartite':
            nr, nc, E = gen.random_biadj(rng, max(2, nmax * 2 // 3), max(2, nmax * 2 // 3))
            if not E:
                continue
            t = weighted(rng, E, True)
            return kind, nr, nc, t, 'biadj'
        directed = kind == 'directed'
        n, E, fam = gen.random_graph(rng, nmax, directed=directed)
        if not E:
            continue
        return kind, n, n, weighted(rng, E, directed), fam


def random_labels(rng, n, contiguous=False, negatives=False):
    """Label vector with ties in sizes, gaps and (optionally) negatives."""
    k = rng.randint(1, max(1, min(n, 6)))
    if contiguous:
        vals = list(range(k))
    else:
        pool = list(range(-3 if negatives else 0, 3 * k + 4))
        vals = rng.sample(pool, k)
    mode = rng.choice(['free', 'balanced', 'ties'])
    if mode == 'free':
        lab = [rng.choice(vals) for _ in range(n)]
    elif mode == 'balanced':
        lab = [vals[i % k] for i in range(n)]
        rng.shuffle(lab)
    else:
        lab = []
        while len(lab) < n:
            v = rng.choice(vals)
            lab += [v] * rng.randint(1, 2)
        lab = lab[:n]
        rng.shuffle(lab)
    if contiguous:  # every value 0..k-1 present
        for v in range(min(k, n)):
            lab[v] = v
        k2 = len(set(lab))
        remap = {v: i for i, v in enumerate(sorted(set(lab)))}
        lab = [remap[v] for v in lab]
        rng.shuffle(lab)
    return lab


# ------------------------------------------------------------------------------------------------
# independent checks (Python) of the property on label vectors
# ------------------------------------------------------------------------------------------------
def is_contiguous(all_labels):
    s = set(all_labels)
    return len(s) > 0 and min(s) == 0 and max(s) == len(s) - 1


def sizes_sorted(all_labels):
    k = max(all_labels) + 1
    cnt = [0] * k
    for l in all_labels:
        cnt[l] += 1
    return all(cnt[a] >= cnt[a + 1] for a in range(k - 1)), cnt


def same_partition(a, b):
    return len(a) == len(b) and len(set(zip(a, b))) == len(set(a)) == len(set(b))


def model_vals(ctx, tag, exprs):
    """Model values, one per expression; a list of None when the model no longer evaluates (recorded in ctx.proof_broken by
    safe_coq_eval): the callers then skip the model comparison of the case and keep the independent statement ('spec' checks)."""
    vals = safe_coq_eval(ctx, tag, IMPORTS, exprs)
    return vals if vals is not None else [None] * len(exprs)


def argsort_contract(keys, perm):
    return sorted(perm) == list(range(len(keys))) and all(keys[p] <= keys[q] for p, q in zip(perm, perm[1:]))


# ------------------------------------------------------------------------------------------------
# part 1: standalone functions, model vs code
# ------------------------------------------------------------------------------------------------
def part_standalone(ctx, impl, rng, quick):
    n_cases = 300 if quick else 3000
    nmax = 14 if quick else 40
    # --- reindex_labels
    cases = []
    fixed = [[0], [5, 5], [0, 1, 1], [2, 2, 1, 1, 0, 0], [3, -1, 3, -1, 7], [1, 0, 1, 0, 2, 2, 3]]
    for k in range(n_cases):
        lab = fixed[k] if k < len(fixed) else random_labels(rng, rng.randint(1, nmax), negatives=rng.random() < 0.3)
        r = impl.call('c05', 'reindex', {'labels': lab})
        ctx.traces += 1
        ctx.count('reindex_labels', ('reindex', lab), len(set(lab)) >= 2)
        if 'ok' not in r:
            ctx.violation('reindex_labels', 'raised on an integer label vector', case={'labels': lab}, observed=r, check='error')
            continue
        cases.append((lab, r['ok']))
    exprs = []
    for lab, o in cases:
        call = o['argsort'][0]
        # the contract is checked against the keys the MODEL hands to argsort (so a change of the sort key is seen too)
        exprs.append('(argsort_ok_b (map (fun c => (- Z.of_nat c)%%Z) (unique_counts %s)) %s, reindex_labels (fun _ => %s) %s)' %
                     (zlist(lab), nlist(call['perm']), nlist(call['perm']), zlist(lab)))
    vals = model_vals(ctx, 'c05reindex', exprs)
    for (lab, o), v in zip(cases, vals):
        ok_contract, model = v if v is not None else (True, None)
        call = o['argsort'][0]
        if not argsort_contract(call['keys'], call['perm']):
            ctx.violation('np.argsort', 'oracle answer outside its contract (not a sorting permutation)', case=call, check='oracle_contract')
            continue
        if not ok_contract:
            ctx.violation('reindex_labels', 'np.argsort is not applied to the negated cluster sizes the model expects', case={'labels': lab},
                          observed=call, check='correspondence')
            continue
        if model is not None and list(model) != o['out']:
            ctx.violation('reindex_labels', 'implementation differs from the model', case={'labels': lab}, expected=list(model),
                          observed=o['out'], check='correspondence')
        out = o['out']
        srt = sizes_sorted(out)[0] if out else True
        if not (same_partition(out, lab) and is_contiguous(out) and srt):
            ctx.violation('reindex_labels', 'output is not the same partition relabelled 0..k-1 by non-increasing size',
                          case={'labels': lab}, observed=out, check='spec')
    if cases:
        ctx.sample({'kind': 'reindex_labels', 'labels': cases[-1][0], 'impl': cases[-1][1]['out'], 'argsort': cases[-1][1]['argsort']})
    # --- np.unique(return_inverse) compaction
    cases = []
    for k in range(n_cases):
        lab = random_labels(rng, rng.randint(1, nmax), negatives=rng.random() < 0.3)
        dt = rng.choice(['int64', 'int32'])
        r = impl.call('c05', 'unique_inverse', {'labels': lab, 'dtype': dt})
        ctx.traces += 1
        ctx.count('unique_inverse', ('uinv', lab), len(set(lab)) >= 2)
        cases.append((lab, r))
    vals = model_vals(ctx, 'c05uinv', ['snd (unique_inverse %s)' % zlist(lab) for lab, _ in cases])
    for (lab, r), v in zip(cases, vals):
        if 'ok' not in r or (v is not None and r['ok']['inverse'] != list(v)):
            ctx.violation('np.unique', 'return_inverse differs from the model', case={'labels': lab},
                          expected=list(v) if v is not None else None, observed=r, check='correspondence')
        elif not (same_partition(r['ok']['inverse'], lab) and is_contiguous(r['ok']['inverse'])):
            ctx.violation('np.unique', 'compaction is not the same partition on 0..k-1', case={'labels': lab}, observed=r, check='spec')
    # --- get_membership
    cases = []
    fixed = [([-1, -1], None), ([-2, -2], None), ([0, 3], 2), ([], None), ([0, -1, 2], None), ([0, 1], 5)]
    for k in range(n_cases):
        if k < len(fixed):
            lab, nl = fixed[k]
        else:
            lab = random_labels(rng, rng.randint(1, nmax), negatives=rng.random() < 0.5)
            u = rng.random()
            nl = None if u < 0.5 else (max(lab) + 1 + rng.randint(0, 2) if u < 0.9 else max(0, max(lab) - rng.randint(0, 1)))
            if nl is not None and nl < 0:
                nl = 0
        r = impl.call('c05', 'membership', {'labels': lab, 'n_labels': nl})
        ctx.traces += 1
        ctx.count('get_membership', ('memb', lab, nl), len(lab) > 0)
        cases.append((lab, nl, r))
    vals = model_vals(ctx, 'c05memb', ['get_membership_red %s %s' % (zlist(lab), 'None' if nl is None else '(Some %d)' % nl)
                                       for lab, nl, _ in cases])
    for (lab, nl, r), v in zip(cases, vals):
        if v is None:
            exp = got = None       # model dead: only the independent statement on a returned matrix
        elif v[0] == 'Err':
            exp = {'err': err_kind(v)}
            got = {'err': r.get('err')} if 'err' in r else r
        else:
            k, M = v[1]
            exp = {'shape': [len(lab), k], 'data': [[int(x) for x in row] for row in unpair(M)]}
            got = {'shape': r['ok']['shape'], 'data': r['ok']['data']} if 'ok' in r else r
        if exp != got:
            ctx.violation('get_membership', 'implementation differs from the model', case={'labels': lab, 'n_labels': nl},
                          expected=exp, observed=got, check='correspondence')
        elif 'ok' in r:
            rows_ok = all(sum(row) == (1 if l >= 0 else 0) and (l < 0 or (l < len(row) and row[l] == 1)) for l, row in zip(lab, r['ok']['data']))
            if not rows_ok:
                ctx.violation('get_membership', 'rows are not one-hot / null for negative labels', case={'labels': lab, 'n_labels': nl},
                              observed=r['ok'], check='spec')


# ------------------------------------------------------------------------------------------------
# part 2: Louvain._post_processing on prescribed memberships (sort, un-shuffle, split, secondary outputs)
# ------------------------------------------------------------------------------------------------
def labels_vec(o):
    """Full label vector reported (rows then columns when split)."""
    if o.get('labels_col') is not None and o.get('labels_row') is not None:
        return o['labels_row']['v'] + o['labels_col']['v']
    return o['labels']['v']


def part_post(ctx, impl, rng, quick):
    n_cases = 250 if quick else 2500
    nmax = 12 if quick else 40
    cases = []
    for _ in range(n_cases):
        kind, nr, nc, t, fam = random_case(rng, nmax, tiny=True)
        bip = kind == 'bipartite'
        n = nr + nc if bip else nr
        raw = random_labels(rng, n, contiguous=True)
        index = gen.random_perm(rng, n)
        sort_c, shuf = rng.random() < 0.6, rng.random() < 0.6
        args = dict(m=mspec(nr, nc, t), raw=raw, index=index, sort_clusters=sort_c, shuffle_nodes=shuf, bipartite=bip)
        r = impl.call('c05', 'post_processing', args)
        ctx.traces += 1
        ctx.count('post_processing:' + kind, ('post', args), len(set(raw)) >= 2)
        if 'ok' not in r:
            ctx.violation('Louvain._post_processing', 'raised', case=args, observed=r, check='error')
            continue
        cases.append((args, r['ok'], nr, nc, t, bip))
    exprs = []
    for args, o, nr, nc, t, bip in cases:
        if args['sort_clusters']:
            perm = o['argsort'][0]['perm']
            keys = '(map (fun c => (- Z.of_nat c)%%Z) (unique_counts (map Z.of_nat %s)))' % nlist(args['raw'])
        else:
            perm, keys = [], '[]'
        exprs.append('(argsort_ok_b %s %s, post_processing (fun _ => %s) %s %s %s %s)' %
                     (keys, nlist(perm), nlist(perm), cbool(args['sort_clusters']), cbool(args['shuffle_nodes']),
                      nlist(args['index']), nlist(args['raw'])))
    vals = model_vals(ctx, 'c05post', exprs)
    sec = []
    for (args, o, nr, nc, t, bip), v in zip(cases, vals):
        okc, model = v if v is not None else (True, None)
        got = labels_vec(o)
        if not okc:
            ctx.violation('Louvain._post_processing', 'np.argsort answer does not sort the negated cluster sizes the model expects', case=args,
                          observed=o['argsort'], check='correspondence')
            continue
        if model is not None and list(model) != got:
            ctx.violation('Louvain._post_processing', 'labels differ from the model (sort / un-shuffle)', case=args,
                          expected=list(model), observed=got, check='correspondence')
            continue
        # independent statement of unshuffle_correct / reindex_labels_spec on the implementation output
        raw, index = args['raw'], args['index']
        img = index if args['shuffle_nodes'] else list(range(len(raw)))
        through = [got[img[i]] for i in range(len(raw))]
        ok = same_partition(through, raw) and is_contiguous(got) and (not args['sort_clusters'] or sizes_sorted(got)[0])
        if not args['sort_clusters']:
            ok = ok and through == raw
        if not ok:
            ctx.violation('Louvain._post_processing', 'reported labels are not the computed partition mapped back through the shuffle',
                          case=args, observed=got, check='spec')
        sec.append((args, o, nr, nc, t, bip))
    check_secondary(ctx, 'Louvain._post_processing', sec, 'post')
    if cases:
        ctx.sample({'kind': 'post_processing', 'args': cases[-1][0], 'impl_labels': labels_vec(cases[-1][1])})


def check_secondary(ctx, site, items, tag, extra=None):
    """items: (args, observed dict with labels/probs/aggregate, nr, nc, triples, bipartite).
    Model recomputation of probs_/aggregate_ from the implementation's labels and the input matrix."""
    def want(it, what):
        # an output is compared only when the caller asked for it (return_probs / return_aggregate): with the flag off the
        # attribute may hold whatever an earlier stage left there, and the property says nothing about it
        return it[0].get('options', {}).get(what, True)

    def masked(it):
        o = dict(it[1])
        if not want(it, 'return_probs'):
            o['probs'] = o['probs_row'] = o['probs_col'] = None
        if not want(it, 'return_aggregate'):
            o['aggregate'] = None
        return (it[0], o) + tuple(it[2:])
    items = [masked(it) for it in items]
    nb = [it for it in items if not it[5] and (it[1].get('probs') is not None or it[1].get('aggregate') is not None)]
    bp = [it for it in items if it[5] and (it[1].get('probs_row') is not None or it[1].get('aggregate') is not None)]
    # the recomputation is done by the model inside Coq: skipped (and recorded) when the model no longer evaluates; rows of probs_
    # and the block sums of aggregate_ are judged independently by oracle_fit for the fitted estimators
    if nb:
        vals = safe_coq_eval(ctx, 'c05sec' + tag, IMPORTS, ['secondary_red %s %s' % (mat_lit(nr, nc, t), zlist(o['labels']['v']))
                                                            for (_, o, nr, nc, t, _) in nb])
        for (args, o, nr, nc, t, _), v in zip(nb, vals or []):
            ctx.count('secondary:adjacency', ('sec', tag, args), True)
            if v[0] != 'Ok':
                ctx.violation(site, 'model cannot recompute the secondary outputs from the reported labels', case=args,
                              observed=o['labels'], check='secondary_model_error', **(extra or {}))
                continue
            k, P, G = v[1]
            P, G = unpair(P), unpair(G)
            if o.get('probs') is not None and not mat_close(o['probs'], P):
                ctx.violation(site, 'probs_ differs from normalize(A . membership(labels_))', case=args, labels=o['labels']['v'],
                              expected=P, observed=o['probs'], check='probs_correspondence', **(extra or {}))
            if o.get('aggregate') is not None and not mat_close(o['aggregate'], G):
                ctx.violation(site, 'aggregate_ differs from M^T A M', case=args, labels=o['labels']['v'], expected=G,
                              observed=o['aggregate'], check='aggregate_correspondence', **(extra or {}))
    if bp:
        vals = safe_coq_eval(ctx, 'c05secb' + tag, IMPORTS,
                             ['secondary_bip_red %s %s %s' % (mat_lit(nr, nc, t), zlist(o['labels_row']['v']), zlist(o['labels_col']['v']))
                              for (_, o, nr, nc, t, _) in bp])
        for (args, o, nr, nc, t, _), v in zip(bp, vals or []):
            ctx.count('secondary:biadjacency', ('secb', tag, args), True)
            if v[0] != 'Ok':
                ctx.violation(site, 'model cannot recompute the secondary outputs from the reported labels', case=args,
                              observed=[o['labels_row'], o['labels_col']], check='secondary_model_error', **(extra or {}))
                continue
            k, Pr, Pc, G = v[1]
            Pr, Pc, G = unpair(Pr), unpair(Pc), unpair(G)
            lab = dict(labels_row=o['labels_row']['v'], labels_col=o['labels_col']['v'])
            if o.get('probs_row') is not None and not mat_close(o['probs_row'], Pr):
                ctx.violation(site, 'probs_row_ differs from normalize(B . membership(labels_col_))', case=args, expected=Pr,
                              observed=o['probs_row'], check='probs_correspondence', **lab, **(extra or {}))
            if o.get('probs_col') is not None and not mat_close(o['probs_col'], Pc):
                ctx.violation(site, 'probs_col_ differs from normalize(B^T . membership(labels_row_))', case=args, expected=Pc,
                              observed=o['probs_col'], check='probs_correspondence', **lab, **(extra or {}))
            if o.get('probs') is not None and o.get('probs_row') is not None and o['probs'] != o['probs_row']:
                ctx.violation(site, 'probs_ is not probs_row_', case=args, check='probs_correspondence', **(extra or {}))
            if o.get('aggregate') is not None and not mat_close(o['aggregate'], G):
                ctx.violation(site, 'aggregate_ differs from M_row^T B M_col', case=args, expected=G, observed=o['aggregate'],
                              check='aggregate_correspondence', **lab, **(extra or {}))


    # ---- the expressions regenerated from clustering/base.py (Gen/NpSecondary.v; theorems source_secondary_* of Props/C05.v),
    #      evaluated inside Coq over exact rationals with the array semantics of Model/NpVec.v on the implementation's own labels,
    #      must reproduce probs_ / aggregate_ (square) and probs_row_ / probs_col_ / aggregate_ (bipartite)
    cap = 40 if ctx.tier == 'quick' else 300
    done = ctx.extra.get('source_terms_evaluated', 0)

    def dense(nr, nc, t):
        M = [[Fraction(0)] * nc for _ in range(nr)]
        for (i, j, w) in t:
            M[i][j] += Fraction(w)
        return clist(M, lambda row: clist(row, cq))
    src = []
    for it in nb:
        (args, o, nr, nc, t, _) = it
        if done + len(src) >= cap or nr > 8 or nr != nc or any(x < 0 for x in o['labels']['v']):
            continue
        env = '(qenv_secondary %s %d %s)' % (dense(nr, nc, t), nr, zlist(o['labels']['v']))
        src.append((args, o, [('probs', 'src_secondary_probs'), ('aggregate', 'src_secondary_aggregate')], env))
    for it in bp:
        (args, o, nr, nc, t, _) = it
        if done + len(src) >= cap or nr + nc > 9 or any(x < 0 for x in o['labels_row']['v'] + o['labels_col']['v']):
            continue
        env = '(qenv_secondary_bip %s %d %d %s %s)' % (dense(nr, nc, t), nr, nc, zlist(o['labels_row']['v']), zlist(o['labels_col']['v']))
        src.append((args, o, [('probs_row', 'src_secondary_probs_row'), ('probs_col', 'src_secondary_probs_col'),
                              ('aggregate', 'src_secondary_aggregate_bip')], env))
    exprs = ['(%s)' % ', '.join('map (map qz3) (qmresult (qvdenote %s %s))' % (env, term) for _, term in pairs)
             for (_, _, pairs, env) in src]
    if exprs:
        vals = safe_coq_eval(ctx, 'c05src' + tag, ['Base.Util', 'Model.NpExpr', 'Model.NpVec', 'Gen.NpSecondary'], exprs,
                             prelude='Definition qz3 (q : Q) : Z * Z := (Qnum q, Zpos (Qden q)).\n', shard=40)
        for (args, o, pairs, env), v in zip(src, vals or []):
            ctx.extra['source_terms_evaluated'] = ctx.extra.get('source_terms_evaluated', 0) + 1
            ctx.count('source_term:_secondary_outputs', ('src', tag, args), True)
            for (key, term), mv in zip(pairs, v):
                if o.get(key) is not None and not mat_close(o[key], unpair(mv)):
                    ctx.violation(site, 'the expression regenerated from clustering/base.py (%s), evaluated with the array semantics of '
                                  'Model/NpVec.v on the reported labels, differs from %s_' % (term, key), case=args,
                                  expected=[[float(x) for x in row] for row in unpair(mv)], observed=o[key],
                                  check='source_term', term=term, **(extra or {}))


# ------------------------------------------------------------------------------------------------
# part 3: Louvain.fit / Leiden.fit with prescribed optimiser answers
# ------------------------------------------------------------------------------------------------
def gen_levels(rng, n, leiden):
    L = rng.randint(1, 3)
    levels, refined = [], []
    size = n
    for l in range(L):
        k = rng.randint(2 if l < L - 1 else 1, max(2, min(size, 5))) if size >= 2 else 1
        vals = rng.sample(range(0, 3 * size + 3), k)
        lab = [rng.choice(vals) for _ in range(size)]
        levels.append(lab)
        if leiden:
            # a refinement: split every cluster in up to 2 parts, arbitrary (non-contiguous) names
            names = {}
            ref = []
            for v in lab:
                key = (v, rng.randint(0, 1))
                if key not in names:
                    names[key] = rng.randint(0, 1000) * 100 + len(names)
                ref.append(names[key])
            refined.append(ref)
            size = len(set(ref))
        else:
            size = len(set(lab))
    return levels, refined


def part_levels(ctx, impl, rng, quick):
    n_cases = 200 if quick else 2000
    nmax = 10 if quick else 30
    cases = []
    for c in range(n_cases):
        algo = 'leiden' if c % 3 == 2 else 'louvain'
        kind, nr, nc, t, fam = random_case(rng, nmax)
        fb = (nr == nc) and (rng.random() < (0.5 if kind == 'bipartite' else 0.15))
        bip = nr != nc or fb
        n = nr + nc if bip else nr
        levels, refined = gen_levels(rng, n, algo == 'leiden')
        opts = dict(sort_clusters=rng.random() < 0.6, shuffle_nodes=rng.random() < 0.6, random_state=rng.randint(0, 50),
                    modularity=rng.choice(['dugue', 'newman', 'potts']), return_probs=False, return_aggregate=False)
        args = dict(algo=algo, m=mspec(nr, nc, t), options=opts, levels=levels, refined=refined, force_bipartite=fb)
        r = impl.call('c05', 'louvain_levels', args)
        ctx.traces += 1
        ctx.count('levels:%s:%s' % (algo, kind), ('levels', args), len(set(levels[0])) >= 2)
        if 'ok' not in r:
            ctx.violation(SITE[algo], 'fit with prescribed optimiser answers raised', case=args, observed=r, check='error', stage='levels')
            continue
        cases.append((args, r['ok'], n, nr, bip))
    exprs = []
    for args, o, n, nr, bip in cases:
        used = o['levels_used']
        if args['algo'] == 'leiden':
            chain = args['refined'][:used - 1] + [args['levels'][used - 1]]
        else:
            chain = args['levels'][:used]
        opts = args['options']
        perm = o['argsort'][-1]['perm'] if (opts['sort_clusters'] and o['argsort']) else []
        index = o['perms'][0] if opts['shuffle_nodes'] else []
        exprs.append('louvain_labels (fun _ => %s) %s %s %s %d %d %s (map (fun l => map Z.of_nat (snd (unique_inverse l))) %s)' %
                     (nlist(perm), cbool(opts['sort_clusters']), cbool(opts['shuffle_nodes']), cbool(bip), n, nr,
                      nlist(index), clist(chain, zlist)))
    vals = model_vals(ctx, 'c05levels', exprs)
    for (args, o, n, nr, bip), v in zip(cases, vals):
        if v is None:
            continue      # model dead: this part is a pure model-vs-code comparison
        if v[0] != 'Ok':
            ctx.violation(SITE[args['algo']], 'model rejects a level chain the implementation accepted', case=args, observed=o,
                          check='correspondence', stage='levels')
            continue
        lab, split = v[1]
        exp = {'labels': list(lab)}
        got = {'labels': o['labels']['v']}
        if split is not None:
            exp.update(row=list(split[1][0]), col=list(split[1][1]))
            got.update(row=o['labels_row']['v'] if o['labels_row'] else None, col=o['labels_col']['v'] if o['labels_col'] else None)
        if exp != got or o['bipartite'] != bip:
            ctx.violation(SITE[args['algo']], 'labels differ from the model of compaction + membership composition + post-processing',
                          case=args, expected=exp, observed=got, check='correspondence', stage='levels')
    if cases:
        ctx.sample({'kind': 'prescribed_levels', 'args': cases[-1][0], 'impl': cases[-1][1]})


# ------------------------------------------------------------------------------------------------
# part 3b: PropagationClustering.fit with a prescribed raw labelling (compaction, sort, split, secondary outputs)
# ------------------------------------------------------------------------------------------------
def part_propagation(ctx, impl, rng, quick):
    n_cases = 200 if quick else 2000
    nmax = 12 if quick else 40
    site = SITE['propagation']
    cases = []
    for _ in range(n_cases):
        kind, nr, nc, t, fam = random_case(rng, nmax, tiny=True)
        bip = nr != nc
        n = nr + nc if bip else nr
        raw = random_labels(rng, n)          # labels >= 0 with gaps and size ties, as the vote kernel leaves them
        opts = dict(sort_clusters=rng.random() < 0.7, return_probs=True, return_aggregate=True)
        args = dict(m=mspec(nr, nc, t), raw=raw, options=opts)
        r = impl.call('c05', 'propagation_post', args)
        ctx.traces += 1
        ctx.count('propagation_post:' + ('bipartite' if bip else kind if kind != 'bipartite' else 'directed'), ('ppost', args),
                  len(set(raw)) >= 2)
        if 'ok' not in r:
            ctx.violation(site, 'fit with a prescribed raw labelling raised', case=args, observed=r, check='error', stage='prescribed')
            continue
        cases.append((args, r['ok'], nr, nc, t, bip))
    exprs = []
    for args, o, nr, nc, t, bip in cases:
        srt = args['options']['sort_clusters']
        perm = o['argsort'][0]['perm'] if (srt and o['argsort']) else []   # reindex_labels precedes _secondary_outputs
        keys = ('(map (fun c => (- Z.of_nat c)%%Z) (unique_counts (map Z.of_nat (snd (unique_inverse %s)))))' % zlist(args['raw'])) if srt else '[]'
        exprs.append('(argsort_ok_b %s %s, propagation_labels (fun _ => %s) %s %s %d %s)' %
                     (keys, nlist(perm), nlist(perm), cbool(srt), cbool(bip), nr, zlist(args['raw'])))
    vals = model_vals(ctx, 'c05ppost', exprs)
    sec = []
    for (args, o, nr, nc, t, bip), v in zip(cases, vals):
        srt = args['options']['sort_clusters']
        got = labels_vec(o) if bip else o['labels']['v']
        if v is None:       # model dead: no model comparison, the independent statement below still applies
            okc, allv = True, got
        else:
            okc, (lab, split) = v
            allv = list(lab) if split is None else list(split[1][0]) + list(split[1][1])
        if srt and not okc:
            # sort_clusters requested and no np.argsort answer sorting the negated sizes: the sort is missing or altered
            ok, cnt = sizes_sorted(got) if got else (True, [])
            if not ok:
                ctx.violation(site, 'sort_clusters=True but cluster sizes are not non-increasing in the label', case=args, algo='propagation',
                              check='sizes_sorted', observed=got, sizes=cnt, stage='prescribed')
            else:
                ctx.violation(site, 'np.argsort is not applied to the negated cluster sizes the model expects', case=args, observed=o['argsort'],
                              check='correspondence', stage='prescribed')
            continue
        if allv != got or (v is not None and o['bipartite'] != bip):
            ctx.violation(site, 'labels differ from the model of compaction + sort + split', case=args, expected=allv, observed=got,
                          check='correspondence', stage='prescribed')
            continue
        if not (same_partition(got, args['raw']) and is_contiguous(got) and (not srt or sizes_sorted(got)[0])):
            ctx.violation(site, 'labels are not the prescribed partition on 0..k-1 (sizes non-increasing when sorted)', case=args,
                          observed=got, check='sizes_sorted' if is_contiguous(got) and same_partition(got, args['raw']) else 'spec',
                          algo='propagation', stage='prescribed')
        sec.append((args, o, nr, nc, t, bip))
    check_secondary(ctx, site, sec, 'ppost', extra=dict(algo='propagation', stage='prescribed'))
    if cases:
        ctx.sample({'kind': 'propagation_prescribed', 'args': cases[-1][0], 'impl_labels': labels_vec(cases[-1][1])})


# ------------------------------------------------------------------------------------------------
# part 4: KCenters._init_centers with recorded draws and PageRank answers
# ------------------------------------------------------------------------------------------------
def part_kcinit(ctx, impl, rng, quick):
    n_cases = 120 if quick else 1000
    nmax = 10 if quick else 25
    cases = []
    for c in range(n_cases):
        n, E, fam = gen.random_graph(rng, nmax, directed=False, nmin=3)
        if not E:
            continue
        t = weighted(rng, E, False, kind='unit')
        mask = [rng.random() < 0.7 for _ in range(n)]
        if sum(mask) < 2:
            mask = [True] * n
        k = rng.randint(2, min(sum(mask), 5))
        args = dict(m=mspec(n, n, t), mask=mask, k=k, np_seed=rng.randint(0, 10 ** 6))
        r = impl.call('c05', 'kc_init', args, timeout=60)
        ctx.traces += 1
        ctx.count('kc_init:' + fam, ('kcinit', args), True)
        if 'ok' not in r:
            ctx.violation('KCenters._init_centers', 'raised', case=args, observed=r, check='error')
            continue
        cases.append((args, r['ok']))
    exprs = []
    for args, o in cases:
        picks = [ch['pick'] for ch in o['choices']]
        table = clist(o['scores'], lambda s: clist(s, lambda x: cq(fr(x))))
        exprs.append('init_centers %s %d (fun cs => nth (length cs - 1) %s []) (fun step _ => nth step %s 0)' %
                     (clist(args['mask'], cbool), args['k'], table, nlist(picks)))
    vals = model_vals(ctx, 'c05kcinit', exprs)
    for (args, o), v in zip(cases, vals):
        for ch in o['choices']:
            if ch['pick'] not in ch['cands']:
                ctx.violation('np.random.choice', 'oracle answer outside its contract', case=ch, check='oracle_contract')
        exp = None if (v is None or v[0] != 'Ok') else {'centers': list(v[1][0]), 'cands': [list(c) for c in v[1][1]]}
        got = {'centers': o['centers'], 'cands': [ch['cands'] for ch in o['choices']]}
        if v is not None and exp != got:
            ctx.violation('KCenters._init_centers', 'centers / candidate arrays differ from the model', case=args, expected=exp,
                          observed=got, check='correspondence')
        cs = o['centers']
        if not (len(cs) == args['k'] and len(set(cs)) == len(cs) and all(0 <= c < len(args['mask']) and args['mask'][c] for c in cs)):
            ctx.violation('KCenters._init_centers', 'initial centers are not k distinct masked nodes', case=args, observed=cs, check='spec')
    if cases:
        ctx.sample({'kind': 'kc_init', 'args': cases[-1][0], 'impl': {'centers': cases[-1][1]['centers'],
                                                                       'choices': cases[-1][1]['choices']}})


# ------------------------------------------------------------------------------------------------
# part 5: the four estimators, property oracle + model recomputation of the secondary outputs
# ------------------------------------------------------------------------------------------------
def random_options(rng, algo, kind, nr, nc, bip=False):
    if algo in ('louvain', 'leiden'):
        return dict(modularity=rng.choice(['dugue', 'newman', 'potts', 'Dugue', 'Newman']), resolution=rng.choice([0.5, 1, 1, 2]),
                    shuffle_nodes=rng.random() < 0.5, random_state=rng.randint(0, 100), sort_clusters=rng.random() < 0.7,
                    return_probs=rng.random() < 0.8, return_aggregate=rng.random() < 0.8, n_aggregations=rng.choice([-1, -1, 1, 2]))
    if algo == 'propagation':
        return dict(n_iter=rng.choice([1, 5, 5, 20]), node_order=rng.choice(['random', 'increasing', 'decreasing', None]),
                    weighted=rng.random() < 0.7, sort_clusters=rng.random() < 0.7, return_probs=rng.random() < 0.8,
                    return_aggregate=rng.random() < 0.8)
    # kcenters
    pos = rng.choice(['row', 'col', 'both'])
    cap = {'row': nr, 'col': nc, 'both': nr + nc}[pos] if bip else nr
    return dict(n_clusters=rng.randint(2, max(2, min(cap, 4))), center_position=pos, n_init=rng.choice([1, 2]),
                max_iter=rng.choice([1, 20]), directed=(kind == 'directed' and rng.random() < 0.5)), cap


def block_sums(A, lr, lc, K):
    G = [[Fraction(0)] * K for _ in range(K)]
    for i, row in enumerate(A):
        if lr[i] < 0:
            continue
        for j, w in enumerate(row):
            if w and lc[j] >= 0:
                G[lr[i]][lc[j]] += w
    return G


def rows_ok(P, out_weight, K):
    """Every row non-negative, summing to 1 (0 when the node has no outgoing weight)."""
    if P is None or P['shape'] != [len(out_weight), K]:
        return False
    for row, w in zip(P['data'], out_weight):
        if any(x < -1e-12 for x in row):
            return False
        if not close(sum(row), 1 if w > 0 else 0):
            return False
    return True


def oracle_fit(ctx, args, o, kind, nr, nc, t, bip, dtype=None):
    """The property, stated independently, on one fitted estimator.  Returns True when the labels are usable."""
    algo = args['algo']
    opts = args['options']
    site = SITE[algo]
    small = dict(algo=algo, kind=kind, options=opts, m=args['m'], force_bipartite=args.get('force_bipartite', False),
                 np_seed=args.get('np_seed'))

    def bad(check, what, **kw):
        ctx.violation(site, what, case=small, algo=algo, check=check, graph=kind, dtype=dtype or args['m'].get('dtype'), **kw)

    # -- exactly one integer label per node (per row and per column)
    def vec_ok(x, n):
        return x is not None and x['int'] and x['ndim'] == 1 and len(x['v']) == n
    if bip:
        if not (vec_ok(o['labels_row'], nr) and vec_ok(o['labels_col'], nc) and vec_ok(o['labels'], nr)
                and o['labels']['v'] == o['labels_row']['v']):
            bad('one_label_per_node', 'bipartite graph: labels_row_/labels_col_ do not give one integer label per row and per column',
                observed=dict(labels=o['labels'], row=o['labels_row'], col=o['labels_col']))
            return False
        lr, lc = o['labels_row']['v'], o['labels_col']['v']
        allv = lr + lc
    else:
        if not vec_ok(o['labels'], nr):
            bad('one_label_per_node', 'labels_ does not give one integer label per node', observed=o['labels'])
            return False
        lr = lc = allv = o['labels']['v']
    A = dense(nr, nc, t)
    if algo == 'kcenters':
        k = opts['n_clusters']
        if not all(l < k for l in allv):
            bad('labels_below_k', 'a label is not below n_clusters', observed=allv)
        cs = o.get('centers')
        pos = opts.get('center_position', 'row')
        n = nr + nc if bip else nr
        okc = cs is not None and cs['int'] and len(cs['v']) == k and len(set(cs['v'])) == k
        if okc:
            if not bip or pos == 'both':
                okc = all(0 <= c < n for c in cs['v'])
            elif pos == 'row':
                okc = all(0 <= c < nr for c in cs['v'])
            else:
                okc = all(nr <= c < nr + nc for c in cs['v'])
        if not okc:
            bad('centers', 'centers_ is not n_clusters distinct admissible nodes', observed=cs, center_position=pos)
        elif bip:
            cr = o['centers_row']['v'] if o.get('centers_row') else []
            cc = o['centers_col']['v'] if o.get('centers_col') else []
            exp_r = sorted(c for c in cs['v'] if c < nr)
            exp_c = sorted(c - nr for c in cs['v'] if c >= nr)
            if sorted(cr) != exp_r or sorted(cc) != exp_c:
                bad('centers_split', 'centers_row_/centers_col_ are not the row / column centers', observed=dict(centers=cs['v'], row=cr, col=cc),
                    center_position=pos)
        return True
    # -- Louvain, Leiden, propagation: labels 0..k-1, none unused (rows and columns share one label space)
    if not is_contiguous(allv):
        bad('contiguous', 'labels are not exactly 0..k-1', observed=allv)
        return False
    if opts.get('sort_clusters', True):
        ok, cnt = sizes_sorted(allv)
        if not ok:
            bad('sizes_sorted', 'sort_clusters=True but cluster sizes are not non-increasing in the label', observed=allv, sizes=cnt)
    K = max(allv) + 1
    if opts.get('return_probs', True):
        out_r = [sum(r) for r in A]
        if bip:
            out_c = [sum(A[i][j] for i in range(nr)) for j in range(nc)]
            if not rows_ok(o.get('probs_row'), out_r, K) or not rows_ok(o.get('probs_col'), out_c, K) or not rows_ok(o.get('probs'), out_r, K):
                bad('probs_rows', 'a row of probs_row_/probs_col_ is negative or does not sum to 1 (0 without outgoing edge)',
                    observed=dict(row=o.get('probs_row'), col=o.get('probs_col')), labels=[lr, lc])
        elif not rows_ok(o.get('probs'), out_r, K):
            bad('probs_rows', 'a row of probs_ is negative or does not sum to 1 (0 without outgoing edge)', observed=o.get('probs'), labels=lr)
    if opts.get('return_aggregate', True):
        G = block_sums(A, lr, lc, K)
        tot = sum(sum(r) for r in A)
        ag = o.get('aggregate')
        if ag is None or not mat_close(ag, G):
            bad('aggregate_blocks', 'aggregate_ is not the matrix of edge-weight sums between clusters', observed=ag, expected=G, labels=[lr, lc])
        elif not close(sum(sum(r) for r in ag['data']), tot):
            bad('aggregate_total', 'total of aggregate_ differs from the total edge weight', observed=ag, expected=tot)
    return True


def part_fit(ctx, impl, rng, quick):
    nmax = 12 if quick else 40
    plan = []   # (algo, kind, nr, nc, triples, family, options, force_bipartite)
    # exhaustive small inputs, default options: all undirected graphs on <= 4 nodes, all 2x2 / 2x3 biadjacency matrices
    for n in (2, 3, 4):
        for E in gen.all_undirected(n):
            if not E:
                continue
            t = [(i, j, 1) for (i, j) in gen.sym(E)]
            for algo in ('louvain', 'leiden', 'propagation'):
                plan.append((algo, 'undirected', n, n, t, 'exh_undir_%d' % n, {}, False))
            if n >= 3 and (not quick or rng.random() < 0.4):
                plan.append(('kcenters', 'undirected', n, n, t, 'exh_undir_%d' % n, dict(n_clusters=2, n_init=1), False))
    for (r, c) in ((2, 2), (2, 3), (3, 2)):
        for E in gen.all_biadj(r, c):
            if not E:
                continue
            t = [(i, j, 1) for (i, j) in E]
            fb = r == c
            for algo in ('louvain', 'leiden') + (() if fb else ('propagation',)):
                if quick and rng.random() < 0.5:
                    continue
                plan.append((algo, 'bipartite', r, c, t, 'exh_biadj_%dx%d' % (r, c), {}, fb))
    # structured random x option space
    reps = dict(louvain=300, leiden=220, propagation=300, kcenters=100) if quick else dict(louvain=3000, leiden=2500, propagation=3000, kcenters=700)
    for algo, cnt in reps.items():
        for _ in range(cnt):
            kinds = ('undirected', 'directed', 'bipartite')
            kind, nr, nc, t, fam = random_case(rng, nmax if algo != 'kcenters' else min(nmax, 16), kinds)
            fb = False
            if algo != 'propagation':
                if kind == 'bipartite' and nr == nc:
                    fb = True          # a square biadjacency matrix is one only when the caller says so
                elif kind == 'undirected' and rng.random() < 0.12:
                    fb = True
            bip = nr != nc or fb
            if algo == 'kcenters':
                opts, cap = random_options(rng, algo, kind, nr, nc, bip)
                if cap < 2:
                    continue
                if bip:
                    opts['directed'] = False
            else:
                opts = random_options(rng, algo, kind, nr, nc)
            plan.append((algo, kind, nr, nc, t, fam, opts, fb))
    # a pendant node hanging on a clique, beside a second small clique, at resolutions around 1 (where the pendant node and its
    # neighbour may or may not end up together): Leiden's refinement and aggregation must still return a partition
    for s_ in ((4, 3), (7, 0), (5, 3)) if quick else ((4, 3), (7, 0), (5, 3), (6, 4), (4, 0), (5, 5)):
        big, small = s_
        E_ = [(0, 1)] + [(i, j) for i in range(1, big + 1) for j in range(i + 1, big + 1)]
        E_ += [(big + 1 + i, big + 1 + j) for i in range(small) for j in range(i + 1, small)]
        n_ = 1 + big + small
        t_ = [(i, j, 1) for (i, j) in gen.sym(E_)]
        for algo in ('louvain', 'leiden'):
            for mod_ in ('dugue', 'newman', 'potts'):
                for res_ in (1, 1.02, 1.05, 1.5):
                    opts = dict(modularity=mod_, resolution=res_, shuffle_nodes=False, random_state=0, sort_clusters=True,
                                return_probs=True, return_aggregate=True, n_aggregations=-1)
                    plan.append((algo, 'undirected', n_, n_, t_, 'pendant_clique', opts, False))
    items = []
    errors = {}
    for (algo, kind, nr, nc, t, fam, opts, fb) in plan:
        bip = nr != nc or (fb and algo != 'propagation')
        k2 = 'bipartite' if bip else ('directed' if kind == 'bipartite' else kind)
        if any(w != int(w) for (_, _, w) in t):
            dtype = 'float'
        elif all(w == 1 for (_, _, w) in t):
            dtype = rng.choice(['bool', 'int', 'float'])
        else:
            dtype = rng.choice(['int', 'float'])
        args = dict(algo=algo, m=mspec(nr, nc, t, dtype=dtype), options=opts, force_bipartite=fb, np_seed=rng.randint(0, 10 ** 6))
        r = impl.call('c05', 'fit', args, timeout=120 if algo == 'kcenters' else 60)
        if len(items) % 2 == 1 and 'ok' in r:
            # the same fit on an estimator object that has been fitted on two other graphs (one bipartite) before: every attribute
            # named by the property must be what the fresh object gives (nothing left over, nothing missing)
            r2 = impl.call('c05', 'fit', dict(args, prior=True), timeout=120 if algo == 'kcenters' else 60)
            ctx.traces += 1
            if 'ok' in r2 and r2['ok'] != r['ok']:
                diff = sorted(k_ for k_ in r['ok'] if r['ok'].get(k_) != r2['ok'].get(k_))
                ctx.violation({'louvain': 'Louvain.fit', 'leiden': 'Leiden.fit', 'propagation': 'PropagationClustering.fit',
                               'kcenters': 'KCenters.fit'}.get(algo, algo), 'outputs after earlier fits of the same object on other graphs '
                              'differ from those of a fresh object: %s' % ', '.join(d_ + '_' for d_ in diff), case=args, algo=algo,
                              check='stale_outputs', expected={k_: r['ok'][k_] for k_ in diff}, observed={k_: r2['ok'].get(k_) for k_ in diff})
        ctx.traces += 1
        ctx.count('fit:%s:%s' % (algo, k2), ('fit', args), nr + (nc if bip else 0) >= 3)
        if 'ok' not in r:
            # "After fit ..." — a fit that raises is outside C05's statement (C17 owns termination / crashes); recorded only
            key = '%s:%s' % (algo, r.get('err') or ('hang' if r.get('hang') else 'crash'))
            errors[key] = errors.get(key, 0) + 1
            if algo in ('louvain', 'leiden', 'propagation') and r.get('err') in ('ValueError', 'IndexError', 'KeyError', 'TypeError') and t:
                # ... except an exception of the library's own making on a valid graph with at least one edge and valid options:
                # no node receives a label at all
                ctx.violation({'louvain': 'Louvain.fit', 'leiden': 'Leiden.fit', 'propagation': 'PropagationClustering.fit'}[algo],
                              'fit raised %s on a valid graph (no clustering is returned): %s' % (r.get('err'), str(r.get('msg'))[:120]),
                              case=args, algo=algo, check='fit_raises', observed=r.get('err'))
            if len(errors) <= 6 and errors[key] == 1:
                ctx.notes.append('first %s: %s' % (key, str(r.get('msg'))[:160]))
            continue
        o = r['ok']
        if o['bipartite'] != bip and algo != 'kcenters':
            ctx.violation(SITE[algo], 'estimator.bipartite differs from the documented treatment of the input', case=args, observed=o['bipartite'],
                          expected=bip, algo=algo, check='bipartite_flag')
            continue
        if oracle_fit(ctx, args, o, k2, nr, nc, t, bip) and algo != 'kcenters':
            items.append((dict(algo=algo, options=opts, m=args['m'], force_bipartite=fb, np_seed=args['np_seed']), o, nr, nc, t, bip))
        if len(ctx.samples) < 6 and rng.random() < 0.01:
            ctx.sample({'kind': 'fit', 'args': args, 'impl': {k: o[k] for k in ('labels', 'labels_row', 'labels_col', 'aggregate') if o.get(k)}})
    if errors:
        ctx.notes.append('fits that raised (outside "after fit"; not judged here): %s' % sorted(errors.items()))
    ctx.extra['fit_errors'] = errors
    for algo in ('louvain', 'leiden', 'propagation'):
        check_secondary(ctx, SITE[algo], [it for it in items if it[0]['algo'] == algo], 'fit' + algo, extra=dict(algo=algo))


# ------------------------------------------------------------------------------------------------
# part 6: same graph as bool / int / float matrix x return_probs x return_aggregate (all four combinations)
# ------------------------------------------------------------------------------------------------
def part_dtype(ctx, impl, rng, quick):
    graphs = []   # (kind, nr, nc, unit triples, force_bipartite)
    two_tri = gen.sym([(0, 1), (0, 2), (1, 2), (3, 4), (3, 5), (4, 5), (2, 3)])
    graphs.append(('undirected', 6, 6, [(i, j, 1) for (i, j) in two_tri], False))
    graphs.append(('undirected', 5, 5, [(i, j, 1) for (i, j) in gen.sym([(0, 1), (1, 2), (3, 3)])], False))   # isolated node, self-loop
    graphs.append(('directed', 5, 5, [(0, 1, 1), (1, 2, 1), (2, 0, 1), (2, 3, 1), (3, 4, 1), (4, 3, 1)], False))
    graphs.append(('bipartite', 3, 4, [(0, 0, 1), (0, 1, 1), (1, 1, 1), (1, 2, 1), (2, 2, 1), (2, 3, 1)], False))
    graphs.append(('bipartite', 3, 3, [(0, 0, 1), (0, 1, 1), (1, 1, 1), (2, 2, 1)], True))
    for _ in range(5 if quick else 60):
        kind, nr, nc, t, fam = random_case(rng, 10 if quick else 30)
        t = [(i, j, 1) for (i, j, _) in t]
        graphs.append((kind, nr, nc, t, kind == 'bipartite' and nr == nc))
    items = []
    errors = {}
    for (kind, nr, nc, t, fb) in graphs:
        for algo in ('louvain', 'leiden', 'propagation', 'kcenters'):
            if algo == 'propagation' and fb:
                continue
            bip = nr != nc or (fb and algo != 'propagation')
            k2 = 'bipartite' if bip else ('directed' if kind == 'bipartite' else kind)
            combos = [(None, None)] if algo == 'kcenters' else [(p, a) for p in (False, True) for a in (False, True)]
            if algo == 'kcenters' and (nr < 3 or (quick and len(items) % 3)):
                continue
            for (rp, ra) in combos:
                for dtype in ('bool', 'int', 'float'):
                    if algo == 'kcenters':
                        opts = dict(n_clusters=2, n_init=1, center_position='row')
                    else:
                        opts = dict(return_probs=rp, return_aggregate=ra, sort_clusters=True)
                    args = dict(algo=algo, m=mspec(nr, nc, t, dtype=dtype), options=opts, force_bipartite=fb, np_seed=rng.randint(0, 10 ** 6))
                    r = impl.call('c05', 'fit', args, timeout=120 if algo == 'kcenters' else 60)
                    ctx.traces += 1
                    ctx.count('dtype:%s:%s:%s' % (algo, k2, dtype), ('dtype', args), True)
                    if 'ok' not in r:
                        key = '%s:%s:%s' % (algo, dtype, r.get('err') or ('hang' if r.get('hang') else 'crash'))
                        errors[key] = errors.get(key, 0) + 1
                        continue
                    o = r['ok']
                    if oracle_fit(ctx, args, o, k2, nr, nc, t, bip, dtype=dtype) and algo != 'kcenters':
                        items.append((dict(algo=algo, options=opts, m=args['m'], force_bipartite=fb, np_seed=args['np_seed']), o, nr, nc, t, bip))
    if errors:
        ctx.notes.append('dtype part, fits that raised (not judged here): %s' % sorted(errors.items()))
    ctx.extra['fit_errors_dtype'] = errors
    for algo in ('louvain', 'leiden', 'propagation'):
        for dtype in ('bool', 'int', 'float'):
            check_secondary(ctx, SITE[algo], [it for it in items if it[0]['algo'] == algo and it[0]['m']['dtype'] == dtype],
                            'dt' + algo + dtype, extra=dict(algo=algo, dtype=dtype))
    ctx.sample({'kind': 'dtype_cross', 'graphs': len(graphs), 'fits_judged': len(items)})


def run(ctx, scratch):
    rng = ctx.rng
    quick = ctx.tier == 'quick'
    with Impl(scratch) as impl:
        part_standalone(ctx, impl, rng, quick)
        part_post(ctx, impl, rng, quick)
        part_levels(ctx, impl, rng, quick)
        part_propagation(ctx, impl, rng, quick)
        part_kcinit(ctx, impl, rng, quick)
        part_fit(ctx, impl, rng, quick)
        part_dtype(ctx, impl, rng, quick)
    summary = {}
    for v in ctx.violations + [h[1] for h in ctx.known_hits]:
        key = '%s/%s' % (v.get('site'), v.get('check'))
        summary[key] = summary.get(key, 0) + 1
    ctx.extra['violation_summary'] = summary
    ctx.rule = ('standalone reindex_labels / np.unique(return_inverse) / get_membership on label vectors with size ties, gaps and '
                'negatives; Louvain._post_processing on prescribed memberships x shuffle index x flags; Louvain/Leiden.fit with the '
                'optimiser replaced by prescribed per-level answers; PropagationClustering.fit with a prescribed raw labelling; KCenters._init_centers with recorded draws; Louvain, Leiden, '
                'PropagationClustering, KCenters on all undirected graphs with <= 4 nodes and all 2x2/2x3/3x2 biadjacency matrices '
                '(default options) and on 13 random graph families (undirected, directed, bipartite; disconnected, isolated nodes, '
                'self-loops; integer and dyadic weights; bool/int/float dtype) x random points of the option space; fixed and random '
                'unit-weight graphs as bool, int and float matrices x return_probs x return_aggregate (all four combinations). Model evaluated by vm_compute inside '
                'Coq from the implementation\'s raw ingredients; distinct by hash of (entry point, arguments); non-trivial = at '
                'least two clusters / one proper edge')
    ctx.assumptions = ['non-negative edge weights (probs_ rows are stated for non-negative weights), at least one edge',
                       'csr input (format independence is C01); KCenters max_iter >= 1',
                       'PropagationClustering n_iter >= 1 (n_iter = -1 may not terminate: C17/D15)',
                       'a fit that raises is outside "after fit" and is only counted (fit_errors in the evidence)',
                       'bipartite graphs: rows and columns share one label space; contiguity and size order are judged on the union',
                       'np.argsort, RandomState.permutation, np.random.choice, PageRank are oracles: answers recorded from the run, '
                       'contracts (sorting permutation / member of the array) checked on every recorded answer']

"""C04 — centrality scores equal their definitions, whatever the solver.

Three layers, all driven by ctx.rng:
  (S) property oracle on the implementation: every PageRank solver at a sufficient budget against an exact
      rational solve (Gaussian elimination over Fractions, independent of the Coq model); Katz, closeness,
      betweenness against brute force; HITS against a dense SVD;
  (V) a sample of implementation outputs, converted exactly to rationals, through the PROVED validator
      `residual_check` evaluated inside Coq (residual_check_sound);
  (X) correspondence: the Coq models (vm_compute) against the implementation at small budgets.
"""
import itertools
import math
from fractions import Fraction
F = Fraction

from .. import gen
from ..common import cnat, cq, cbool, clist, copt, safe_coq_eval
from ..impl import Impl

IMPORTS = ['Base.Util', 'Model.Bfs', 'Model.PageRank', 'Model.Centrality']
# Coq prints rationals whose denominator is a power of 10 / 16 in decimal / hexadecimal notation; results are
# therefore returned as (numerator, denominator) pairs of integers
PRELUDE = """
Definition qp (q : Q) : Z * Z := (Qnum q, Zpos (Qden q)).
Definition lq (l : list Q) : list (Z * Z) := map qp l.
Definition fit_out (r : result (option (list Q * list Q))) : result (option (list (Z * Z) * list (Z * Z))) :=
  match r with
  | Err e => Err e
  | Ok None => Ok None
  | Ok (Some (a, b)) => Ok (Some (lq a, lq b))
  end.
"""


def fr(l):
    """list of (numerator, denominator) pairs -> list of Fractions"""
    return [F(a, b) for (a, b) in l]
SOLVERS = ['piteration', 'diteration', 'RH', 'bicgstab', 'lanczos', 'push']
COQ_SOLVER = {'piteration': 'Piteration', 'diteration': 'Diteration', 'RH': 'RH', 'bicgstab': 'Bicgstab',
              'lanczos': 'Lanczos', 'push': 'Push'}
DAMPINGS = [F(0), F(3, 10), F(1, 2), F(85, 100), F(95, 100)]
# budgets at which every solver must have converged: alpha^n_iter < 1e-13 for alpha <= 0.95
BUDGET = {'piteration': dict(n_iter=3000, tol=1e-13), 'diteration': dict(n_iter=3000, tol=1e-9),
          'RH': dict(n_iter=600, tol=0.0), 'bicgstab': dict(n_iter=10, tol=1e-12),
          'lanczos': dict(n_iter=10, tol=1e-12), 'push': dict(n_iter=10, tol=1e-9)}
# comparison tolerances (DESIGN App. C): float64 paths 1e-9 (1e-8 for the series / Krylov solvers), float32 kernels 2e-4
TOL = {'piteration': 1e-9, 'RH': 1e-8, 'bicgstab': 1e-8, 'lanczos': 1e-8, 'diteration': 2e-4, 'push': 2e-4}
# eps (L1) handed to the proved validator
EPS = {'piteration': F(1, 10 ** 7), 'RH': F(1, 10 ** 7), 'bicgstab': F(1, 10 ** 7), 'lanczos': F(1, 10 ** 7),
       'diteration': F(1, 10 ** 3)}


# ------------------------------------------------------------------------------------------------------
# graphs: (n_row, n_col, entries) with entries a sorted list of (i, j, w), w a positive int
# ------------------------------------------------------------------------------------------------------
def rows_of(n_row, entries):
    rows = [[] for _ in range(n_row)]
    for (i, j, w) in sorted(entries):
        rows[i].append((j, w))
    return rows


def wg_lit(n_row, entries):
    return clist(rows_of(n_row, entries), lambda r: clist(r, lambda e: '(%d, %s)' % (e[0], cq(e[1]))))


def pat_lit(n_row, entries):
    return clist(rows_of(n_row, entries), lambda r: clist(r, lambda e: cnat(e[0])))


def mspec(n_row, n_col, entries, dtype='float'):
    return {'shape': [n_row, n_col], 'coo': [[i, j, float(w) if isinstance(w, Fraction) else w] for (i, j, w) in entries],
            'dtype': dtype, 'fmt': 'csr'}


TINY = Fraction(1, 2 ** 40)


def tiny_rows(rng, n_row, entries, symmetric):
    """The same graph in other units: the out-weights of some rows (of every row when the graph must stay symmetric) multiplied by
    2^-40.  The transition matrix D^-1 A of a directed graph does not change; a row of total weight 1e-12 is not a sink."""
    rows = set(range(n_row)) if symmetric else {i for i in range(n_row) if rng.random() < 0.5}
    return sorted((i, j, Fraction(w) * TINY if i in rows else w) for (i, j, w) in entries), rows


def block(n_row, n_col, entries):
    n = n_row + n_col
    E = [(i, n_row + j, w) for (i, j, w) in entries] + [(n_row + j, i, w) for (i, j, w) in entries]
    return n, sorted(E)


def weighted(rng, edges, directed, kind=None):
    kind = kind or rng.choice(['unit', 'int', 'int'])
    w = {}
    for (i, j) in edges:
        if not directed and (j, i) in w:
            w[(i, j)] = w[(j, i)]
        else:
            w[(i, j)] = 1 if kind == 'unit' else rng.randint(1, 5)
    return sorted((i, j, w[(i, j)]) for (i, j) in edges), kind


def remove_sinks(rng, n, entries):
    has = {i for (i, _, _) in entries}
    E = list(entries)
    for i in range(n):
        if i not in has and n > 1:
            j = rng.choice([k for k in range(n) if k != i])
            E.append((i, j, rng.randint(1, 3)))
    return sorted(E)


def has_sink(n, entries):
    return len({i for (i, _, _) in entries}) < n


def is_sym(entries):
    d = {(i, j): w for (i, j, w) in entries}
    return all(d.get((j, i)) == w for (i, j), w in d.items())


def components(n, entries):
    parent = list(range(n))

    def find(x):
        while parent[x] != x:
            parent[x] = parent[parent[x]]
            x = parent[x]
        return x
    for (i, j, _) in entries:
        parent[find(i)] = find(j)
    return len({find(x) for x in range(n)})


def bfs_dist(n, adj, s):
    d = [-1] * n
    d[s] = 0
    cur = [s]
    while cur:
        nxt = []
        for u in cur:
            for v in adj[u]:
                if d[v] < 0:
                    d[v] = d[u] + 1
                    nxt.append(v)
        cur = nxt
    return d


def strongly_connected(n, entries):
    adj = [[] for _ in range(n)]
    for (i, j, _) in entries:
        adj[i].append(j)
    return all(min(bfs_dist(n, adj, s)) >= 0 for s in range(n))


# ------------------------------------------------------------------------------------------------------
# exact oracles (independent of the Coq model)
# ------------------------------------------------------------------------------------------------------
def exact_pagerank(n, entries, alpha, y):
    """Probability vector proportional to the solution of (I - alpha P^T) x = (1 - alpha) y over the rationals."""
    out = [F(0)] * n
    for (i, j, w) in entries:
        out[i] += w
    M = [[F(0)] * (n + 1) for _ in range(n)]
    for i in range(n):
        M[i][i] = F(1)
        M[i][n] = (1 - alpha) * y[i]
    for (i, j, w) in entries:
        M[j][i] -= alpha * F(w) / out[i]
    for c in range(n):
        p = next(r for r in range(c, n) if M[r][c] != 0)
        M[c], M[p] = M[p], M[c]
        pv = M[c][c]
        M[c] = [v / pv for v in M[c]]
        for r in range(n):
            if r != c and M[r][c] != 0:
                f = M[r][c]
                M[r] = [a - f * b for a, b in zip(M[r], M[c])]
    x = [M[i][n] for i in range(n)]
    s = sum(x)
    return [v / s for v in x]


def exact_katz(n, entries, alpha, K):
    """sum_{k=1..K} alpha^k ((A^T)^k 1) on the 0/1 pattern: number of walks of k edges ending in each node."""
    pred = [[] for _ in range(n)]
    for (i, j, _) in entries:
        pred[j].append(i)
    walks = [F(1)] * n
    tot = [F(0)] * n
    for k in range(1, K + 1):
        walks = [sum((walks[i] for i in pred[j]), F(0)) for j in range(n)]
        tot = [t + alpha ** k * wk for t, wk in zip(tot, walks)]
    return tot


def exact_closeness(n, entries):
    adj = [[] for _ in range(n)]
    for (i, j, _) in entries:
        adj[i].append(j)
    out = []
    for s in range(n):
        d = bfs_dist(n, adj, s)
        out.append(F(0) if min(d) < 0 else F(n - 1, sum(d)))
    return out


def brute_betweenness(n, entries):
    """Explicit enumeration of every shortest path between every ordered pair; halved for an undirected graph."""
    adj = [[] for _ in range(n)]
    for (i, j, _) in entries:
        if j not in adj[i]:
            adj[i].append(j)
    score = [F(0)] * n
    for s in range(n):
        dist = bfs_dist(n, adj, s)
        paths = {t: [] for t in range(n)}

        def extend(path):
            u = path[-1]
            paths[u].append(list(path))
            for v in adj[u]:
                if dist[v] == dist[u] + 1:
                    path.append(v)
                    extend(path)
                    path.pop()
        extend([s])
        for t in range(n):
            if t == s or not paths[t]:
                continue
            tot = len(paths[t])
            for v in range(n):
                if v != s and v != t:
                    score[v] += F(sum(1 for p in paths[t] if v in p), tot)
    if is_sym(entries):
        score = [x / 2 for x in score]
    return score


# ------------------------------------------------------------------------------------------------------
# restart distributions: implementation argument, Coq literal, exact probability vector
# ------------------------------------------------------------------------------------------------------
def rand_weights(rng, n):
    kind = rng.choice(['spread', 'single', 'few'])
    if kind == 'single':
        w = [0] * n
        w[rng.randrange(n)] = rng.randint(1, 3)
    elif kind == 'few':
        w = [0] * n
        for k in rng.sample(range(n), min(n, rng.randint(1, 3))):
            w[k] = rng.randint(1, 3)
    else:
        w = [rng.randint(0, 3) for _ in range(n)]
        if sum(w) == 0:
            w[rng.randrange(n)] = 1
    # restart weights need not be integers nor sum to at least 1: the same weights in smaller units (dyadic: exact in floating point)
    if rng.random() < 0.3:
        u = F(1, rng.choice([4, 8, 16, 64, 1024]))
        w = [x * u for x in w]
    return w


def _fl(v):
    return float(v) if isinstance(v, Fraction) else v


def seed_form(rng, w, form):
    """form in array | dict. Returns (implementation argument, Coq literal of `option seedsrc`)."""
    if form == 'array':
        return {'array': [_fl(v) for v in w]}, '(Some (SArray %s))' % clist(w, cq)
    items = [(k, v) for k, v in enumerate(w) if v > 0 or rng.random() < 0.2]
    rng.shuffle(items)
    return {'dict': [[k, _fl(v)] for k, v in items]}, '(Some (SDict %s))' % clist(items, lambda e: '(%d, %s)' % (e[0], cq(e[1])))


def make_restart(rng, n_row, n_col, bipartite, form):
    """Returns (impl kwargs, coq (values, values_row, values_col), exact y over the adjacency's nodes)."""
    none = 'None'
    if not bipartite:
        if form == 'none':
            return {}, (none, none, none), [F(1, n_row)] * n_row
        w = rand_weights(rng, n_row)
        arg, lit = seed_form(rng, w, form)
        return {'weights': arg}, (lit, none, none), [F(x, sum(w)) for x in w]
    n = n_row + n_col
    if form == 'none':
        return {}, (none, none, none), [F(1, n_row)] * n_row + [F(0)] * n_col
    if form in ('array', 'dict'):           # `weights` on a bipartite graph: rows only
        w = rand_weights(rng, n_row)
        arg, lit = seed_form(rng, w, form)
        return {'weights': arg}, (lit, none, none), [F(x, sum(w)) for x in w] + [F(0)] * n_col
    which = rng.choice(['both', 'both', 'row', 'col'])
    kw, lits, w = {}, [none, none, none], [0] * n
    if which in ('both', 'row'):
        wr = rand_weights(rng, n_row)
        arg, lit = seed_form(rng, wr, rng.choice(['array', 'dict']))
        kw['weights_row'], lits[1] = arg, lit
        w[:n_row] = wr
    if which in ('both', 'col'):
        wc = rand_weights(rng, n_col)
        arg, lit = seed_form(rng, wc, rng.choice(['array', 'dict']))
        kw['weights_col'], lits[2] = arg, lit
        w[n_row:] = wc
    return kw, tuple(lits), [F(x, sum(w)) for x in w]


def close(obs, exp, tol):
    return len(obs) == len(exp) and all(
        isinstance(o, (int, float)) and o == o and abs(o - float(e)) <= tol * max(1.0, abs(float(e))) for o, e in zip(obs, exp))


def conv_fit(v):
    """Coq value of pagerank_fit -> ('err', kind) | ('none',) | ('ok', row, col)."""
    if v[0] == 'Err':
        return ('err', v[1][0])
    if v[1] is None:
        return ('none',)
    row, col = v[1][1]
    return ('ok', fr(row), fr(col))


# ------------------------------------------------------------------------------------------------------
def gen_pagerank_graph(rng, nmax, kind):
    """kind: directed | undirected | bipartite. Returns (n_row, n_col, entries, family)."""
    if kind == 'bipartite':
        r, c, E = gen.random_biadj(rng, max(2, nmax // 2), max(2, nmax // 2))
        if not E:
            E = [(0, 0)]
        ent, wk = weighted(rng, E, True)
        return r, c, ent, 'bip_' + wk
    n, E, fam = gen.random_graph(rng, nmax, directed=(kind == 'directed'), nmin=2, allow_loops=True)
    if not E:
        E = [(0, 1)] if kind == 'directed' else [(0, 1), (1, 0)]
    ent, wk = weighted(rng, E, kind == 'directed')
    return n, n, ent, fam + '_' + wk


def _source_rso(ctx, rng, quick, im):
    """The term regenerated from ppr_solver.py (Gen/NpRso.v; theorem source_rso_mass_and_fixed_point of Props/C04.v), evaluated
    inside Coq over exact rationals with the array semantics of Model/NpVec.v, must reproduce RandomSurferOperator.dot."""
    from fractions import Fraction
    from ..common import clist, cq
    cases, exprs = [], []
    for k in range(40 if quick else 300):
        n, E, fam = gen.random_graph(rng, 7, directed=rng.random() < 0.7)
        W = {}
        for (i, j) in E:
            W[(i, j)] = rng.choice([1, 1, 2, 3, Fraction(1, 2)])
        dense = [[Fraction(W.get((i, j), 0)) for j in range(n)] for i in range(n)]
        raw = [rng.randint(0, 3) for _ in range(n)]
        if not any(raw):
            raw[rng.randrange(n)] = 1
        seeds = [Fraction(v, sum(raw)) for v in raw]
        x = [Fraction(rng.randint(-4, 8), 4) for _ in range(n)]
        damping = rng.choice([Fraction(85, 100), Fraction(1, 2), Fraction(1, 4), Fraction(0), Fraction(1)])
        args = dict(m=dict(shape=[n, n], coo=[[i, j, float(w)] for (i, j), w in sorted(W.items())], dtype='float', fmt='csr'),
                    seeds=[float(v) for v in seeds], x=[float(v) for v in x], damping=float(damping))
        r = im.call('c04', 'rso_matvec', args, timeout=30)
        ctx.traces += 1
        if 'ok' not in r:
            continue
        cases.append((args, r['ok'], fam))
        exprs.append('map qz3 (qvresult (qvdenote (qenv_rso %s %d %s %s %s) src_rso_matvec))' % (
            clist(dense, lambda row: clist(row, cq)), n, clist([Fraction(v) for v in args['seeds']], cq), clist(x, cq), cq(Fraction(args['damping']))))
    vals = safe_coq_eval(ctx, 'c04src', ['Base.Util', 'Model.NpExpr', 'Model.NpVec', 'Gen.NpRso'], exprs,
                         prelude='Definition qz3 (q : Q) : Z * Z := (Qnum q, Zpos (Qden q)).\n', shard=60) if exprs else []
    n_src = 0
    for (args, got, fam), v in zip(cases, vals or []):
        n_src += 1
        ctx.count('source_term:RandomSurferOperator', ('src', args), True)
        exp = [float(Fraction(a, b)) for (a, b) in v]
        if len(exp) != len(got) or any(abs(a - b) > 1e-9 * max(1.0, abs(a)) for a, b in zip(exp, got)):
            ctx.violation('RandomSurferOperator', 'the term regenerated from ppr_solver.py (src_rso_matvec), evaluated with the array '
                          'semantics of Model/NpVec.v, differs from RandomSurferOperator.dot', case=args, expected=exp, observed=got,
                          kind='source_term', family=fam)
    ctx.extra['source_terms_evaluated'] = n_src


def run(ctx, scratch):
    rng = ctx.rng
    quick = ctx.tier == 'quick'
    nmax = 10 if quick else 25
    threads_set = [1, 4] if quick else [1, 2, 4, 16]
    impls = {}

    def impl(k=1):
        if k not in impls:
            impls[k] = Impl(scratch, threads=k)
        return impls[k]

    try:
        _run(ctx, rng, quick, nmax, threads_set, impl)
        _source_rso(ctx, rng, quick, impl(1))
    finally:
        for im in impls.values():
            im.close()
    ctx.rule = ('PageRank: exhaustive loop-free digraphs on 3 nodes + structured random graphs (gen.py families; directed / '
                'undirected / bipartite; unit and integer weights 1..5; with and without sinks), damping in '
                '{0,0.3,0.5,0.85,0.95}, restart as array / dict / None / weights_row+weights_col, six solvers at budgets '
                'where alpha^n_iter < 1e-13, thread counts for diteration and push; oracle = exact rational Gaussian '
                'elimination (Python Fractions); a sample of outputs through the proved Coq validator residual_check; '
                'correspondence of the Coq models at small budgets (n<=6); Katz / closeness / betweenness vs Coq model '
                'and brute force; HITS vs dense SVD. distinct = hash of (entry point, arguments); non-trivial = at least '
                'one edge and (PageRank) a damping factor > 0 or a non-uniform restart')
    ctx.assumptions = ['weights are positive (integers 1..5), restart weights non-negative with a positive sum',
                       'matrices have no explicitly stored zeros; CSR rows sorted by column',
                       'float outputs are compared with exact rationals at 1e-9 / 1e-8 (float64) and 2e-4 (float32 kernels)',
                       'lanczos needs n >= 3 (ARPACK k < n - 1): smaller graphs are skipped for that solver',
                       'closeness / betweenness: weakly connected graphs (the entry points reject others); '
                       'the closeness definition is compared on strongly connected graphs',
                       'HITS: skipped when the two largest singular values are within 1e-6 relative']


def _run(ctx, rng, quick, nmax, threads_set, impl):
    # ==================================================================================================
    # (S) PageRank: every solver at a sufficient budget vs the exact solve
    # ==================================================================================================
    base = []   # (family, n_row, n_col, entries, bipartite)
    pairs3 = [(i, j) for i in range(3) for j in range(3) if i != j]
    masks = list(range(1, 1 << len(pairs3)))
    for mask in (rng.sample(masks, 40) if quick else masks):
        E = [pairs3[k] for k in range(len(pairs3)) if mask >> k & 1]
        ent, wk = weighted(rng, E, True)
        base.append(('exh3_' + wk, 3, 3, ent, False))
    for _ in range(200 if quick else 900):
        kind = rng.choice(['directed', 'directed', 'undirected', 'bipartite'])
        r, c, ent, fam = gen_pagerank_graph(rng, nmax, kind)
        bip = kind == 'bipartite' or r != c
        if not bip and rng.random() < 0.35:
            ent = remove_sinks(rng, r, ent)
            fam += '_nosink'
        base.append((kind + ':' + fam, r, c, ent, bip))
    validator_pool = []
    n_sinks = n_nosinks = 0
    for gi, (fam, r, c, ent, bip) in enumerate(base):
        n, adj = (block(r, c, ent) if bip else (r, ent))
        if has_sink(n, adj):
            n_sinks += 1
        else:
            n_nosinks += 1
        alpha = DAMPINGS[gi % len(DAMPINGS)] if gi < 2 * len(DAMPINGS) else rng.choice(DAMPINGS)
        form = rng.choice(['array', 'dict', 'none'] + (['rowcol', 'rowcol'] if bip else []))
        kw, lits, y = make_restart(rng, r, c, bip, form)
        force_bip = bip and r == c
        dtype = 'int' if rng.random() < 0.25 else 'float'
        if dtype == 'float' and gi % 5 == 2:
            ent, scaled = tiny_rows(rng, r, ent, symmetric=(not bip and is_sym(ent)))
            if scaled:
                fam += '_tinyrows'
                n, adj = (block(r, c, ent) if bip else (r, ent))
        truth = exact_pagerank(n, adj, alpha, y)
        before = rng.sample(['Katz', 'HITS', 'Closeness', 'Betweenness', 'PageRank'], rng.randint(1, 2)) if gi % 4 == 1 else None
        for solver in SOLVERS:
            if solver == 'lanczos' and n < 3:
                continue
            tlist = [1]
            if solver in ('diteration', 'push') and gi % 3 == 0:
                tlist = threads_set
            for k in tlist:
                reps = 3 if (k > 1 and solver == 'diteration') else 1
                if solver == 'push' and k >= 16 and gi % 12 != 0:
                    continue   # 16 oversubscribed threads cost 0.1 s per call
                for rep in range(reps):
                    args = dict(m=mspec(r, c, ent, dtype), solver=solver, damping=float(alpha), force_bipartite=force_bip,
                                **BUDGET[solver], **kw)
                    if before:
                        args['before'] = before
                    args['via'] = ['ctor', 'ctor', 'set_params', 'attr'][(gi + rep) % 4]
                    res = impl(k).call('c04', 'pagerank', args, timeout=30)
                    ctx.traces += 1
                    nontrivial = alpha > 0 or form != 'none'
                    ctx.count('pagerank:%s:%s' % (solver, 'bip' if bip else ('sink' if has_sink(n, adj) else 'nosink')),
                              ('pr', args, k, rep), nontrivial)
                    obs = (res['ok']['row'] + res['ok']['col']) if 'ok' in res else None
                    good = obs is not None and close(obs, truth, TOL[solver])
                    if not good:
                        ctx.violation('get_pagerank',
                                      'PageRank(solver=%r) differs from the probability vector proportional to the solution of '
                                      'x = a P^T x + (1-a) y at a sufficient budget' % solver,
                                      case=dict(args=args, threads=k, family=fam), solver=solver, threads=k,
                                      expected=[float(v) for v in truth], observed=obs if obs is not None else res,
                                      kind='result' if obs is not None else 'no_result', has_sink=has_sink(n, adj),
                                      restart_form=form, bipartite=bip)
                    elif solver != 'push' and k == 1 and rep == 0:
                        validator_pool.append((solver, n, adj, alpha, y, obs))
                    if gi % 40 == 0 and solver == 'piteration':
                        ctx.sample(dict(kind='pagerank', family=fam, args=args, expected=[float(v) for v in truth], observed=obs))
    ctx.extra['pagerank_graphs'] = dict(with_sink=n_sinks, without_sink=n_nosinks)

    # ==================================================================================================
    # (V) proved validator on the implementation's concrete outputs (exact rationals of the floats)
    # ==================================================================================================
    rng.shuffle(validator_pool)
    pool = [p for p in validator_pool if p[1] <= (10 if quick else 16)][:150 if quick else 400]
    exprs = ['residual_check %s %s %s %s %s' % (wg_lit(n, adj), cq(alpha), clist(y, cq), clist([F(o) for o in obs], cq),
                                                cq(EPS[solver])) for (solver, n, adj, alpha, y, obs) in pool]
    # (the validator is evaluated inside Coq: model side, skipped when the model no longer evaluates)
    vals = safe_coq_eval(ctx, 'c04val', IMPORTS, exprs, shard=40) if exprs else None
    if vals is not None:
        for (solver, n, adj, alpha, y, obs), ok in zip(pool, vals):
            ctx.count('validator:' + solver, ('val', solver, n, adj, str(alpha), obs), True)
            if ok is not True:
                ctx.violation('get_pagerank', 'the proved validator residual_check rejects the output of solver %r '
                              '(eps = %s, L1)' % (solver, float(EPS[solver])),
                              case=dict(n=n, adjacency=adj, damping=str(alpha), seeds=[str(v) for v in y]),
                              solver=solver, kind='validator', observed=obs)
    ctx.extra['validator_checked'] = len(exprs)

    # ==================================================================================================
    # (X) correspondence: Coq models vs implementation at small budgets
    # ==================================================================================================
    xcases = []   # (label, args, exprs [1 or 3 perturbed], tol, solver)
    for _ in range(320 if quick else 1200):
        kind = rng.choice(['directed', 'directed', 'undirected', 'bipartite'])
        r, c, ent, fam = gen_pagerank_graph(rng, 6 if kind != 'bipartite' else 8, kind)
        ent = sorted((i, j, min(w, 3)) for (i, j, w) in ent)
        bip = kind == 'bipartite' or r != c
        n = r + c if bip else r
        if n > 7:
            continue
        alpha = rng.choice([F(1, 2), F(85, 100), F(3, 10), F(0), F(1, 4)])
        form = rng.choice(['array', 'dict', 'none'] + (['rowcol', 'rowcol'] if bip else []))
        kw, lits, y = make_restart(rng, r, c, bip, form)
        force_bip = bip and r == c
        solver = rng.choice(['piteration', 'piteration', 'RH', 'diteration', 'diteration', 'push'])
        if solver == 'piteration':
            n_iter, tol = rng.choice([1, 2, 3, 5]), rng.choice([0.0, 0.0, 0.05, 0.01])
        elif solver == 'RH':
            n_iter, tol = rng.choice([1, 2, 5]), 0.0
        elif solver == 'diteration':
            n_iter, tol = rng.choice([1, 2, 3]), rng.choice([0.0, 0.0, 0.3, 0.05])
        else:
            n_iter, tol = 1, rng.choice([1e-9, 1e-9, 0.05, 0.2])
        args = dict(m=mspec(r, c, ent), solver=solver, damping=float(alpha), n_iter=n_iter, tol=tol,
                    force_bipartite=force_bip, **kw)
        xcases.append((kind + ':' + fam, r, c, ent, bip, alpha, lits, args, solver, n_iter, F(tol).limit_denominator(10 ** 9)))
    # implementation first (push needs the recorded argsort answer)
    results = []
    for (fam, r, c, ent, bip, alpha, lits, args, solver, n_iter, tolq) in xcases:
        res = impl(1).call('c04', 'pagerank', args, timeout=20)
        ctx.traces += 1
        results.append(res)
    exprs, index = [], []
    for ci, ((fam, r, c, ent, bip, alpha, lits, args, solver, n_iter, tolq), res) in enumerate(zip(xcases, results)):
        order = res['ok']['order'] if ('ok' in res and res['ok'].get('order')) else []
        tols = [tolq] if tolq == 0 else [tolq * F(999, 1000), tolq, tolq * F(1001, 1000)]
        for t in tols:
            exprs.append('fit_out (pagerank_fit %d %s %s %s %s %s %s %d %s %s [] %s)' % (
                c, wg_lit(r, ent), cbool(args['force_bipartite']), lits[0], lits[1], lits[2], cq(alpha), n_iter, cq(t),
                COQ_SOLVER[solver], clist(order, cnat)))
            index.append(ci)
    vals = safe_coq_eval(ctx, 'c04x', IMPORTS, exprs, prelude=PRELUDE, shard=60) if exprs else []
    xdead = vals is None      # model dead: recorded in ctx.proof_broken; nothing to compare these small-budget runs with
    vals = vals or []
    by_case = {}
    for ci, v in zip(index, vals):
        by_case.setdefault(ci, []).append(conv_fit(v))
    for ci, ((fam, r, c, ent, bip, alpha, lits, args, solver, n_iter, tolq), res) in enumerate(zip(xcases, results)):
        ctx.count('model:pagerank:' + solver, ('x', args), True)
        if xdead:
            continue
        models = by_case[ci]
        if any(m != models[0] for m in models):
            # the tolerance test of the kernel is taken within 1e-3 of its threshold: a legitimate near-tie
            ctx.margin_dropped += 1
            continue
        model = models[0]
        ok = 'ok' in res and model[0] == 'ok' and close(res['ok']['row'], model[1], TOL[solver] if solver in ('diteration', 'push') else 1e-9) \
            and close(res['ok']['col'], model[2], TOL[solver] if solver in ('diteration', 'push') else 1e-9)
        if not ok:
            ctx.violation('model_pagerank', 'Coq model of get_pagerank(solver=%r) and the implementation disagree at a small budget' % solver,
                          case=dict(args=args, family=fam), model_solver=solver,
                          expected=[[float(x) for x in model[1]], [float(x) for x in model[2]]] if model[0] == 'ok' else list(model),
                          observed=res.get('ok', res))
        if ci % 30 == 0:
            ctx.sample(dict(kind='model_pagerank', solver=solver, args=args,
                            model=[float(x) for x in model[1]] if model[0] == 'ok' else list(model), impl=res.get('ok', res)))

    # ==================================================================================================
    # Katz: Coq model and brute force vs implementation
    # ==================================================================================================
    kcases = []
    for _ in range(200 if quick else 800):
        kind = rng.choice(['directed', 'undirected', 'bipartite'])
        r, c, ent, fam = gen_pagerank_graph(rng, 7 if quick else 9, kind)
        alpha = rng.choice([F(1, 2), F(1, 2), F(3, 10), F(1), F(2), F(1, 10)])
        K = rng.choice([0, 1, 2, 3, 4, 5])
        kcases.append((kind + ':' + fam, r, c, ent, alpha, K))
    exprs = []
    for (fam, r, c, ent, alpha, K) in kcases:
        g = wg_lit(r, ent) if r == c else '(block_undirected %d %s)' % (c, wg_lit(r, ent))
        exprs.append('lq (katz %s %s %d)' % (g, cq(alpha), K))
    kvals = safe_coq_eval(ctx, 'c04katz', IMPORTS, exprs, prelude=PRELUDE, shard=100)
    kvals = [fr(v) for v in kvals] if kvals is not None else [None] * len(kcases)     # None: model dead, brute force only
    for (fam, r, c, ent, alpha, K), model in zip(kcases, kvals):
        args = dict(m=mspec(r, c, ent, rng.choice(['float', 'int'])), damping=float(alpha), path_length=K,
                    via=rng.choice(['ctor', 'ctor', 'set_params', 'attr']))
        res = impl(1).call('c04', 'katz', args)
        ctx.traces += 1
        ctx.count('katz', ('katz', args), K > 0)
        n, adj = (r, ent) if r == c else block(r, c, ent)
        truth = exact_katz(n, adj, alpha, K)
        obs = (res['ok']['row'] + res['ok']['col']) if 'ok' in res else None
        if obs is None or not close(obs, truth, 1e-9):
            ctx.violation('Katz', 'Katz scores differ from sum_{k=1..K} alpha^k (A^T)^k 1 on the 0/1 pattern (brute force)',
                          case=dict(args=args, family=fam), expected=[float(v) for v in truth], observed=obs if obs is not None else res)
        if model is not None and list(model) != truth:
            ctx.violation('model_katz', 'Coq model of Katz differs from the brute-force definition',
                          case=dict(args=args), expected=[str(v) for v in truth], observed=[str(v) for v in model])

    # ==================================================================================================
    # Closeness and betweenness (connected graphs)
    # ==================================================================================================
    cb = []
    und5 = [E for E in gen.all_undirected(4)]
    for E in (rng.sample(und5, 20) if quick else und5):
        ent = sorted([(i, j, 1) for (i, j) in gen.sym(E)])
        if ent and components(4, ent) == 1:
            cb.append(('exh_und4', 4, ent))
    tries = 0
    want = 220 if quick else 900
    while len(cb) < want and tries < 20 * want:
        tries += 1
        directed = rng.random() < 0.5
        n, E, fam = gen.random_graph(rng, 7 if quick else 9, directed=directed, nmin=2, allow_loops=rng.random() < 0.2)
        if not E:
            continue
        if directed and rng.random() < 0.5:     # make it strongly connected more often: add a Hamiltonian cycle
            perm = list(range(n))
            rng.shuffle(perm)
            E = sorted(set(E) | {(a, b) for a, b in zip(perm, perm[1:] + perm[:1]) if a != b})
        ent, wk = weighted(rng, E, directed)
        if components(n, ent) != 1:
            continue
        cb.append((('dir:' if directed else 'und:') + fam + '_' + wk, n, ent))
    cexprs = ['lq (closeness_exact %s)' % pat_lit(n, ent) for (_, n, ent) in cb]
    bexprs = ['lq (betweenness %s)' % wg_lit(n, ent) for (_, n, ent) in cb]
    cvals = safe_coq_eval(ctx, 'c04clo', IMPORTS, cexprs, prelude=PRELUDE, shard=100)
    bvals = safe_coq_eval(ctx, 'c04btw', IMPORTS, bexprs, prelude=PRELUDE, shard=60)
    # None entries: model dead; the definitions evaluated in Python (exact_closeness, brute_betweenness) still judge the outputs
    cvals = [fr(v) for v in cvals] if cvals is not None else [None] * len(cb)
    bvals = [fr(v) for v in bvals] if bvals is not None else [None] * len(cb)
    approx = []
    for (fam, n, ent), cmodel, bmodel in zip(cb, cvals, bvals):
        m = mspec(n, n, ent, rng.choice(['float', 'int']))
        sym = is_sym(ent)
        # ---- closeness, exact
        res = impl(1).call('c04', 'closeness', dict(m=m, method='exact'))
        ctx.traces += 1
        ctx.count('closeness:' + ('und' if sym else 'dir'), ('clo', m), True)
        obs = res['ok']['scores'] if 'ok' in res else None
        truth = exact_closeness(n, ent)
        if cmodel is not None and list(cmodel) != truth:
            ctx.violation('model_closeness', 'Coq model of Closeness differs from (n-1)/sum of hop distances',
                          case=dict(m=m), expected=[str(v) for v in truth], observed=[str(v) for v in cmodel])
        if obs is None or (cmodel is not None and not close(obs, cmodel, 1e-9)):
            ctx.violation('Closeness', 'Closeness(method=exact) differs from the Coq model', case=dict(m=m, family=fam),
                          method='exact', expected=[float(v) for v in (cmodel if cmodel is not None else truth)],
                          observed=obs if obs is not None else res)
        elif strongly_connected(n, ent) and not close(obs, truth, 1e-9):
            ctx.violation('Closeness', 'Closeness(method=exact) differs from (n-1)/sum_j d(i,j)', case=dict(m=m, family=fam),
                          method='exact', expected=[float(v) for v in truth], observed=obs)
        # ---- closeness, approximate (sources replayed from the seeded global generator)
        if n >= 3:
            tol = rng.choice([0.1, 0.1, 0.5, 1.0])
            if min(int(math.log(n) / tol ** 2), n) >= 2:    # one source: its own estimate divides by a zero distance sum
                approx.append((fam, n, ent, m, sym, tol, rng.randrange(10 ** 6), truth))
        # ---- betweenness
        res = impl(1).call('c04', 'betweenness', dict(m=m))
        ctx.traces += 1
        ctx.count('betweenness:' + ('und' if sym else 'dir'), ('btw', m), n >= 3)
        obs = res['ok']['scores'] if 'ok' in res else None
        brute = brute_betweenness(n, ent)
        if bmodel is not None and list(bmodel) != brute:
            ctx.violation('model_betweenness', 'Coq model of Brandes differs from the brute-force enumeration of shortest paths',
                          case=dict(m=m), expected=[str(v) for v in brute], observed=[str(v) for v in bmodel])
        if obs is None or not close(obs, brute, 2e-4):
            ctx.violation('Betweenness', 'Betweenness differs from the textbook definition (ordered pairs for a directed graph, '
                          'unordered pairs for an undirected one) evaluated by enumeration of all shortest paths',
                          case=dict(m=m, family=fam), directed=not sym, expected=[float(v) for v in brute],
                          observed=obs if obs is not None else res)
    # approximate closeness: replay of the sample through the model; all sources sampled on an undirected graph = exact
    ares = []
    for (fam, n, ent, m, sym, tol, seed, truth) in approx:
        res = impl(1).call('c04', 'closeness', dict(m=m, method='approximate', tol=tol, np_seed=seed))
        ctx.traces += 1
        ares.append(res)
    aexprs, aidx = [], []
    for k, ((fam, n, ent, m, sym, tol, seed, truth), res) in enumerate(zip(approx, ares)):
        if 'ok' in res:
            aexprs.append('lq (closeness_approx %s %s)' % (pat_lit(n, ent), clist(res['ok']['sources'], cnat)))
            aidx.append(k)
    avals = safe_coq_eval(ctx, 'c04cla', IMPORTS, aexprs, prelude=PRELUDE, shard=100) if aexprs else []
    avals = dict(zip(aidx, [fr(v) for v in avals])) if avals is not None else {}      # {}: model dead
    for k, ((fam, n, ent, m, sym, tol, seed, truth), res) in enumerate(zip(approx, ares)):
        ctx.count('closeness_approx:' + ('und' if sym else 'dir'), ('cla', m, tol, seed), True)
        obs = res['ok']['scores'] if 'ok' in res else None
        bad = None
        if obs is None:
            bad = 'no result'
        elif len(obs) != n:
            bad = 'the score vector does not have one entry per node'
        elif k in avals and not close(obs, avals[k], 1e-9):
            bad = 'differs from the Coq model evaluated on the sources actually drawn'
        elif sym and len(res['ok']['sources']) == n and not close(obs, truth, 1e-9):
            bad = 'all nodes were sampled on an undirected graph but the scores differ from the exact closeness'
        if bad:
            ctx.violation('Closeness', 'Closeness(method=approximate): ' + bad, case=dict(m=m, tol=tol, np_seed=seed, family=fam),
                          method='approximate', expected=[float(v) for v in (avals.get(k) or truth)], observed=obs if obs is not None else res)

    # ==================================================================================================
    # HITS: wrapper model on the solver's raw vectors, and scores vs dense SVD
    # ==================================================================================================
    hcases = []
    for _ in range(160 if quick else 600):
        connected = rng.random() < 0.8
        if connected:
            r, c = rng.randint(2, 6 if quick else 9), rng.randint(2, 6 if quick else 9)
            E = {(i, j) for i in range(r) for j in range(c) if rng.random() < rng.choice([0.4, 0.7])}
            E |= {(i, rng.randrange(c)) for i in range(r)} | {(rng.randrange(r), j) for j in range(c)}
            ent = sorted((i, j, rng.randint(1, 5)) for (i, j) in E)
            if components(r + c, block(r, c, ent)[1]) != 1:
                continue
        else:
            r1, c1, k = rng.randint(2, 3), rng.randint(2, 3), rng.randint(2, 4)
            r, c = r1 + k, c1 + k
            ent = sorted([(i, j, rng.randint(1, 3)) for i in range(r1) for j in range(c1)] + [(r1 + t, c1 + t, 1) for t in range(k)])
        hcases.append((connected, r, c, ent))
    hres = []
    for (connected, r, c, ent) in hcases:
        res = impl(1).call('c04', 'hits', dict(m=mspec(r, c, ent)))
        ctx.traces += 1
        hres.append(res)
    hexprs, hidx = [], []
    for k, ((connected, r, c, ent), res) in enumerate(zip(hcases, hres)):
        if 'ok' in res and k % 2 == 0:
            hexprs.append('(fun p : list Q * list Q => (lq (fst p), lq (snd p))) (hits %s %s)' % (clist([F(x) for x in res['ok']['raw_u']], cq), clist([F(x) for x in res['ok']['raw_v']], cq)))
            hidx.append(k)
    hvals = safe_coq_eval(ctx, 'c04hits', IMPORTS, hexprs, prelude=PRELUDE, shard=100) if hexprs else []
    hvals = dict(zip(hidx, [(fr(a), fr(b)) for (a, b) in hvals])) if hvals is not None else {}      # {}: model dead
    for k, ((connected, r, c, ent), res) in enumerate(zip(hcases, hres)):
        m = mspec(r, c, ent)
        if 'ok' not in res:
            ctx.count('hits', ('hits', m), True)
            ctx.violation('HITS', 'HITS.fit failed', case=dict(m=m), connected=connected, kind='no_result', observed=res)
            continue
        o = res['ok']
        s = o['svd_s']
        if len(s) > 1 and s[1] >= s[0] * (1 - 1e-6):
            ctx.margin_dropped += 1
            continue
        ctx.count('hits:' + ('connected' if connected else 'components'), ('hits', m), True)
        if k in hvals:
            mu, mv_ = hvals[k]
            if not (close(o['row'], mu, 1e-12) and close(o['col'], mv_, 1e-12)):
                ctx.violation('model_hits', 'Coq model of the HITS wrapper differs from the implementation on the solver\'s raw vectors',
                              case=dict(m=m, raw_u=o['raw_u'], raw_v=o['raw_v']), expected=[[float(x) for x in mu], [float(x) for x in mv_]],
                              observed=[o['row'], o['col']])
        eu, ev = [abs(x) for x in o['svd_u']], [abs(x) for x in o['svd_v']]
        if not (close(o['row'], eu, 1e-7) and close(o['col'], ev, 1e-7)):
            ctx.violation('HITS', 'hub / authority scores differ from the principal singular vectors (dense SVD, non-negative orientation)',
                          case=dict(m=m), connected=connected, kind='sign_rule' if max(o['row']) < 1e-9 or max(o['col']) < 1e-9 else 'value',
                          expected=[eu, ev], observed=[o['row'], o['col']])
    # ---- the wrapper on injected singular vectors (custom SVDSolver): exact principal vectors with either global sign
    #      and round-off-sized noise of adversarial signs on the nodes outside the dominant component
    inj = []
    for (connected, r, c, ent) in hcases:
        if connected and rng.random() < 0.6:
            continue
        su, sv = rng.choice([1.0, -1.0]), rng.choice([1.0, -1.0])
        mode = rng.choice(['against', 'random', 'zero'])

        def noise(k, sgn):
            if mode == 'zero':
                return [0.0] * k
            if mode == 'against':
                return [-sgn * rng.choice([1e-17, 3e-18, 2e-19]) for _ in range(k)]
            return [rng.choice([1.0, -1.0]) * rng.choice([1e-17, 3e-18, 0.0]) for _ in range(k)]
        args = dict(m=mspec(r, c, ent), sign_u=su, sign_v=sv, noise_u=noise(r, su), noise_v=noise(c, sv))
        res = impl(1).call('c04', 'hits_injected', args)
        ctx.traces += 1
        inj.append((connected, args, res))
    iexprs, iidx = [], []
    for k, (connected, args, res) in enumerate(inj):
        if 'ok' in res:
            iexprs.append('(fun p : list Q * list Q => (lq (fst p), lq (snd p))) (hits %s %s)' % (
                clist([F(x) for x in res['ok']['raw_u']], cq), clist([F(x) for x in res['ok']['raw_v']], cq)))
            iidx.append(k)
    ivals = safe_coq_eval(ctx, 'c04hinj', IMPORTS, iexprs, prelude=PRELUDE, shard=100) if iexprs else []
    ivals = dict(zip(iidx, [(fr(a), fr(b)) for (a, b) in ivals])) if ivals is not None else {}      # {}: model dead
    for k, (connected, args, res) in enumerate(inj):
        if 'ok' not in res:
            ctx.count('hits_injected', ('hinj', args), True)
            ctx.violation('HITS', 'HITS.fit with a custom SVDSolver failed', case=args, connected=connected, kind='no_result', observed=res)
            continue
        o = res['ok']
        if len(o['svd_s']) > 1 and o['svd_s'][1] >= o['svd_s'][0] * (1 - 1e-6):
            ctx.margin_dropped += 1
            continue
        ctx.count('hits_injected:' + ('connected' if connected else 'components'), ('hinj', args), True)
        mu, mv_ = ivals.get(k, (None, None))
        if mu is not None and not (close(o['row'], mu, 1e-12) and close(o['col'], mv_, 1e-12)):
            ctx.violation('model_hits', 'Coq model of the HITS wrapper differs from the implementation on injected singular vectors',
                          case=args, expected=[[float(x) for x in mu], [float(x) for x in mv_]], observed=[o['row'], o['col']])
        if not (close(o['row'], o['svd_u'], 1e-9) and close(o['col'], o['svd_v'], 1e-9)):
            ctx.violation('HITS', 'hub / authority scores differ from the principal singular vectors handed back by the solver '
                          '(up to their global sign and round-off noise on the other components)',
                          case=args, connected=connected, kind='sign_rule', expected=[o['svd_u'], o['svd_v']], observed=[o['row'], o['col']])

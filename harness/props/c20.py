"""C20 — drawings are well-formed SVG showing every node and edge once.

Implementation strings (visualize_graph / visualize_bigraph / visualize_dendrogram and their svg_*
aliases, scratch build) are checked by
  (a) xml.etree.ElementTree (expat): parses, root tag svg;
  (b) the proved checker wf_check_root "svg" evaluated inside Coq on the same string (UTF-8 bytes);
  (c) element counts: one node shape per node, one <path stroke=..> per stored entry (directed: between
      distinct positions), three per dendrogram merge, one <text> per name;
  (d) every name is the text of exactly one <text> element (up to the site's replacement of & < >);
  (e) skeleton diff against the Coq model's document (element kinds, attribute names, text-anchor, texts), and the
      counting function of the theorem svg_counts_on_string evaluated in Coq on the implementation's string;
  (f) the file written with `filename` equals the returned string.
"""
import xml.etree.ElementTree as ET

from .. import gen
from ..common import cstr, cbool, clist, safe_coq_eval
from ..impl import Impl

GEN_FILES = ['Sanitise.v']

COQ_IMPORTS = ['Model.Xml', 'Model.Svg', 'Gen.Sanitise']
PRELUDE = '''From Coq Require Import String Ascii List.
Import ListNotations.
Open Scope string_scope.
Definition E (d : bool) : edge := {| e_x1 := "0"; e_y1 := "0"; e_x2 := "0"; e_y2 := "0"; e_width := "1"; e_color := "c"; e_distinct := d |}.
Definition W : wedge := {| w_x0 := "0"; w_y0 := "0"; w_large := "0"; w_x1 := "0"; w_y1 := "0"; w_color := "c" |}.
Definition ND : node := {| n_xi := "0"; n_yi := "0"; n_x := "0"; n_y := "0"; n_size := "1"; n_width := "1"; n_shape := Disk "c" |}.
Definition NP (z : bool) (k : nat) : node := {| n_xi := "0"; n_yi := "0"; n_x := "0"; n_y := "0"; n_size := "1"; n_width := "1"; n_shape := Pie z (repeat W k) |}.
Definition L (s : string) : label := {| t_x := "0"; t_y := "0"; t_name := s |}.
Definition M : merge := {| m_color := "c"; m_x1 := "0"; m_y1 := "0"; m_x2 := "0"; m_y2 := "0"; m_x := "0"; m_y := "0" |}.
'''

XML_SPECIAL = ['<', '>', '&', '"', "'"]
TRICKY = [']]>', '&amp;', '&lt;', '<b>', '</text>', '<!--', '-->', '&#60;', '<![CDATA[', '&;', '&&', '<<', '1<2', 'a<b',
          '</svg>', '<svg>', '"/>', "'/>", '&quot', 'x="y"', '<?xml?>', '>>', ']]', ']>']
NON_ASCII = ['é', '中', '\U0001F600', 'ß', 'Ω', ' ', ' ', 'ñ', '日本語',
             '\U0001F469‍\U0001F4BB', '́', '‮', '﻿', '«»']
PLAIN = ['a', 'node', 'x1', 'Paris', 'v 2', '0', 'A-B', 'n_3', 'q.e.d', '   ', 'tab\there', 'two\nlines']
COLORS = ['gray', 'black', 'red', 'blue', '#00ff00', 'rgb(10, 20, 30)', 'none', 'lightblue']


def rand_name(rng, kind):
    if kind == 'plain':
        return rng.choice(PLAIN)
    if kind == 'empty':
        return ''
    if kind == 'special':
        return ''.join(rng.choice(XML_SPECIAL + ['a', ' ']) for _ in range(rng.randint(1, 6)))
    if kind == 'tricky':
        return rng.choice(TRICKY) + rng.choice(['', 'z', ' ', rng.choice(TRICKY)])
    if kind == 'quotes':
        return rng.choice(['"', "'", '""', "''", 'say "hi"', "it's", '"\'"', '="', "='"]) + rng.choice(['', 'q'])
    if kind == 'nonascii':
        return ''.join(rng.choice(NON_ASCII + ['a']) for _ in range(rng.randint(1, 4)))
    if kind == 'long':
        unit = rng.choice(['abc ', '<&>', 'é中', 'x', '&amp;', ']]>'])
        return (unit * rng.randint(40, 120))[:rng.randint(100, 300)]
    if kind == 'int':
        return rng.randint(-5, 1000)
    # mixed
    return ''.join(rng.choice(XML_SPECIAL + TRICKY + NON_ASCII + PLAIN) for _ in range(rng.randint(1, 4)))


NAME_KINDS = ['plain', 'empty', 'special', 'special', 'tricky', 'tricky', 'quotes', 'nonascii', 'long', 'int', 'mixed', 'mixed']


def rand_names(rng, n, force=None):
    """n names; `force` puts one specific string somewhere."""
    style = rng.choice(['uniform', 'varied', 'varied', 'varied'])
    k0 = rng.choice(NAME_KINDS)
    names = [rand_name(rng, k0 if style == 'uniform' else rng.choice(NAME_KINDS)) for _ in range(n)]
    if force is not None and n > 0:
        names[rng.randrange(n)] = force
    return names


def wrap_names(rng, names):
    if names is None:
        return None
    if all(isinstance(x, str) for x in names) and rng.random() < 0.4:
        return {'array': names}
    if rng.random() < 0.2:
        return {'object': names}
    return {'list': names}


def name_classes(names):
    if names is None:
        return []
    s = ''.join(str(x) for x in names)
    out = [c for c in XML_SPECIAL if c in s]
    if any(ord(ch) > 127 for ch in s):
        out.append('non-ascii')
    if any(str(x) == '' for x in names):
        out.append('empty')
    if any(len(str(x)) >= 100 for x in names):
        out.append('long')
    return out


def canon_text(s):
    """Names and text contents are compared up to the replacement of & < > by a blank (what the label
    sites do); a site that escaped them as entities instead would also satisfy this comparison."""
    return ''.join(' ' if ch in '&<>' else ch for ch in s)


# ------------------------------------------------------------------------------------------------
# skeleton of a document, through ElementTree
# ------------------------------------------------------------------------------------------------
def skeleton(svg):
    root = ET.fromstring(svg)
    out = []

    def walk(e, depth):
        tag = e.tag.split('}')[-1]
        item = [depth, tag, list(e.attrib.keys())]
        if tag == 'text':
            item += [e.attrib.get('text-anchor'), e.text or '']
        out.append(item)
        for ch in e:
            walk(ch, depth + 1)

    walk(root, 0)
    return root.tag, out


def counts_of(skel):
    c = dict(edge=0, wedge=0, circle=0, text=0, defs=0, other=0)
    for depth, tag, attrs, *rest in skel:
        if depth == 0:
            continue
        if depth == 1 and tag == 'path' and 'stroke' in attrs:
            c['edge'] += 1
        elif depth == 1 and tag == 'path' and 'style' in attrs:
            c['wedge'] += 1
        elif depth == 1 and tag == 'circle':
            c['circle'] += 1
        elif depth == 1 and tag == 'text':
            c['text'] += 1
        elif depth == 1 and tag == 'defs':
            c['defs'] += 1
        elif depth > 1 and tag in ('marker', 'path'):
            pass
        else:
            c['other'] += 1
    return c


# ------------------------------------------------------------------------------------------------
# case generators: (entry, family, args, meta)
# ------------------------------------------------------------------------------------------------
GRID = [(x, y) for x in range(8) for y in range(8)]


def rand_positions(rng, n, coincide):
    if coincide:
        base = rng.sample(GRID, rng.randint(1, max(1, min(3, n))))
        pos = [list(rng.choice(base)) for _ in range(n)]
    else:
        pos = [list(p) for p in rng.sample(GRID, n)]
    if rng.random() < 0.3:
        pos = [[0.5 * x - 1, 0.25 * y + 3] for x, y in pos]
    return pos


def rand_vec(rng, vals, keys_ok=True):
    """A vector given as list / array / (partial) dict."""
    form = rng.choice(['list', 'array', 'dict'] if keys_ok else ['list', 'array'])
    if form == 'dict':
        n = len(vals)
        keys = sorted(rng.sample(range(n), rng.randint(1, n)))
        return {'dict': {str(k): vals[k] for k in keys}}, keys
    return {form: vals}, list(range(len(vals)))


def rand_probs(rng, n):
    k = rng.randint(1, 4)
    rows = []
    kinds = []
    for _ in range(n):
        t = rng.choice(['onehot', 'mixed', 'zero', 'mixed'])
        if t == 'onehot':
            r = [0.0] * k
            r[rng.randrange(k)] = rng.choice([1.0, 0.5])
        elif t == 'zero':
            r = [0.0] * k
        else:
            r = [rng.choice([0, 0, 1, 2, 3]) / 4.0 for _ in range(k)]
        nnz = sum(1 for v in r if v != 0)
        rows.append(r)
        kinds.append('disk' if nnz == 1 else ('zero' if nnz == 0 else 'pie'))
    if all(kd == 'zero' for kd in kinds):      # an all-zero matrix is rejected by check_format ("input matrix is empty")
        rows[0][0] = 1.0
        kinds[0] = 'disk'
    return {'rows': rows, 'fmt': rng.choice(['dense', 'csr'])}, k, kinds


def common_layout_opts(rng, o):
    if rng.random() < 0.4:
        w, h = rng.choice([(400, 300), (200, None), (None, 250), (120, 600), (33.5, 47.25)])
        o['width'] = w
        o['height'] = h
    if rng.random() < 0.3:
        o['margin'] = rng.choice([0, 5, 20, 50.5])
    if rng.random() < 0.3:
        o['margin_text'] = rng.choice([0, 3, 10, 2.5])
    if rng.random() < 0.3:
        o['scale'] = rng.choice([0.5, 1, 2, 3.25])
    if rng.random() < 0.3:
        o['font_size'] = rng.choice([8, 12, 20])
    if rng.random() < 0.4:
        o['node_size'] = rng.choice([1, 7, 12.5])
    if rng.random() < 0.2:
        o['node_size_min'] = rng.choice([1, 2])
        o['node_size_max'] = rng.choice([10, 20, 30])
    if rng.random() < 0.2:
        o['node_width'] = rng.choice([0.5, 1, 2])
        o['node_width_max'] = rng.choice([3, 5])
    if rng.random() < 0.3:
        o['edge_width'] = rng.choice([0.5, 1, 3])
    if rng.random() < 0.2:
        o['edge_width_min'] = rng.choice([0.5, 1])
        o['edge_width_max'] = rng.choice([5, 10, 20])
    if rng.random() < 0.5:
        o['display_edge_weight'] = rng.random() < 0.5


def graph_case(rng, nmax, family, force_name=None):
    """family: 'undirected' | 'directed' | 'coincide' | 'noposition' | 'nomatrix'."""
    directed_graph = family in ('directed', 'coincide') or (family == 'noposition' and rng.random() < 0.3)
    n, E, fam = gen.random_graph(rng, nmax, directed=directed_graph, nmin=1)
    if family == 'nomatrix':
        E = []
    if family == 'noposition' and not E:
        # the layout (Spring) rejects a matrix without stored entries ("The input matrix is empty."), like every
        # estimator of the library; an edgeless graph needs explicit positions
        n, E = max(n, 2), ([(0, 1)] if directed_graph else [(0, 1), (1, 0)])
    wE, wkind = gen.random_weights(rng, E, directed=directed_graph)
    dtype = 'bool' if wkind == 'unit' and rng.random() < 0.3 else ('int' if wkind in ('unit', 'small_int') else 'float')
    entries = sorted((i, j) for (i, j, w) in wE)            # CSR order of the stored entries
    wd = {(i, j): w for (i, j, w) in wE}
    symmetric = all(wd.get((j, i)) == w for (i, j), w in wd.items())
    o = {}
    common_layout_opts(rng, o)
    # directed flag
    if family in ('directed', 'coincide'):
        d = rng.choice([True] * 6 + [False, None])
        if d is not None:
            o['directed'] = d
        directed = (not symmetric) if d is None else d
    elif family == 'undirected':
        d = rng.choice([None, None, False])
        if d is not None:
            o['directed'] = d
        directed = False if d is False else (not symmetric)
    else:
        directed = not symmetric
    positions = None
    if family != 'noposition':
        positions = rand_positions(rng, n, coincide=(family == 'coincide'))
    names = rand_names(rng, n, force_name) if (rng.random() < 0.75 or force_name is not None) else None
    if names is not None:
        o['name_position'] = rng.choice(['right', 'left', 'above', 'below'])
    # node colours: at most one of labels / scores / probs
    shapes = ['disk'] * n
    k_probs = 0
    mode = rng.choice(['none', 'labels', 'scores', 'probs', 'probs'])
    if mode == 'labels':
        vals = [rng.randint(-1, 12) for _ in range(n)]
        o['labels'], _ = rand_vec(rng, vals)
    elif mode == 'scores':
        vals = [rng.choice([0, 1, 2.5, 7, -3, 100]) for _ in range(n)]
        if rng.random() < 0.2:
            vals = [1.0] * n
        o['scores'], _ = rand_vec(rng, vals)
    elif mode == 'probs':
        o['probs'], k_probs, shapes = rand_probs(rng, n)
    if rng.random() < 0.3:
        form = rng.choice(['list', 'array']) if mode == 'probs' else rng.choice(['list', 'array', 'dict'])
        cols = [rng.choice(COLORS) for _ in range(max(5, k_probs))]
        o['label_colors'] = {'dict': {str(i): c for i, c in enumerate(cols)}} if form == 'dict' else {form: cols}
    if rng.random() < 0.3:
        ks = rng.sample(range(n), rng.randint(0, n))
        o['seeds'] = rng.choice([{'list': ks}, {'dict': {str(k): rng.randint(0, 3) for k in ks}}])
    if rng.random() < 0.25:
        o['node_weights'] = [rng.choice([1, 2, 3, 0.5, 10]) for _ in range(n)]
        if rng.random() < 0.5:
            o['display_node_weight'] = True
    elif rng.random() < 0.2:
        o['display_node_weight'] = rng.random() < 0.7
    if rng.random() < 0.2:
        o['node_color'] = rng.choice(COLORS)
    order = list(range(n))
    if rng.random() < 0.25:
        rng.shuffle(order)
        o['node_order'] = order
    display_edges = True
    if rng.random() < 0.1:
        display_edges = False
        o['display_edges'] = False
    if rng.random() < 0.3:
        o['edge_color'] = rng.choice(COLORS)
    edge_colors = None
    if entries and rng.random() < 0.25 and dtype != 'bool':
        labelled = rng.sample(entries, rng.randint(1, len(entries)))
        o['edge_labels'] = label_list(rng, labelled)
        edge_colors = 'labelled'
    # edges given through edge_labels only (pairs that are NOT stored in the matrix, the usual way to draw a few edges over given
    # positions with adjacency=None): each listed pair is displayed as one more path
    residual = []
    if positions is not None and n >= 2 and dtype != 'bool' and rng.random() < (0.7 if family == 'nomatrix' else 0.15):
        stored = set(entries)
        cand = [(i, j) for i in range(n) for j in range(n) if i != j and (i, j) not in stored and (directed_graph or (j, i) not in stored)]
        rng.shuffle(cand)
        for (i, j) in cand[:rng.randint(1, 3)]:
            if (j, i) not in residual:
                residual.append((i, j))
        if residual:
            o['edge_labels'] = (o.get('edge_labels') or []) + [[i, j, rng.choice([0, 1, 3, 10])] for (i, j) in residual]
            edge_colors = 'labelled'
    args = dict(m=None if family == 'nomatrix' else dict(shape=[n, n], coo=[[i, j, w] for i, j, w in wE], dtype=dtype, fmt='csr'),
                position=positions, names=wrap_names(rng, names), opts=o, alias=rng.random() < 0.15,
                file=rng.random() < 0.3)
    if directed_graph and positions is not None and 'edge_labels' in o and rng.random() < 0.6:
        # the undirected version of the same graph drawn first with the same option objects (the labelled directed edges exist there too)
        sym = {}
        for i, j, w in wE:
            sym[(i, j)] = w
            sym.setdefault((j, i), w)
        args['prior'] = dict(m=dict(shape=[n, n], coo=[[i, j, w] for (i, j), w in sorted(sym.items())], dtype=dtype, fmt='csr'))
    if family == 'nomatrix':
        directed = False                      # the empty matrix is symmetric
        if 'directed' in o:
            directed = bool(o['directed'])
    meta = dict(kind='graph', n=n, entries=entries, directed=directed, display_edges=display_edges,
                positions=positions, names=names, name_position=o.get('name_position', 'right'),
                shapes=[shapes[i] for i in order], k_probs=k_probs, graph_family=fam, edge_colors=edge_colors,
                residual=residual if display_edges else [])
    return 'graph', family, args, meta


def bigraph_case(rng, nmax, family, force_name=None):
    """family: 'default' | 'positions'."""
    r, c, E = gen.random_biadj(rng, nmax, nmax)
    if not E:
        E = [(rng.randrange(r), rng.randrange(c))]
    wE = [(i, j, rng.choice([1, 1, 2, 3, 0.5])) for (i, j) in E]
    dtype = 'float' if any(w != int(w) for _, _, w in wE) else rng.choice(['int', 'float'])
    o = {}
    common_layout_opts(rng, o)
    if o.get('width', 1) is None and o.get('height', 1) is None:
        o['width'] = 400
    if family == 'positions':
        pts = rng.sample(GRID, r + c)
        o['position_row'] = [list(p) for p in pts[:r]]
        o['position_col'] = [list(p) for p in pts[r:]]
    elif rng.random() < 0.5:
        o['reorder'] = rng.random() < 0.5
    names_row = rand_names(rng, r, force_name) if (rng.random() < 0.7 or force_name is not None) else None
    names_col = rand_names(rng, c) if rng.random() < 0.7 else None
    shapes_row, shapes_col = ['disk'] * r, ['disk'] * c
    k_row = k_col = 0
    scores_partial = False
    mode = rng.choice(['none', 'labels', 'scores', 'probs', 'probs'])
    if mode == 'labels':
        if rng.random() < 0.8:
            o['labels_row'], _ = rand_vec(rng, [rng.randint(-1, 9) for _ in range(r)])
        if rng.random() < 0.8:
            o['labels_col'], _ = rand_vec(rng, [rng.randint(-1, 9) for _ in range(c)])
    elif mode == 'scores':
        both = rng.random() < 0.6
        kr = kc = None
        if both or rng.random() < 0.5:
            o['scores_row'], kr = rand_vec(rng, [rng.choice([0, 1, 2.5, 7, -3]) for _ in range(r)])
        if both or 'scores_row' not in o:
            o['scores_col'], kc = rand_vec(rng, [rng.choice([0, 1, 2.5, 7, -3]) for _ in range(c)])
        # both sides given, at least one as a dict that does not cover every node
        scores_partial = both and (('dict' in o['scores_row'] and len(kr) < r) or ('dict' in o['scores_col'] and len(kc) < c))
    elif mode == 'probs':
        if rng.random() < 0.8:
            o['probs_row'], k_row, shapes_row = rand_probs(rng, r)
        if rng.random() < 0.8:
            o['probs_col'], k_col, shapes_col = rand_probs(rng, c)
    if rng.random() < 0.3:
        form = rng.choice(['list', 'array']) if mode == 'probs' else rng.choice(['list', 'array', 'dict'])
        cols = [rng.choice(COLORS) for _ in range(max(5, k_row, k_col))]
        o['label_colors'] = {'dict': {str(i): col for i, col in enumerate(cols)}} if form == 'dict' else {form: cols}
    if rng.random() < 0.3:
        ks = rng.sample(range(r), rng.randint(0, r))
        o['seeds_row'] = rng.choice([{'list': ks}, {'dict': {str(k): 1 for k in ks}}])
    if rng.random() < 0.3:
        ks = rng.sample(range(c), rng.randint(0, c))
        o['seeds_col'] = rng.choice([{'list': ks}, {'dict': {str(k): 1 for k in ks}}])
    if rng.random() < 0.3:
        o['display_node_weight'] = True
        if rng.random() < 0.5:
            o['node_weights_row'] = [rng.choice([1, 2, 3, 0.5]) for _ in range(r)]
            o['node_weights_col'] = [rng.choice([1, 2, 3, 0.5]) for _ in range(c)]
    if rng.random() < 0.2:
        o['color_row'] = rng.choice(COLORS)
        o['color_col'] = rng.choice(COLORS)
    display_edges = True
    if rng.random() < 0.1:
        display_edges = False
        o['display_edges'] = False
    if rng.random() < 0.3:
        o['edge_color'] = rng.choice(COLORS)
    if rng.random() < 0.25:
        labelled = rng.sample(E, rng.randint(1, len(E)))
        o['edge_labels'] = label_list(rng, labelled)
    args = dict(m=dict(shape=[r, c], coo=[[i, j, w] for i, j, w in wE], dtype=dtype, fmt='csr'),
                names_row=wrap_names(rng, names_row), names_col=wrap_names(rng, names_col), opts=o,
                alias=rng.random() < 0.15, file=rng.random() < 0.3)
    meta = dict(kind='bigraph', r=r, c=c, entries=sorted(E), display_edges=display_edges,
                names_row=names_row, names_col=names_col, shapes_row=shapes_row, shapes_col=shapes_col,
                k_row=k_row, k_col=k_col, scores_both_partial_dict=scores_partial)
    return 'bigraph', family, args, meta


def rand_dendrogram(rng, n):
    """A valid dendrogram on n leaves: random merge order, non-decreasing positive heights, sizes."""
    alive = {i: 1 for i in range(n)}
    rows = []
    h = 0.0
    for t in range(n - 1):
        i, j = rng.sample(sorted(alive), 2)
        h += rng.choice([0, 0.5, 1, 1, 2.25])
        if t == n - 2 and h <= 0:
            h = 1.0
        s = alive.pop(i) + alive.pop(j)
        rows.append([i, j, h, s])
        alive[n + t] = s
    if rows[-1][2] <= 0:
        rows[-1][2] = 1.0
    return rows


def dendrogram_valid(rows):
    n = len(rows) + 1
    alive = set(range(n))
    prev = None
    for t, (i, j, h, s) in enumerate(rows):
        i, j = int(i), int(j)
        if i == j or i not in alive or j not in alive:
            return False
        if prev is not None and h < prev:
            return False
        if not (h == h and abs(h) != float('inf')):
            return False
        prev = h
        alive -= {i, j}
        alive.add(n + t)
    return prev is not None and prev > 0


def dendrogram_case(rng, nmax, family, force_name=None):
    """family: 'random' | 'paris'."""
    args = {}
    if family == 'paris':
        while True:
            n, E, fam = gen.random_graph(rng, nmax, directed=False, nmin=2, allow_loops=False,
                                         family=rng.choice(['tree', 'cycle', 'clique', 'path', 'star', 'grid', 'two_cliques']))
            if E:
                break
        wE, _ = gen.random_weights(rng, E, directed=False)
        args['paris'] = dict(shape=[n, n], coo=[[i, j, w] for i, j, w in wE], dtype='float', fmt='csr')
    else:
        n = rng.randint(2, nmax)
        args['dendrogram'] = rand_dendrogram(rng, n)
    o = {}
    if rng.random() < 0.5:
        o['rotate'] = rng.random() < 0.6
    if rng.random() < 0.4:
        o['rotate_names'] = rng.random() < 0.5
    if rng.random() < 0.4:
        o['reorder'] = rng.random() < 0.5
    if rng.random() < 0.4:
        o['width'], o['height'] = rng.choice([(400, 300), (200, 100), (33.5, 600)])
    if rng.random() < 0.3:
        o['margin'] = rng.choice([0, 10, 25.5])
    if rng.random() < 0.3:
        o['margin_text'] = rng.choice([0, 5, 12])
    if rng.random() < 0.3:
        o['scale'] = rng.choice([0.5, 1, 2, 3.25])
    if rng.random() < 0.3:
        o['line_width'] = rng.choice([1, 2, 0.5])
    if rng.random() < 0.5:
        o['n_clusters'] = rng.randint(2, n)
    if rng.random() < 0.2:
        o['color'] = rng.choice(COLORS)
    if rng.random() < 0.3:
        cols = [rng.choice(COLORS) for _ in range(rng.randint(1, 5))]
        o['colors'] = rng.choice([{'list': cols}, {'array': cols}, {'dict': {str(i): c for i, c in enumerate(cols)}}])
    if rng.random() < 0.3:
        o['font_size'] = rng.choice([8, 12, 20])
    names = rand_names(rng, n, force_name) if (rng.random() < 0.8 or force_name is not None) else None
    args.update(names=wrap_names(rng, names), opts=o, alias=rng.random() < 0.15, file=rng.random() < 0.3)
    meta = dict(kind='dendrogram', n=n, names=names, rotate=bool(o.get('rotate', False)),
                rotate_names=bool(o.get('rotate_names', True)))
    return 'dendrogram', family, args, meta


# ------------------------------------------------------------------------------------------------
# model expressions and expectations
# ------------------------------------------------------------------------------------------------
def labels_expr(names):
    if names is None:
        return 'None'
    return '(Some %s)' % clist(['(L %s)' % cstr(str(x)) for x in names])


def node_expr(shape, k):
    if shape == 'disk':
        return 'ND'
    if shape == 'zero':
        return '(NP true %d)' % k
    return '(NP false %d)' % k


def model_expr(meta):
    """Gallina expression of type string: the model's document for this case (numeric fields are placeholders)."""
    if meta['kind'] == 'graph':
        pos = meta['positions']
        edges = []
        for (i, j) in meta['entries']:
            distinct = True if pos is None else (pos[i] != pos[j])
            edges.append('(E %s)' % cbool(distinct))
        for (i, j) in (meta.get('residual') or []):          # edges listed in edge_labels only: drawn after the stored ones
            edges.append('(E %s)' % cbool(True if pos is None else (pos[i] != pos[j])))
        markers = []
        if meta['directed'] and meta['display_edges'] and meta['entries']:
            markers = ['"c"'] * meta['n_markers']
        return 'visualize_graph "0" "0" %s %s %s %s [] %s %s "12" %s' % (
            cbool(meta['display_edges']), cbool(meta['directed']), clist(markers), clist(edges),
            clist([node_expr(s, meta['k_probs']) for s in meta['shapes']]), labels_expr(meta['names']),
            cstr(meta['name_position']))
    if meta['kind'] == 'bigraph':
        edges = ['(E true)'] * len(meta['entries'])
        return 'visualize_bigraph "0" "0" %s %s [] %s %s %s %s "12"' % (
            cbool(meta['display_edges']), clist(edges),
            clist([node_expr(s, meta['k_row']) for s in meta['shapes_row']]),
            clist([node_expr(s, meta['k_col']) for s in meta['shapes_col']]),
            labels_expr(meta['names_row']), labels_expr(meta['names_col']))
    return 'visualize_dendrogram %s "0" "0" %s %s "12" "2" %s' % (
        cbool(meta['rotate']), labels_expr(meta['names']), cbool(meta['rotate_names']),
        clist(['M'] * (meta['n'] - 1)))


def expected_counts(meta):
    """(lower, upper) bounds per element kind demanded by the property; equal unless positions are unknown."""
    if meta['kind'] == 'graph':
        ent = meta['entries'] if meta['display_edges'] else []
        pos = meta['positions']
        if not meta['directed']:
            lo = hi = len(ent)                 # svg_edge always draws; the property asks for the distinct-position ones
            if pos is not None:
                lo = sum(1 for (i, j) in ent if pos[i] != pos[j])
        elif pos is None:
            lo, hi = 0, len(ent)
        else:
            lo = hi = sum(1 for (i, j) in ent if pos[i] != pos[j])
        res = [tuple(e) for e in meta.get('residual') or []]      # listed in edge_labels, not stored: one path each (positions are given)
        if res:
            extra = sum(1 for (i, j) in res if pos[i] != pos[j])
            lo, hi = lo + extra, hi + (len(res) if not meta['directed'] else extra)
        shapes = meta['shapes']
        k = meta['k_probs']
        names = meta['names']
    elif meta['kind'] == 'bigraph':
        lo = hi = len(meta['entries']) if meta['display_edges'] else 0
        shapes = None
        names = (meta['names_row'] or []) + (meta['names_col'] or [])
        circles = sum(1 for s in meta['shapes_row'] + meta['shapes_col'] if s != 'pie')
        wedges = meta['k_row'] * sum(1 for s in meta['shapes_row'] if s == 'pie') + \
            meta['k_col'] * sum(1 for s in meta['shapes_col'] if s == 'pie')
        return dict(edge=(lo, hi), circle=circles, wedge=wedges, text=len(names))
    else:
        return dict(edge=(3 * (meta['n'] - 1),) * 2, circle=0, wedge=0, text=len(meta['names'] or []))
    circles = sum(1 for s in shapes if s != 'pie')
    wedges = k * sum(1 for s in shapes if s == 'pie')
    return dict(edge=(lo, hi), circle=circles, wedge=wedges, text=len(names or []))


def all_names(meta):
    if meta['kind'] == 'bigraph':
        return (meta['names_row'] or []) + (meta['names_col'] or [])
    return meta['names'] or []



def label_list(rng, labelled):
    """edge_labels entries for the chosen stored entries: labels beyond the number of standard colours (10, 20: colour 0 again),
    and some entries listed several times (the last label of an entry is the one drawn, and the entry is drawn once)."""
    out = [[i, j, rng.choice([0, 0, 10, 20, rng.randint(0, 7), rng.randint(0, 27)])] for (i, j) in labelled]
    if rng.random() < 0.4:
        out += [[i, j, rng.choice([0, 3, 10, rng.randint(0, 27)])] for (i, j) in rng.sample(labelled, rng.randint(1, len(labelled)))]
    return out


def n_markers(meta, args, std_colors):
    """Size of set(edge_colors): number of distinct colours among the stored entries."""
    if not meta['entries']:
        return 0
    o = args['opts']
    if 'edge_labels' not in o:
        return 1
    default = o.get('edge_color') or ('black' if args.get('names') is None else 'gray')
    lc = o.get('label_colors')
    if lc is None:
        cols = std_colors
    elif 'dict' in lc:
        d = {int(k): v for k, v in lc['dict'].items()}
        cols = [d.get(i, 'black') for i in range(max(d) + 1)]
    else:
        cols = lc.get('list') or lc.get('array')
    lab = {}
    for i, j, l in o['edge_labels']:
        lab[(i, j)] = l          # a later label of the same entry wins, as in the code
    return len({cols[lab[e] % len(cols)] if e in lab else default for e in meta['entries']})


def norm_meta(meta):
    """Meta read back from a replay file: JSON turned the tuples into lists."""
    if meta and 'entries' in meta:
        meta['entries'] = [tuple(e) for e in meta['entries']]
    return meta


# ------------------------------------------------------------------------------------------------
def run(ctx, scratch):
    rng = ctx.rng
    quick = ctx.tier == 'quick'
    nmax = 12 if quick else 20
    cases = []
    if ctx.replay and ctx.replay.get('case') and ctx.replay.get('entry'):
        cases.append((ctx.replay['entry'], 'replay', ctx.replay['case'], norm_meta(ctx.replay.get('meta'))))
    else:
        # every XML-special / tricky string once as a forced name on each entry point
        forced = XML_SPECIAL + TRICKY + NON_ASCII[:4] + ['', 'x' * 300]
        for s in forced:
            cases.append(graph_case(rng, 5, rng.choice(['undirected', 'directed']), force_name=s))
            cases.append(bigraph_case(rng, 4, 'default', force_name=s))
            cases.append(dendrogram_case(rng, 5, 'random', force_name=s))
        reps = 1 if quick else 8
        for fam, k in (('undirected', 330), ('directed', 260), ('coincide', 160), ('noposition', 40), ('nomatrix', 25)):
            for _ in range(k * reps):
                cases.append(graph_case(rng, nmax, fam))
        for fam, k in (('default', 220), ('positions', 160)):
            for _ in range(k * reps):
                cases.append(bigraph_case(rng, 6 if quick else 10, fam))
        for fam, k in (('random', 420), ('paris', 90)):
            for _ in range(k * reps):
                cases.append(dendrogram_case(rng, nmax, fam))

    results = []       # (idx, svg, skeleton) for the cases that returned a parsable document
    n_file = 0
    with Impl(scratch, extra_env={'PYTHONUTF8': '1'}) as impl:
        info = impl.call('c20', 'info', {}, timeout=120)
        std_colors = info['ok']['standard_colors']
        for idx, (entry, fam, args, meta) in enumerate(cases):
            r = impl.call('c20', entry, args, timeout=60)
            ctx.traces += 1
            site = 'visualize_' + entry
            names = all_names(meta) if meta else []
            classes = name_classes(names)
            nontrivial = bool(meta) and bool(names) and (len(meta.get('entries', [1])) > 0)
            ctx.count(entry + ':' + fam, (entry, args), nontrivial)
            base = dict(entry=entry, family=fam, name_classes=classes, special_lt='<' in classes,
                        alias=bool(args.get('alias')),
                        scores_both_partial_dict=bool(meta and meta.get('scores_both_partial_dict')))
            if meta is None:
                continue
            if meta['kind'] == 'dendrogram' and 'ok' in r and args.get('paris') is not None and not r['ok'].get('valid', True):
                ctx.margin_dropped += 1
                continue
            if 'ok' not in r:
                if meta['kind'] == 'dendrogram' and args.get('paris') is not None:
                    ctx.margin_dropped += 1      # Paris output not validated here (C07); not a drawing defect
                    continue
                ctx.violation(site, 'no document returned (%s)' % (r.get('err') or ('hang' if r.get('hang') else 'crash')),
                              case=args, meta=meta, oracle='returns', observed={k: v for k, v in r.items() if k != 'tb'},
                              error=r.get('err'), **base)
                continue
            svg = r['ok']['svg']
            # (f) file content
            if args.get('file'):
                n_file += 1
                if r['ok'].get('file') != svg:
                    ctx.violation(site, 'file written with filename differs from the returned string', case=args, meta=meta,
                                  oracle='file', expected=svg[:300], observed=(r['ok'].get('file') or '')[:300],
                                  listing=r['ok'].get('listing'), **base)
            # (a) ElementTree
            try:
                tag, skel = skeleton(svg)
            except ET.ParseError as e:
                ctx.violation(site, 'returned string is not well-formed XML (ElementTree: %s)' % e, case=args, meta=meta,
                              oracle='well-formed', observed=svg[:600], names=[str(x) for x in names][:12], **base)
                results.append((idx, svg, None))
                continue
            if not tag.endswith('svg'):
                ctx.violation(site, 'root element is %s, not svg' % tag, case=args, meta=meta, oracle='root', **base)
            # (c) counts
            if meta['kind'] == 'graph':
                meta['n_markers'] = n_markers(meta, args, std_colors)
            exp = expected_counts(meta)
            got = counts_of(skel)
            lo, hi = exp['edge']
            bad = []
            if not (lo <= got['edge'] <= hi):
                bad.append('edge paths %d, expected %s' % (got['edge'], lo if lo == hi else '%d..%d' % (lo, hi)))
            if got['circle'] != exp['circle'] or got['wedge'] != exp['wedge']:
                bad.append('node shapes: %d circles + %d wedges, expected %d + %d' % (got['circle'], got['wedge'], exp['circle'], exp['wedge']))
            if got['text'] != exp['text']:
                bad.append('text elements %d, expected %d' % (got['text'], exp['text']))
            if got['other']:
                bad.append('%d unexpected element(s)' % got['other'])
            if bad:
                ctx.violation(site, 'element counts: ' + '; '.join(bad), case=args, meta=meta, oracle='counts',
                              expected=exp, observed=got, **base)
            # (d) names
            texts = sorted(canon_text(it[4]) for it in skel if it[1] == 'text')
            want = sorted(canon_text(str(x)) for x in names)
            if texts != want:
                ctx.violation(site, 'text elements do not carry the names', case=args, meta=meta, oracle='names',
                              expected=want[:20], observed=texts[:20], **base)
            results.append((idx, svg, skel))
            if idx % 250 == 0:
                ctx.sample(dict(entry=entry, family=fam, opts=args.get('opts'), names=[str(x)[:40] for x in names][:6],
                                counts=got, bytes=len(svg.encode('utf8'))))
    ctx.extra['files_compared'] = n_file

    # ---- (b) proved checker inside Coq on the implementation's strings, (e) skeleton diff with the model
    budget = 150 if quick else 1000
    pool = [t for t in results]
    forced_n = min(len(pool), 3 * 38)
    chosen = pool[:forced_n:2] if not ctx.replay else pool
    rest = pool[forced_n:]
    if rest and len(chosen) < budget:
        chosen += rng.sample(rest, min(len(rest), budget - len(chosen)))
    # Both are evaluated inside Coq (model side): when the checker / model no longer evaluates this is recorded in
    # ctx.proof_broken by safe_coq_eval and the corresponding comparisons are skipped; ElementTree, the element counts, the
    # names and the file comparison above have judged every document without it.
    both = models = None
    if chosen:
        both = safe_coq_eval(ctx, 'c20wf', COQ_IMPORTS,
                             ['let d := %s in (wf_check_root "svg" d, (count_starts P_text d, count_starts P_circle d, '
                              'count_starts P_edge d, count_starts P_wedge d))' % cstr(svg) for (_, svg, _) in chosen],
                             prelude=PRELUDE, shard=25)
    if both is not None:
        verdicts = [b[0] for b in both]
        string_counts = {i: b[1] for (i, _, _), b in zip(chosen, both)}
        with_model = [(i, svg, skel) for (i, svg, skel) in chosen if skel is not None]
        models = safe_coq_eval(ctx, 'c20model', COQ_IMPORTS, [model_expr(cases[i][3]) for (i, _, _) in with_model],
                               prelude=PRELUDE, shard=20)
        model_of = {i: m for (i, _, _), m in zip(with_model, models or [])}
        for (i, svg, skel), ok in zip(chosen, verdicts):
            entry, fam, args, meta = cases[i]
            site = 'visualize_' + entry
            base = dict(entry=entry, family=fam, name_classes=name_classes(all_names(meta)),
                        special_lt='<' in name_classes(all_names(meta)), alias=bool(args.get('alias')))
            ctx.count('coq:' + entry, ('coq', entry, args), True)
            if ok is not True and skel is not None:
                ctx.violation(site, 'ElementTree accepts the document but the proved checker wf_check_root rejects it',
                              case=args, meta=meta, oracle='wf_check', observed=svg[:600], **base)
            if ok is True and skel is None:
                ctx.violation(site, 'the proved checker accepts a document that ElementTree rejects (grammar too weak)',
                              case=args, meta=meta, oracle='wf_check_vs_etree', observed=svg[:600], **base)
            if skel is None:
                continue
            # the counting function of svg_counts_on_string, evaluated on the implementation's string
            got = counts_of(skel)
            sc = tuple(string_counts[i])
            if sc != (got['text'], got['circle'], got['edge'], got['wedge']):
                ctx.violation(site, 'count_starts on the string (text, circle, edge path, wedge) differs from the ElementTree counts',
                              case=args, meta=meta, oracle='string_counts', expected=[got['text'], got['circle'], got['edge'], got['wedge']],
                              observed=list(sc), **base)
            if models is None:
                continue
            try:
                mtag, mskel = skeleton(model_of[i])
            except ET.ParseError as e:
                ctx.violation(site, 'model document does not parse: %s' % e, case=args, meta=meta, oracle='model', **base)
                continue
            if mskel != skel:
                k = next((k for k, (a, b) in enumerate(zip(mskel, skel)) if a != b), min(len(mskel), len(skel)))
                ctx.violation(site, 'skeleton of the implementation document differs from the model (first difference at element %d)' % k,
                              case=args, meta=meta, oracle='skeleton', expected=mskel[max(0, k - 1):k + 3],
                              observed=skel[max(0, k - 1):k + 3], **base)
        ctx.extra['documents_checked_in_coq'] = len(chosen)
        ctx.extra['documents_accepted_by_wf_check'] = sum(1 for v in verdicts if v is True)

    ctx.rule = ('every XML-special / tricky / non-ASCII / empty / 300-char string forced once as a name on each entry point; then '
                'structured random graphs (13 families, n<=%d) x {undirected, directed with distinct positions, directed with '
                'coinciding positions, no position (Spring), no matrix}, biadjacency matrices (default layout / explicit '
                'positions), valid dendrograms (own merge orders; Paris of the implementation on connected graphs) x names '
                '(plain, special, tricky, quotes, non-ASCII, empty, long, int; list / str array / object array) x display options '
                '(labels|scores|probs as list/array/dict, seeds, node weights/sizes/order, edge labels/widths/colours, '
                'name_position, width/height/margin/scale, rotate/rotate_names/reorder/n_clusters, svg_* aliases, filename). '
                'Distinct by hash of (entry point, arguments); non-trivial = names given and at least one stored entry / merge. '
                'A sample of the documents (forced names first) is re-checked inside Coq by the proved checker and diffed against '
                'the model document.' % nmax)
    ctx.assumptions = [
        'control characters illegal in XML 1.0, lone surrogates and carriage returns in names are outside the quantifier',
        'numbers and colours formatted into attributes are free of < & " (safe fields); numeric formatting is observed, not modelled',
        'at most one of labels / scores / probs per drawing; label_colors has at least as many entries as probs has columns; '
        'edge labels only on stored entries; positive weights, no explicitly stored zeros; width and height not both None',
        'a graph without stored entries is drawn with explicit positions (the Spring layout rejects empty matrices); probs has at least one non-zero entry (check_format rejects empty matrices)',
        'n_clusters >= 2 for dendrograms (n_clusters = 1 raises IndexError in cut_straight: property C08, defect D6)',
        'dendrograms returned by Paris that are not valid (C07, D25) are dropped and counted in margin_dropped',
        'worker runs in Python UTF-8 mode: open(filename, "w") in the code uses the locale encoding',
        'strings are compared with the Coq model as UTF-8 byte sequences',
    ]

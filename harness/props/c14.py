"""C14 — heat diffusion: maximum principle, clamping, seed forms, harmonic limit.

Model (Coq, exact rationals, vm_compute) vs implementation (float64) for Diffusion and Dirichlet;
property oracles evaluated directly on the implementation's outputs."""
import itertools
from fractions import Fraction

from .. import gen
from ..common import cnat, cq, cbool, clist, copt, safe_coq_eval
from ..impl import Impl

IMPORTS = ['Base.Util', 'Model.Diffusion']
TOL = 1e-9
LIMIT_TOL = 1e-6
LIMIT_ITER = 4096
TEMPS = [0, 0, 0.5, 1, 1, 2, 2.5, 3, 7, 10]
DAMPINGS = [(0.0, Fraction(0)), (0.3, Fraction(3, 10)), (0.85, Fraction(17, 20)), (1.0, Fraction(1))]
N_ITERS = [1, 2, 3, 5, 10]
SCALES = [-40, -30, -20, 20, 40]      # every weight times 2**e: exact in float64, both algorithms are scale-invariant


# ------------------------------------------------------------------------------------------------
# Gallina literals
# ------------------------------------------------------------------------------------------------
def wmat_lit(nrow, ncol, triples):
    rows = [[] for _ in range(nrow)]
    for (i, j, w) in triples:
        rows[i].append('(%d, %s)' % (j, cq(Fraction(w))))
    return '{| w_ncol := %d; w_rows := %s |}' % (ncol, clist([clist(r) for r in rows]))


def rows_lit(n, triples):
    rows = [[] for _ in range(n)]
    for (i, j, w) in triples:
        rows[i].append('(%d, %s)' % (j, cq(Fraction(w))))
    return clist([clist(r) for r in rows])


def seeds_lit(s):
    if s is None:
        return 'None'
    if s['kind'] == 'dict':
        return '(Some (SDict %s))' % clist(['(%d, %s)' % (k, cq(Fraction(v))) for k, v in s['data']])
    ctor = {'array': 'SArray', 'list': 'SList'}[s['kind']]
    return '(Some (%s %s))' % (ctor, clist([cq(Fraction(x)) for x in s['data']]))


def qvec_lit(v):
    return clist([cq(Fraction(x)) for x in v])


# ------------------------------------------------------------------------------------------------
# Graph generators (integer weights 1..5)
# ------------------------------------------------------------------------------------------------
def weighted(rng, edges, directed, unit=False):
    w = {}
    for (i, j) in edges:
        if not directed and (j, i) in w:
            w[(i, j)] = w[(j, i)]
        else:
            w[(i, j)] = 1 if unit else rng.randint(1, 5)
    return [(i, j, w[(i, j)]) for (i, j) in sorted(edges)]


def patch_sinks(rng, n, edges, directed):
    """Give every node an outgoing edge (undirected: a neighbour)."""
    E = set(edges)
    out = {i for (i, _) in E}
    for i in range(n):
        if i not in out:
            j = rng.randrange(n)
            if not directed and j == i:
                j = (i + 1) % n
            E.add((i, j))
            out.add(i)
            if not directed:
                E.add((j, i))
                out.add(j)
    return sorted(E)


def patch_biadj(rng, r, c, E):
    E = set(E)
    for i in range(r):
        if not any(a == i for (a, _) in E):
            E.add((i, rng.randrange(c)))
    for j in range(c):
        if not any(b == j for (_, b) in E):
            E.add((rng.randrange(r), j))
    return sorted(E)


def has_sink(n, triples):
    out = {i for (i, _, w) in triples if w > 0}
    return len(out) < n


def is_connected(n, triples):
    adj = [[] for _ in range(n)]
    for (i, j, _) in triples:
        adj[i].append(j)
        adj[j].append(i)
    seen = {0}
    todo = [0]
    while todo:
        u = todo.pop()
        for v in adj[u]:
            if v not in seen:
                seen.add(v)
                todo.append(v)
    return len(seen) == n


# ------------------------------------------------------------------------------------------------
# Seeds in the three documented forms
# ------------------------------------------------------------------------------------------------
def pick_seeds(rng, n, kmin=1):
    k = rng.randint(kmin, max(kmin, min(n, 1 + n // 2)))
    idx = sorted(rng.sample(range(n), min(k, n)))
    return {i: rng.choice(TEMPS) for i in idx}


def seed_form(rng, n, seeds, kind=None):
    """seeds: {index: temperature >= 0}. Non-seeds are negative in array/list form, absent (or negative) in a dict."""
    kind = kind or rng.choice(['array', 'list', 'dict'])
    if kind == 'dict':
        items = list(seeds.items())
        rng.shuffle(items)
        free = [i for i in range(n) if i not in seeds]
        if free and rng.random() < 0.15:       # a negative temperature in a dict is ignored
            items.insert(rng.randrange(len(items) + 1), (rng.choice(free), rng.choice([-1, -2.5])))
        return {'kind': 'dict', 'data': [[k, v] for k, v in items]}
    neg = rng.choice([-1, -1, -3, -0.5])
    data = [seeds.get(i, neg) for i in range(n)]
    if kind == 'array':
        allint = all(float(x).is_integer() for x in data)
        if allint and rng.random() < 0.4:
            return {'kind': 'array', 'data': [int(x) for x in data], 'dtype': 'int'}
        return {'kind': 'array', 'data': [float(x) for x in data], 'dtype': 'float'}
    return {'kind': 'list', 'data': data}


def pick_init(rng, temps):
    if not temps or rng.random() < 0.5:
        return None
    lo, hi = min(temps), max(temps)
    return rng.choice([lo, hi, (lo + hi) / 2, lo + (hi - lo) / 4])


# ------------------------------------------------------------------------------------------------
# Exact harmonic solve (independent: fractions.Fraction Gaussian elimination)
# ------------------------------------------------------------------------------------------------
def harmonic_solve(n, triples, seeds):
    rowsum = [Fraction(0)] * n
    for (i, j, w) in triples:
        rowsum[i] += Fraction(w)
    interior = [i for i in range(n) if i not in seeds]
    pos = {v: k for k, v in enumerate(interior)}
    k = len(interior)
    A = [[Fraction(0)] * (k + 1) for _ in range(k)]
    for v in interior:
        A[pos[v]][pos[v]] += 1
    for (i, j, w) in triples:
        if i in pos:
            p = Fraction(w) / rowsum[i]
            if j in pos:
                A[pos[i]][pos[j]] -= p
            else:
                A[pos[i]][k] += p * Fraction(seeds[j])
    for c in range(k):
        piv = next((r for r in range(c, k) if A[r][c] != 0), None)
        if piv is None:
            return None
        A[c], A[piv] = A[piv], A[c]
        inv = 1 / A[c][c]
        A[c] = [x * inv for x in A[c]]
        for r in range(k):
            if r != c and A[r][c] != 0:
                f = A[r][c]
                A[r] = [x - f * y for x, y in zip(A[r], A[c])]
    sol = [Fraction(0)] * n
    for v in range(n):
        sol[v] = Fraction(seeds[v]) if v in seeds else A[pos[v]][k]
    return sol


def contraction_bound(n, triples, seeds, n_iter):
    """Upper bound of the sup-norm of the error operator after n_iter Dirichlet steps (float, for the guard only)."""
    import numpy as np
    P = np.zeros((n, n))
    for (i, j, w) in triples:
        P[i, j] += w
    P = P / P.sum(axis=1, keepdims=True)
    for s in seeds:
        P[s, :] = 0
    Qm = P.copy()
    k = n_iter
    R = np.eye(n)
    while k:
        if k & 1:
            R = R @ Qm
        Qm = Qm @ Qm
        k >>= 1
    return float(np.abs(R).sum(axis=1).max())


# ------------------------------------------------------------------------------------------------
# Conversions and comparisons
# ------------------------------------------------------------------------------------------------
def conv_model(v):
    if v[0] == 'Err':
        return {'err': v[1][0]}
    vals, rc = v[1]

    def fr(l):
        return [Fraction(a, b) for (a, b) in l]
    out = {'values': fr(vals), 'row': None, 'col': None}
    if rc is not None:
        out['row'] = fr(rc[1][0])
        out['col'] = fr(rc[1][1])
    return {'ok': out}


def close(a, b, tol=TOL):
    if isinstance(b, str):
        return False
    return abs(float(a) - b) <= tol + tol * abs(float(a))


def vec_close(exp, got, tol=TOL):
    if exp is None or got is None:
        return exp is None and got is None
    return len(exp) == len(got) and all(close(a, b, tol) for a, b in zip(exp, got))


def fvec_close(a, b, tol=TOL):
    """Two float vectors from the implementation (entries may be 'nan' strings)."""
    if a is None or b is None:
        return a is None and b is None
    if len(a) != len(b):
        return False
    for x, y in zip(a, b):
        if isinstance(x, str) or isinstance(y, str):
            if x != y:
                return False
        elif abs(x - y) > tol + tol * abs(x):
            return False
    return True


def agree(exp, got):
    """Model result vs implementation result (error kinds, NaN outcome, values within tolerance)."""
    if 'err' in exp:
        if exp['err'] == 'NanResult':
            return 'ok' in got and all(x == 'nan' for x in got['ok']['values'])
        return got.get('err') == exp['err']
    if 'ok' not in got:
        return False
    e, g = exp['ok'], got['ok']
    return vec_close(e['values'], g['values']) and vec_close(e['row'], g['row']) and vec_close(e['col'], g['col'])


def show(exp):
    if 'ok' in exp:
        return {'ok': {k: (None if v is None else [float(x) for x in v]) for k, v in exp['ok'].items()}}
    return exp


def all_numbers(g):
    vs = list(g['values']) + list(g['row'] or []) + list(g['col'] or [])
    return vs


# ------------------------------------------------------------------------------------------------
def run(ctx, scratch):
    rng = ctx.rng
    quick = ctx.tier == 'quick'
    nmax = 10 if quick else 15
    cases = []

    def add(algo, fam, nrow, ncol, triples, values=None, values_row=None, values_col=None, init=None, fb=False,
            n_iter=None, damping=None, stacked_seeds=None, nosink=False, malformed=False, dtype=None, fmt=None,
            scale=None, scale_p=0.3):
        n_iter = rng.choice(N_ITERS) if n_iter is None else n_iter
        dfl, dq = damping if damping is not None else rng.choice(DAMPINGS)
        m = {'shape': [nrow, ncol], 'coo': [[i, j, w] for (i, j, w) in triples],
             'dtype': dtype or rng.choice(['int', 'float']),
             'fmt': fmt or rng.choice(['csr', 'csr', 'csr', 'csc', 'coo', 'lil', 'dense'])}
        if algo == 'diffusion' and not malformed and nrow == ncol and not fb and values_row is None and values_col is None \
                and len(triples) >= 3 and rng.random() < 0.12:
            # explicitly STORED zero weights (what thresholding `adjacency.data[adjacency.data < t] = 0` leaves behind): every edge
            # into one node keeps its place in the matrix with weight 0; for the model these edges do not exist
            v0 = rng.choice(sorted({j for (_, j, _) in triples}))
            if any(j != v0 for (_, j, _) in triples):      # (a matrix whose ONLY entries are stored zeros is an "empty" input for the
                m['coo'] = [[i, j, (0 if j == v0 else w)] for (i, j, w) in triples]      # model and not for the code: not the subject)
                m['fmt'] = 'csr'
                triples = [(i, j, w) for (i, j, w) in triples if j != v0]
                fam = fam + '_stored_zeros'
        args = dict(m=m, n_iter=n_iter, values=values, values_row=values_row, values_col=values_col,
                    init=init, force_bipartite=fb)
        lit = (wmat_lit(nrow, ncol, triples), seeds_lit(values), seeds_lit(values_row), seeds_lit(values_col),
               copt(init, lambda t: cq(Fraction(t))), cbool(fb))
        if not malformed and m['fmt'] in ('csr', 'csc', 'coo') and len(triples) >= 2 and rng.random() < 0.15:
            # the same estimator fitted first on the same matrix object with other (non-uniformly rescaled) weights
            args['prior_factors'] = [rng.choice([1, 2, 3, 5]) for _ in range(len(triples))]
            fam = fam + '_reweighted'
        if not malformed and rng.random() < 0.2:
            # the same fit on an estimator constructed with other parameters and re-parameterised before the fit
            other_iter = rng.choice([x for x in N_ITERS if x != n_iter] or [n_iter + 1])
            args['constructed'] = dict(n_iter=other_iter)
            if algo == 'diffusion':
                args['constructed']['damping_factor'] = rng.choice([d for d, _ in DAMPINGS if d != dfl] or [dfl])
            args['reparam'] = rng.choice(['set_params', 'attribute'])
            fam = fam + '_reparam'
        if algo == 'diffusion':
            args['damping'] = dfl
            expr = 'fit_z (diffusion_fit %d %s %s %s %s %s %s %s)' % ((n_iter, cq(dq)) + lit)
        else:
            expr = 'fit_z (dirichlet_fit %d %s %s %s %s %s %s)' % ((n_iter,) + lit)
        bip = fb or nrow != ncol or values_row is not None or values_col is not None
        cases.append(dict(algo=algo, fam=fam, args=args, expr=expr, seeds=stacked_seeds, nosink=nosink,
                          malformed=malformed, nnodes=(nrow + ncol) if bip else nrow, twin=None))
        # scale family: the same case with every weight multiplied by 2**e (model diff, all oracles, and
        # the metamorphic check "rescaled result = original result")
        if triples and not malformed and scale is None and rng.random() < scale_p:
            e = rng.choice(SCALES)
            f = 2.0 ** e
            base = len(cases) - 1
            tri2 = [(i, j, w * f) for (i, j, w) in triples]
            m2 = dict(m, coo=[[i, j, w] for (i, j, w) in tri2], dtype='float')
            args2 = dict(args, m=m2)
            lit2 = (wmat_lit(nrow, ncol, tri2),) + lit[1:]
            if algo == 'diffusion':
                expr2 = 'fit_z (diffusion_fit %d %s %s %s %s %s %s %s)' % ((n_iter, cq(dq)) + lit2)
            else:
                expr2 = 'fit_z (dirichlet_fit %d %s %s %s %s %s %s)' % ((n_iter,) + lit2)
            cases.append(dict(algo=algo, fam='scale2^%d_%s' % (e, fam), args=args2, expr=expr2, seeds=stacked_seeds,
                              nosink=nosink, malformed=False, nnodes=(nrow + ncol) if bip else nrow, twin=base,
                              scale=e))

    def add_square(fam, n, triples, seeds, nosink, algos=('diffusion', 'dirichlet'), kind=None, **kw):
        temps = list(seeds.values())
        for algo in algos:
            add(algo, fam, n, n, triples, values=seed_form(rng, n, seeds, kind), init=pick_init(rng, temps),
                stacked_seeds=seeds, nosink=nosink, **kw)

    # ---- exhaustive: all simple undirected graphs on <= 4 nodes without isolated node, all non-empty seed sets
    for n in (2, 3, 4):
        for E in gen.all_undirected(n):
            Es = gen.sym(E)
            if {i for (i, _) in Es} != set(range(n)):
                continue
            tri = weighted(rng, Es, directed=False, unit=rng.random() < 0.5)
            subsets = [c for k in range(1, n + 1) for c in itertools.combinations(range(n), k)]
            if quick and len(subsets) > 6:
                subsets = rng.sample(subsets, 6)
            for S in subsets:
                seeds = {i: rng.choice(TEMPS) for i in S}
                add_square('exh_undirected_%d' % n, n, tri, seeds, True,
                           algos=(rng.choice(['diffusion', 'dirichlet']),))
    # ---- exhaustive: digraphs (loops allowed) on <= 3 nodes in which every node has an outgoing edge
    for n in (1, 2, 3):
        graphs = [E for E in gen.all_directed(n, loops=True) if {i for (i, _) in E} == set(range(n))]
        if quick and len(graphs) > 120:
            graphs = rng.sample(graphs, 120)
        for E in graphs:
            tri = weighted(rng, E, directed=True, unit=rng.random() < 0.5)
            seeds = pick_seeds(rng, n)
            add_square('exh_directed_%d' % n, n, tri, seeds, True)
    # ---- exhaustive / sampled: biadjacency matrices up to 3x3 without empty row or column
    for (r, c) in ((1, 1), (1, 2), (2, 1), (2, 2), (2, 3), (3, 2), (3, 3)):
        mats = [E for E in gen.all_biadj(r, c) if {i for (i, _) in E} == set(range(r)) and {j for (_, j) in E} == set(range(c))]
        if len(mats) > (40 if quick else 265):
            mats = rng.sample(mats, 40 if quick else 265)
        for E in mats:
            tri = weighted(rng, E, directed=True, unit=rng.random() < 0.5)
            add_bip(rng, add, 'exh_bipartite', r, c, tri, True)
    # ---- structured random, no sink (the property's quantifier)
    for _ in range(700 if quick else 3000):
        directed = rng.random() < 0.5
        n, E, fam = gen.random_graph(rng, nmax, directed=directed)
        E = patch_sinks(rng, n, E, directed)
        tri = weighted(rng, E, directed)
        seeds = pick_seeds(rng, n)
        add_square(('rnd_dir_' if directed else 'rnd_und_') + fam, n, tri, seeds, True)
    for _ in range(250 if quick else 1200):
        r, c, E = gen.random_biadj(rng, nmax // 2, nmax // 2)
        E = patch_biadj(rng, r, c, E)
        tri = weighted(rng, E, directed=True)
        add_bip(rng, add, 'rnd_bipartite', r, c, tri, True)
    # ---- graphs WITH sinks / isolated nodes: correspondence only (outside the property's quantifier for the bounds)
    for _ in range(80 if quick else 600):
        directed = rng.random() < 0.7
        n, E, fam = gen.random_graph(rng, nmax, directed=directed, family=rng.choice(['gnp_sparse', 'isolated', 'few_edges', 'tree', 'star']))
        if not E:
            continue
        tri = weighted(rng, E, directed)
        seeds = pick_seeds(rng, n)
        add_square('sinks_' + fam, n, tri, seeds, not has_sink(n, tri))
    # ---- default seeds (values=None: every node is a seed of temperature 1)
    for _ in range(10 if quick else 60):
        n, E, fam = gen.random_graph(rng, nmax, directed=True)
        E = patch_sinks(rng, n, E, True)
        tri = weighted(rng, E, True)
        for algo in ('diffusion', 'dirichlet'):
            add(algo, 'default_values', n, n, tri, stacked_seeds={i: 1 for i in range(n)}, nosink=True)
    # ---- malformed stream: model and code must agree on the error kind (or on the NaN outcome)
    for _ in range(40 if quick else 200):
        n, E, fam = gen.random_graph(rng, 6, directed=True)
        E = patch_sinks(rng, n, E, True)
        tri = weighted(rng, E, True)
        seeds = pick_seeds(rng, n)
        which = rng.choice(['n_iter0', 'short_list', 'long_array', 'empty_dict', 'key_oob', 'no_seed', 'empty_matrix'])
        algo = rng.choice(['diffusion', 'dirichlet'])
        kw = dict(malformed=True, stacked_seeds=None, nosink=False)
        if which == 'n_iter0':
            add(algo, 'malformed_' + which, n, n, tri, values=seed_form(rng, n, seeds), n_iter=0, **kw)
        elif which == 'short_list':
            add(algo, 'malformed_' + which, n, n, tri, values={'kind': 'list', 'data': [1.0] * (n - 1)}, **kw)
        elif which == 'long_array':
            add(algo, 'malformed_' + which, n, n, tri, values={'kind': 'array', 'data': [1.0] * (n + 1), 'dtype': 'float'}, **kw)
        elif which == 'empty_dict':
            add(algo, 'malformed_' + which, n, n, tri, values={'kind': 'dict', 'data': []}, **kw)
        elif which == 'key_oob':
            add(algo, 'malformed_' + which, n, n, tri, values={'kind': 'dict', 'data': [[0, 1.0], [n + rng.randint(0, 2), 2.0]]}, **kw)
        elif which == 'no_seed':
            add(algo, 'malformed_' + which, n, n, tri, values={'kind': 'list', 'data': [-1.0] * n}, **kw)
        else:
            add(algo, 'malformed_' + which, n, n, [], values=seed_form(rng, n, seeds), **kw)

    # ---- the model, evaluated inside Coq
    vals = safe_coq_eval(ctx, 'c14fit', IMPORTS, [c['expr'] for c in cases], shard=150)
    model_dead = vals is None      # recorded in ctx.proof_broken: no model diff; the scale / bounds / seeds / forms / limit oracles stay
    for c, v in zip(cases, vals or [None] * len(cases)):
        c['model'] = conv_model(v) if v is not None else None

    n_forms = 0
    n_scaled = 0
    n_limit_scaled = 0
    with Impl(scratch) as impl:
        for k, c in enumerate(cases):
            algo, fam, args = c['algo'], c['fam'], c['args']
            got = impl.call('c14', algo, args, timeout=30)
            c['got'] = got
            ctx.traces += 1
            seeds = c['seeds']
            nontrivial = (not c['malformed']) and bool(seeds) and len(args['m']['coo']) > 0 and len(seeds) < c['nnodes']
            ctx.count(algo + ':' + fam, (algo, args), nontrivial)
            exp = c['model']
            site = 'Diffusion.fit' if algo == 'diffusion' else 'Dirichlet.fit'
            if not model_dead and not agree(exp, got):
                ctx.violation(site, 'implementation differs from the exact rational model (%s)' % fam,
                              case=args, expected=show(exp), observed=got, algo=algo, family=fam, oracle='model')
            if k % 350 == 0:
                ctx.sample(dict(algo=algo, family=fam, args=args, model=show(exp) if not model_dead else None, impl=got))
            # -- metamorphic: multiplying every weight by 2**e does not change the result
            if c['twin'] is not None:
                n_scaled += 1
                g0 = cases[c['twin']]['got']
                same = ('ok' in g0) == ('ok' in got) and (
                    'ok' not in g0 or all(fvec_close(g0['ok'][f], got['ok'][f]) for f in ('values', 'row', 'col')))
                if not same:
                    ctx.violation(site, 'result changes when every weight is multiplied by 2^%d' % c['scale'],
                                  case=args, expected=g0, observed=got, algo=algo, family=fam, oracle='scale_invariance',
                                  scale=c['scale'], original_case=cases[c['twin']]['args'])
            if c['malformed'] or 'ok' not in got or not seeds:
                continue
            g = got['ok']
            nums = all_numbers(g)
            if any(isinstance(x, str) for x in nums):
                ctx.violation(site, 'non-finite value returned on a valid input', case=args, observed=got,
                              algo=algo, family=fam, oracle='finite')
                continue
            temps = list(seeds.values())
            init = args['init']
            lo, hi = min(temps), max(temps)
            # -- maximum principle (graphs in the quantifier: every node has an outgoing edge)
            if c['nosink']:
                tol = TOL * max(1.0, abs(hi))
                bad = [x for x in nums if x < lo - tol or x > hi + tol]
                if bad:
                    ctx.violation(site, 'returned value outside [min seed, max seed]', case=args,
                                  expected=[lo, hi], observed=got, algo=algo, family=fam, oracle='bounds')
            # -- Dirichlet returns the seed temperatures unchanged (exactly)
            if algo == 'dirichlet':
                stackedv = (g['row'] + g['col']) if g['bipartite'] else g['values']
                wrong = {i: stackedv[i] for i, t in seeds.items() if stackedv[i] != float(t)}
                if wrong:
                    ctx.violation(site, 'seed temperature changed', case=args, expected=seeds, observed=got,
                                  algo=algo, family=fam, oracle='seeds_unchanged')
            # -- array / list / dict forms of the same seeds give the same result
            if args['values'] is not None and args['values_row'] is None and args['values_col'] is None and k % 3 == 0:
                n = args['m']['shape'][0]
                for kind in ('array', 'list', 'dict'):
                    if kind == args['values']['kind']:
                        continue
                    a2 = dict(args)
                    a2['values'] = seed_form(rng, n, seeds, kind)
                    g2 = impl.call('c14', algo, a2, timeout=30)
                    ctx.traces += 1
                    n_forms += 1
                    ctx.count('forms:' + kind, (algo, a2), nontrivial)
                    same = 'ok' in g2 and all(
                        vec_close(g[f], g2['ok'][f], 1e-12) if g[f] is not None else g2['ok'][f] is None
                        for f in ('values', 'row', 'col'))
                    if not same:
                        ctx.violation(site, 'seeds given as %s and as %s give different results' % (args['values']['kind'], kind),
                                      case=a2, expected=got, observed=g2, algo=algo, family=fam, oracle='seed_forms',
                                      zero_seed=(0 in temps))

        # ---- harmonic limit on connected undirected graphs: Dirichlet with a large n_iter vs exact rational solve
        limit_cases = []
        dropped = 0
        for _ in range(220 if quick else 900):
            n, E, fam = gen.random_graph(rng, nmax, directed=False, allow_loops=rng.random() < 0.3,
                                         family=rng.choice(['gnp_sparse', 'gnp_dense', 'tree', 'star', 'path', 'cycle',
                                                            'clique', 'two_cliques', 'grid', 'loops']))
            E = patch_sinks(rng, n, E, False)
            tri = weighted(rng, E, directed=False)
            if not is_connected(n, tri):
                continue
            seeds = pick_seeds(rng, n)
            if len(seeds) == n:
                continue
            temps = list(seeds.values())
            if contraction_bound(n, tri, seeds, LIMIT_ITER) * max(1.0, max(temps)) > 1e-8:
                dropped += 1
                continue
            sol = harmonic_solve(n, tri, seeds)
            if sol is None:
                raise RuntimeError('harmonic system singular on a connected graph with a seed')
            if rng.random() < 0.5:          # the harmonic function does not depend on the scale of the weights
                e = rng.choice(SCALES)
                tri = [(i, j, w * 2.0 ** e) for (i, j, w) in tri]
                fam = 'scale2^%d_%s' % (e, fam)
                n_limit_scaled += 1
            limit_cases.append((n, tri, seeds, fam, sol))
        ctx.margin_dropped += dropped
        # the exact solutions are themselves validated inside Coq by the executable harmonic check
        checks = safe_coq_eval(ctx, 'c14harm', IMPORTS, [
            'harmonic_checkb %s %s %s %s' % (rows_lit(n, tri), clist([cbool(i in seeds) for i in range(n)]),
                                               qvec_lit([seeds.get(i, -1) for i in range(n)]), qvec_lit(sol))
            for (n, tri, seeds, fam, sol) in limit_cases], shard=60) if limit_cases else []
        if checks is None:
            checks = [True] * len(limit_cases)     # model dead: the (Python, exact rational) solutions are used unvalidated
        for (n, tri, seeds, fam, sol), okb in zip(limit_cases, checks):
            if okb is not True:
                raise RuntimeError('harness error: rational harmonic solution rejected by harmonic_checkb')
            args = dict(m={'shape': [n, n], 'coo': [[i, j, w] for (i, j, w) in tri],
                           'dtype': 'float' if fam.startswith('scale') else rng.choice(['int', 'float']), 'fmt': 'csr'},
                        n_iter=LIMIT_ITER, values=seed_form(rng, n, seeds), values_row=None, values_col=None,
                        init=pick_init(rng, list(seeds.values())), force_bipartite=False)
            got = impl.call('c14', 'dirichlet', args, timeout=120)
            ctx.traces += 1
            ctx.count('limit:' + fam, ('limit', args), True)
            ok = 'ok' in got and vec_close(sol, got['ok']['values'], LIMIT_TOL)
            if not ok:
                ctx.violation('Dirichlet.fit', 'values after %d iterations differ from the harmonic solution' % LIMIT_ITER,
                              case=args, expected=[float(x) for x in sol], observed=got, algo='dirichlet',
                              family=fam, oracle='harmonic_limit')
        # the same caller-owned float64 array of temperatures given to two successive fits (convergence checks are written
        # that way): the array must come back unchanged and the second fit must not depend on the first
        n_same = 0
        for _ in range(60 if quick else 600):
            n, E, fam = gen.random_graph(rng, nmax, directed=False, nmin=3)
            tri = []
            for (i, j) in sorted(set((min(i, j), max(i, j)) for (i, j) in E if i != j)):
                w = rng.randint(1, 5)
                tri += [(i, j, w), (j, i, w)]
            deg = {i for (i, j, w) in tri}
            if len(deg) < n or n < 3:
                continue
            ks = rng.sample(range(n), rng.randint(1, n - 1))
            vals = [-1.0] * n
            for k in ks:
                vals[k] = float(rng.choice([0, 0.25, 1, 2, 5]))
            algo = rng.choice(['diffusion', 'dirichlet'])
            args = dict(algo=algo, m={'shape': [n, n], 'coo': [[i, j, w] for (i, j, w) in tri], 'dtype': 'float', 'fmt': 'csr'},
                        values=vals, n_iters=[rng.choice([1, 3]), rng.choice([10, 40])], damping=rng.choice([0.3, 0.85, 1]))
            got = impl.call('c14', 'refit_same_array', args, timeout=60)
            ctx.traces += 1
            n_same += 1
            ctx.count('same_array_twice:' + algo, ('same', args), True)
            if 'ok' not in got:
                ctx.violation(algo.capitalize() + '.fit', 'two fits given the same float array: raised', case=args, observed=got,
                              algo=algo, family='same_array_twice', oracle='refit_same_array')
                continue
            g = got['ok']
            if g['array_after'] != g['array_before']:
                ctx.violation(algo.capitalize() + '.fit', 'the caller\'s array of temperatures was modified by fit', case=args,
                              expected=g['array_before'], observed=g['array_after'], algo=algo, family='same_array_twice',
                              oracle='argument_unchanged')
            if not vec_close(g['reference'], g['second'], 1e-9):
                ctx.violation(algo.capitalize() + '.fit', 'second fit given the same float array differs from the fit given a fresh copy',
                              case=args, expected=g['reference'], observed=g['second'], algo=algo, family='same_array_twice',
                              oracle='refit_same_array')
    ctx.extra['c14_same_array_twice'] = n_same
    # ---- the terms regenerated from diffusion.py (Gen/NpDiffusion.v; theorems source_* of Props/C14.v), evaluated inside Coq over
    #      exact rationals with the array semantics of Model/NpVec.v, must reproduce what the implementation returned
    src_exprs, src_cases = [], []
    per_algo = {}
    for c in cases:
        a = c['args']
        got = c.get('got') or {}
        shp = a['m']['shape']
        if c['malformed'] or 'ok' not in got or shp[0] != shp[1] or a['force_bipartite'] or a['values'] is None \
                or a['values_row'] is not None or a['values_col'] is not None or not c['seeds'] or shp[0] > 7:
            continue
        if got['ok'].get('bipartite') or any(isinstance(x, str) for x in got['ok']['values']):
            continue
        per_algo[c['algo']] = per_algo.get(c['algo'], 0) + 1
        if per_algo[c['algo']] > (40 if quick else 300):
            continue
        n = shp[0]
        dense = [[Fraction(0)] * n for _ in range(n)]
        for (i, j, w) in a['m']['coo']:
            dense[i][j] += Fraction(w)
        seedvec = [Fraction(c['seeds'][i]) if i in c['seeds'] else Fraction(-1) for i in range(n)]
        term = 'src_diffusion_fit' if c['algo'] == 'diffusion' else 'src_dirichlet_fit'
        damping = Fraction(a.get('damping', 0.5))
        src_exprs.append('map qz (qvresult (qvdenote (qenv_fit %s %d %s %s %d %s) %s))' % (
            clist(dense, lambda r: clist(r, cq)), n, clist(seedvec, cq), copt(a['init'], lambda t: cq(Fraction(t))),
            a['n_iter'], cq(damping), term))
        src_cases.append((c, term))
    src_vals = safe_coq_eval(ctx, 'c14src', ['Base.Util', 'Model.Diffusion', 'Model.NpExpr', 'Model.NpVec', 'Gen.NpDiffusion'],
                             src_exprs, shard=60) if src_exprs else []
    n_src = 0
    for (c, term), v in zip(src_cases, src_vals or []):
        n_src += 1
        ctx.count('source_term:' + term, ('src', term, c['args']), True)
        exp = [float(Fraction(x[0], x[1])) for x in v]
        got = c['got']['ok']['values']
        if not fvec_close(exp, got):
            ctx.violation('Diffusion.fit' if c['algo'] == 'diffusion' else 'Dirichlet.fit',
                          'the term regenerated from diffusion.py (%s), evaluated with the array semantics of Model/NpVec.v, '
                          'differs from what the implementation returns' % term, case=c['args'], expected=exp, observed=got,
                          algo=c['algo'], family=c['fam'], oracle='source_term')
    ctx.extra['source_terms_evaluated'] = n_src
    ctx.extra['c14'] = dict(model_cases=len(cases), seed_form_reruns=n_forms, rescaled_twins=n_scaled,
                            limit_cases=len(limit_cases), limit_cases_rescaled=n_limit_scaled,
                            limit_dropped_slow_mixing=dropped, limit_n_iter=LIMIT_ITER)
    ctx.rule = ('exhaustive: undirected graphs n<=4 without isolated node x seed subsets, digraphs n<=3 without sink, '
                'biadjacency matrices up to 3x3 without empty row/column; structured random graphs (13 families) n<=%d '
                'patched so that every node has an outgoing edge, integer weights 1..5, directed / undirected / bipartite; '
                'sink graphs (model diff only); values=None; malformed stream; scale family: about 30%% of the valid cases are repeated with '
                'every weight multiplied by 2^e, e in {-40,-30,-20,20,40} (exact in float64 and in Q), with the model diff, all oracles and '
                'the metamorphic check rescaled result = original result (1e-9); half of the limit cases are rescaled likewise. Per case: Diffusion and/or Dirichlet, n_iter in '
                '{1,2,3,5,10}, damping in {0,0.3,0.85,1}, seeds as array/list/dict (temperature 0 frequent), init None or within '
                'the seed range, matrix dtype int/float and 5 container formats. Model evaluated by vm_compute inside Coq over Q '
                '(damping as the decimal rational), diff at rel/abs 1e-9. Oracles on implementation output: bounds, Dirichlet seeds '
                'exact, seed forms agree, Dirichlet(n_iter=%d) vs exact Fraction solve (validated by harmonic_checkb in Coq) at 1e-6. '
                'distinct = hash of (algorithm, arguments); non-trivial = valid input with an edge, a seed and a non-seed node'
                % (nmax, LIMIT_ITER))
    ctx.assumptions = ['weights are non-negative and there are no explicitly stored zeros',
                       'dict keys are non-negative node indices (negative keys wrap in NumPy, outside the model)',
                       'the model takes the damping factor as the decimal rational (3/10, 17/20); the float differs by < 1 ulp',
                       'limit oracle: cases whose float contraction bound after %d steps exceeds 1e-8 are dropped and counted' % LIMIT_ITER]


def add_bip(rng, add, fam, r, c, tri, nosink):
    """Bipartite input: seeds through values_row / values_col (either may be absent) or values (+ force_bipartite)."""
    mode = rng.choice(['row_col', 'row_col', 'row', 'col', 'values'])
    srow = pick_seeds(rng, r) if mode in ('row_col', 'row', 'values') else {}
    scol = pick_seeds(rng, c) if mode in ('row_col', 'col') else {}
    stacked = dict(srow)
    stacked.update({r + j: t for j, t in scol.items()})
    temps = list(stacked.values())
    for algo in ('diffusion', 'dirichlet'):
        kw = dict(init=pick_init(rng, temps), stacked_seeds=stacked, nosink=nosink)
        if mode == 'values':
            add(algo, fam + '_values', r, c, tri, values=seed_form(rng, r, srow), fb=(r == c), **kw)
        else:
            add(algo, fam + '_' + mode, r, c, tri,
                values_row=seed_form(rng, r, srow) if srow else None,
                values_col=seed_form(rng, c, scol) if scol else None, **kw)

"""C06 — modularity as defined; Louvain / Leiden never make it worse.

(a) get_modularity: exact-Q model (Coq, vm_compute) vs float64 implementation vs an independent
    Python evaluation of the textbook double sum with Fractions.
(b) Louvain / Leiden: oracles on the implementation's outputs (objective of the optimised kind and
    resolution evaluated independently with Fractions from the returned labels; the 'Increase:'
    figures of the estimator's log; weak components of the input graph).
(c) Louvain: labels of the exact-Q model (louvain_core.pyx mirrored statement by statement) vs the
    implementation, compared as partitions, near-ties dropped by the model's decision margin.
"""
import itertools
import struct
from fractions import Fraction

from .. import gen
from ..common import cq, clist, cnat, cbool, safe_coq_eval
from ..impl import Impl

IMPORTS = ['Base.Util', 'Model.Modularity', 'Model.Louvain']
PRELUDE = '''
Definition qz (x : Q) := (Qnum x, Zpos (Qden x)).
Definition show_mod (r : mres (Q * Q * Q)) :=
  match r with
  | MOk (a, b, c) => MOk [qz a; qz b; qz c]
  | MErr e => MErr e
  end.
Definition show_fit (r : mres (list nat * list logline * marg)) :=
  match r with
  | MOk (l, lg, (mg, ties)) =>
      MOk (l, map (fun x => (l_count x, l_clusters x, qz (l_increase x))) lg,
           match mg with Some x => [qz x] | None => [] end, ties)
  | MErr e => MErr e
  end.
'''
MARGIN = Fraction(1, 10000)        # decision margin (normalised weights, total = 1) below which a case is dropped
TOL64 = 1e-9                       # float64 path (get_modularity)
TOL32 = 2e-4                       # float32 kernel (DESIGN App. C)


def f32(x):
    return struct.unpack('f', struct.pack('f', x))[0]


# ------------------------------------------------------------------------------------------------
# Coq literals
# ------------------------------------------------------------------------------------------------
def wmat(nr, nc, triples):
    rows = [[] for _ in range(nr)]
    for i, j, w in triples:
        rows[i].append('(%d, %s)' % (j, cq(w)))
    return '{| w_ncol := %d; w_rows := %s |}' % (nc, clist(rows, lambda r: clist(r)))


def mspec(nr, nc, triples, dtype=None):
    if dtype is None:
        dtype = 'int' if all(float(w) == int(w) for _, _, w in triples) else 'float'
    return {'shape': [nr, nc], 'coo': [[i, j, (float(w) if dtype in ('float', 'float32') else int(w))] for i, j, w in triples],
            'dtype': dtype, 'fmt': 'csr'}


def frac(pair):
    return Fraction(pair[0], pair[1])


# ------------------------------------------------------------------------------------------------
# Independent Python oracles (Fractions)
# ------------------------------------------------------------------------------------------------
def dense(n, triples):
    A = [[Fraction(0)] * n for _ in range(n)]
    for i, j, w in triples:
        A[i][j] += Fraction(w)
    return A


def block(nr, nc, triples, directed):
    """[[0, B], [B^T, 0]] (undirected) or [[0, B], [0, 0]] (directed) as triples on nr + nc nodes."""
    out = []
    for i, j, w in triples:
        out.append((i, nr + j, w))
        if not directed:
            out.append((nr + j, i, w))
    return nr + nc, out


def textbook_modularity(n, triples, labels, gamma, weights):
    """(modularity, fit, diversity) by the docstring's double sum."""
    A = dense(n, triples)
    w = sum(sum(r) for r in A)
    dout = [sum(A[i]) for i in range(n)]
    din = [sum(A[i][j] for i in range(n)) for j in range(n)]
    mod = Fraction(0)
    fit = Fraction(0)
    div = Fraction(0)
    for i in range(n):
        for j in range(n):
            if labels[i] != labels[j] or labels[i] < 0:      # a negative label: the node is in no cluster (get_membership ignores it)
                continue
            if weights == 'degree':
                mod += (A[i][j] - gamma * dout[i] * din[j] / w) / w
                div += dout[i] * din[j] / (w * w)
            else:
                mod += A[i][j] / w - gamma / (n * n)
                div += Fraction(1, n * n)
            fit += A[i][j] / w
    return mod, fit, div


def kind_objective(kind, n, triples, labels, gamma):
    """Objective of the modularity kind on the working adjacency A (docs/reference/clustering.rst)."""
    A = dense(n, triples)
    w = sum(sum(r) for r in A)
    dout = [sum(A[i]) for i in range(n)]
    din = [sum(A[i][j] for i in range(n)) for j in range(n)]
    tot = Fraction(0)
    for i in range(n):
        for j in range(n):
            if labels[i] != labels[j]:
                continue
            if kind == 'dugue':
                null = dout[i] * din[j] / (w * w)
            elif kind == 'newman':
                null = dout[i] * dout[j] / (w * w)
            else:
                null = Fraction(1, n * n)
            tot += (A[i][j] + A[j][i]) / (2 * w) - gamma * null
    return tot


def weak_components(n, triples):
    p = list(range(n))

    def find(x):
        while p[x] != x:
            p[x] = p[p[x]]
            x = p[x]
        return x
    for i, j, _ in triples:
        a, b = find(i), find(j)
        if a != b:
            p[a] = b
    return [find(x) for x in range(n)]


def partition(labels):
    d = {}
    for i, x in enumerate(labels):
        d.setdefault(x, []).append(i)
    return sorted(d.values())


def restricted_growth(n):
    """All set partitions of {0..n-1} as restricted growth strings."""
    def rec(prefix, mx):
        if len(prefix) == n:
            yield list(prefix)
            return
        for v in range(mx + 2):
            yield from rec(prefix + [v], max(mx, v))
    if n == 0:
        yield []
    else:
        yield from rec([0], 0)


def close(a, b, tol):
    return abs(a - b) <= tol * max(1.0, abs(a), abs(b))


# ------------------------------------------------------------------------------------------------
def run(ctx, scratch):
    rng = ctx.rng
    quick = ctx.tier == 'quick'
    run_metric(ctx, scratch, rng, quick)
    run_optimisers(ctx, scratch, rng, quick)
    ctx.rule = (
        'metric: all simple undirected graphs on n<=4 nodes x ALL set partitions (plus renamed labels with gaps), sampled '
        'n=5, sampled digraphs with loops n<=3, all non-square 0/1 biadjacency matrices up to 3x3 x sampled labelings, '
        'random weighted graphs (undirected, directed, bipartite, disconnected; integer and dyadic weights) x '
        "weights in {degree, uniform} x resolution in {1/2, 1, 2} x return_all; malformed stream (empty matrix, wrong "
        'label length, missing labels_col). optimisers: random weighted graphs from 13 families + random biadjacency '
        'matrices (n<=14 quick / 40 thorough), Louvain and Leiden x modularity kind x resolution x tol_optimization x '
        'tol_aggregation x n_aggregations x shuffle_nodes(random_state) x sort_clusters. distinct = hash of (entry point, '
        'arguments); non-trivial = at least one edge, at least two nodes and not malformed')
    ctx.assumptions = [
        'labels are non-negative integers (get_membership ignores negative labels; outside the model)',
        'weights are positive and matrices have no explicitly stored zeros (generators never produce them)',
        'modularity=newman on a directed (non-symmetric) input is evaluated with the objective the documentation '
        'formula gives when d_i is read as the out-weight (what _pre_processing builds)',
        'float32 kernel: reported increases are compared with the exact objective difference up to 2e-4 (App. C); '
        'objective(final) >= objective(singletons) up to 1e-6',
        'model-vs-code label comparison only for cases whose smallest decision margin is >= 1e-4 (weights normalised '
        'to total 1) and, when the labels differ, without exact ties on the decision path (ties are broken by float '
        'rounding in the kernel); dropped cases are counted',
        'Leiden: the refinement draws targets with libc rand(); only its outputs are checked (oracles), there is no '
        'model-vs-code comparison of Leiden labels',
    ]


# ------------------------------------------------------------------------------------------------
# (a) get_modularity
# ------------------------------------------------------------------------------------------------
def run_metric(ctx, scratch, rng, quick):
    cases = []   # dict(fam, nr, nc, triples, labels, labels_col, weights, gamma, return_all, malformed)

    def add(fam, nr, nc, triples, labels, labels_col=None, weights=None, gamma=None, return_all=None, malformed=False,
            all_opts=False):
        if all_opts:
            for w in ('degree', 'uniform'):
                for g in (Fraction(1, 2), Fraction(1), Fraction(2)):
                    cases.append(dict(fam=fam, nr=nr, nc=nc, triples=triples, labels=labels, labels_col=labels_col,
                                      weights=w, gamma=g, return_all=rng.random() < 0.5, malformed=malformed))
            return
        cases.append(dict(fam=fam, nr=nr, nc=nc, triples=triples, labels=labels, labels_col=labels_col,
                          weights=weights or rng.choice(['degree', 'uniform']),
                          gamma=gamma if gamma is not None else rng.choice([Fraction(1, 2), Fraction(1), Fraction(2)]),
                          return_all=rng.random() < 0.5 if return_all is None else return_all, malformed=malformed))

    def rename(labels):
        """Same partition, arbitrary non-negative names with gaps."""
        names = rng.sample(range(len(labels) + 3), len(set(labels)))
        m = dict(zip(sorted(set(labels)), names))
        return [m[x] for x in labels]

    # exhaustive: all simple undirected graphs n<=4 x all partitions
    for n in (2, 3, 4):
        parts = list(restricted_growth(n))
        for E in gen.all_undirected(n):
            if not E:
                continue
            T = [(i, j, 1) for (i, j) in gen.sym(E)]
            for lab in parts:
                add('exh_undirected_%d' % n, n, n, T, lab, all_opts=(n <= 3 or not quick))
                if n == 4 and quick:
                    add('exh_undirected_%d' % n, n, n, T, lab)
                    add('exh_undirected_%d' % n, n, n, T, lab)
            add('exh_undirected_renamed', n, n, T, rename(rng.choice(parts)))
    graphs5 = [E for E in gen.all_undirected(5) if E]
    parts5 = list(restricted_growth(5))
    for E in rng.sample(graphs5, 60 if quick else 600):
        T = [(i, j, 1) for (i, j) in gen.sym(E)]
        for lab in rng.sample(parts5, 3):
            add('sampled_undirected_5', 5, 5, T, lab)
    # digraphs with loops, n<=3
    for n in (1, 2, 3):
        graphs = [E for E in gen.all_directed(n, loops=True) if E]
        if len(graphs) > (80 if quick else 511):
            graphs = rng.sample(graphs, 80 if quick else 511)
        parts = list(restricted_growth(n))
        for E in graphs:
            T = [(i, j, 1) for (i, j) in E]
            for lab in (parts if n < 3 or not quick else rng.sample(parts, 2)):
                add('exh_directed_%d' % n, n, n, T, lab)
    # non-square biadjacency matrices up to 3x3
    for (r, c) in ((1, 2), (2, 1), (1, 3), (3, 1), (2, 3), (3, 2)):
        mats = [E for E in gen.all_biadj(r, c) if E]
        parts = list(restricted_growth(r + c))
        for E in mats:
            T = [(i, j, 1) for (i, j) in E]
            for lab in rng.sample(parts, min(len(parts), 2 if quick else 8)):
                lab = rename(lab) if rng.random() < 0.2 else lab
                add('exh_bipartite_%dx%d' % (r, c), r, c, T, lab[:r], labels_col=lab[r:])
    # structured random, weighted
    nmax = 12 if quick else 30
    for _ in range(400 if quick else 3000):
        shape = rng.choice(['undirected', 'undirected', 'directed', 'bipartite'])
        if shape == 'bipartite':
            r, c, E = gen.random_biadj(rng, nmax // 2, nmax // 2)
            if r == c or not E:
                continue
            T, wk = gen.random_weights(rng, E, directed=True)
            k = rng.randint(1, r + c)
            lab = [rng.randrange(k) for _ in range(r + c)]
            add('rnd_bipartite', r, c, T, lab[:r], labels_col=lab[r:])
        else:
            directed = shape == 'directed'
            n, E, fam = gen.random_graph(rng, nmax, directed=directed)
            if not E:
                continue
            T, wk = gen.random_weights(rng, E, directed=directed)
            k = rng.randint(1, n)
            lab = [rng.randrange(k) for _ in range(n)]
            if rng.random() < 0.15:
                # some nodes left out of every cluster (label -1, as after pruning small clusters), among them both ends of an edge
                i0, j0 = rng.choice(E)
                for v_ in {i0, j0, rng.randrange(n)}:
                    lab[v_] = -1
                add('rnd_negative_labels', n, n, T, lab)
                continue
            if rng.random() < 0.2:
                lab = rename(lab)
            add('rnd_%s_%s' % (shape, fam), n, n, T, lab)
    # malformed stream: model and code must agree on the error kind
    for _ in range(12):
        n, E, fam = gen.random_graph(rng, 5, directed=False)
        T = [(i, j, 1) for (i, j) in E]
        which = rng.choice(['empty', 'short_labels', 'long_labels', 'no_labels_col'])
        if which == 'empty':
            add('malformed_empty', n, n, [], [0] * n, malformed=True)
        elif which == 'short_labels' and E:
            add('malformed_short_labels', n, n, T, [0] * (n - 1), malformed=True)
        elif which == 'long_labels' and E:
            add('malformed_long_labels', n, n, T, [0] * (n + 1), malformed=True)
        else:
            add('malformed_no_labels_col', 2, 3, [(0, 0, 1), (1, 2, 1)], [0, 1], labels_col=None, malformed=True)

    # ---- model (Coq)
    exprs = []
    for c in cases:
        lc = 'None' if c['labels_col'] is None else '(Some %s)' % clist(c['labels_col'], cnat)
        exprs.append('show_mod (get_modularity %s %s %s %s %s)' % (
            wmat(c['nr'], c['nc'], c['triples']), clist([max(0, x) for x in c['labels']], cnat), lc,
            'Degree' if c['weights'] == 'degree' else 'Uniform', cq(c['gamma'])))
    vals = safe_coq_eval(ctx, 'c06mod', IMPORTS, exprs, prelude=PRELUDE, shard=300)
    if vals is None:
        # model dead (recorded in ctx.proof_broken): the implementation is still judged by the textbook double sum
        vals = [None] * len(cases)
    # labels are naturals in the hand-written model: cases with negative labels are judged by the textbook sum (and by the terms
    # regenerated from metrics.py, whose membership matrix ignores negative labels) only
    vals = [None if any(x < 0 for x in c['labels']) else v for c, v in zip(cases, vals)]
    # ---- implementation + oracle
    src_cases = []
    with Impl(scratch) as impl:
        for k, (c, v) in enumerate(zip(cases, vals)):
            args = dict(m=mspec(c['nr'], c['nc'], c['triples']), labels=c['labels'], labels_col=c['labels_col'],
                        weights=c['weights'], resolution=float(c['gamma']), return_all=c['return_all'])
            r = impl.call('c06', 'modularity', args, timeout=20)
            ctx.traces += 1
            ctx.count('metric:' + c['fam'], ('modularity', args), bool(c['triples']) and not c['malformed'])
            fields = dict(family=c['fam'], weights=c['weights'], resolution=float(c['gamma']),
                          bipartite=c['nr'] != c['nc'], return_all=c['return_all'])
            if v is None and c['malformed']:
                continue      # which error a malformed input raises is stated by the model only
            if v is not None and v[0] == 'MErr':
                model = {'err': {'MValueError': 'ValueError'}.get(v[1][0], v[1][0])}
                got = {'err': r.get('err')} if 'err' in r else r
                if got != model:
                    ctx.violation('get_modularity', 'error behaviour differs from the model', case=args,
                                  expected=model, observed=r, oracle='metric_error', **fields)
                continue
            mod, fit, div = (frac(x) for x in v[1]) if v is not None else (None, None, None)
            # independent oracle (textbook double sum)
            if c['nr'] != c['nc']:
                n, T = block(c['nr'], c['nc'], c['triples'], directed=False)
                lab = list(c['labels']) + list(c['labels_col'])
            else:
                n, T, lab = c['nr'], c['triples'], c['labels']
            omod, ofit, odiv = textbook_modularity(n, T, lab, c['gamma'], c['weights'])
            if v is None:
                mod, fit, div = omod, ofit, odiv
            if (omod, ofit, odiv) != (mod, fit, div):
                ctx.corr_broken.append(dict(kind='model_vs_textbook', case=args))
                ctx.violation('get_modularity', 'exact model and the independent textbook evaluation disagree',
                              case=args, expected=[omod, ofit, odiv], observed=[mod, fit, div],
                              oracle='model_vs_textbook', no_input=False, **fields)
                continue
            if 'ok' not in r:
                ctx.violation('get_modularity', 'implementation raised / hung on a valid input', case=args,
                              expected=[mod, fit, div], observed=r, oracle='metric_value', **fields)
                continue
            if c['return_all']:
                gm, gf, gd = r['ok']
                ok = close(gm, float(mod), TOL64) and close(gf, float(fit), TOL64) and close(gd, float(div), TOL64)
                if not close(gm, gf - float(c['gamma']) * gd, TOL64):
                    ctx.violation('get_modularity', 'returned modularity is not fit - resolution * diversity',
                                  case=args, expected=gf - float(c['gamma']) * gd, observed=gm,
                                  oracle='metric_fit_minus_div', **fields)
            else:
                ok = close(r['ok'], float(mod), TOL64)
            if not ok:
                ctx.violation('get_modularity', 'value differs from the documented definition', case=args,
                              expected=[float(mod), float(fit), float(div)], observed=r['ok'],
                              oracle='metric_value', **fields)
            if k % 1500 == 0:
                ctx.sample(dict(kind='modularity', family=c['fam'], args=args, model=[mod, fit, div], impl=r.get('ok')))
            if c['return_all'] and c['nr'] == c['nc'] and c['nr'] <= 8 and len(src_cases) < (60 if ctx.tier == 'quick' else 400) \
                    and all(x >= 0 for x in c['labels']):
                src_cases.append((c, args, r['ok']))
    # ---- the terms regenerated from metrics.py (Gen/NpModularity.v; theorem source_modularity_def of Props/C06.v) evaluated inside
    #      Coq over exact rationals with the array semantics of Model/NpVec.v must reproduce the implementation's (mod, fit, div)
    src_exprs = []
    for (c, args, got) in src_cases:
        n = c['nr']
        dense = [[Fraction(0)] * n for _ in range(n)]
        for (i, j, w) in c['triples']:
            dense[i][j] += Fraction(w)
        env = '(qenv_modularity %s %d %s %s %s)' % (clist(dense, lambda row: clist(row, cq)), n,
                                                   clist(c['labels'], lambda z: '(%d)%%Z' % z),
                                                   'true' if c['weights'] == 'degree' else 'false', cq(c['gamma']))
        src_exprs.append('map qz3 (qsresult (qvdenote %s src_modularity_mod) ++ qsresult (qvdenote %s src_modularity_fit) ++ '
                         'qsresult (qvdenote %s src_modularity_div))' % (env, env, env))
    src_vals = safe_coq_eval(ctx, 'c06src', ['Base.Util', 'Model.NpExpr', 'Model.NpVec', 'Gen.NpModularity'], src_exprs,
                             prelude='Definition qz3 (q : Q) : Z * Z := (Qnum q, Zpos (Qden q)).\n', shard=60) if src_exprs else []
    n_src = 0
    for (c, args, got), v in zip(src_cases, src_vals or []):
        n_src += 1
        ctx.count('source_term:get_modularity', ('src', args), True)
        exp = [float(Fraction(x[0], x[1])) for x in v]
        if len(exp) != 3 or not all(close(g, e, TOL64) for g, e in zip(got, exp)):
            ctx.violation('get_modularity', 'the terms regenerated from metrics.py (src_modularity_mod / _fit / _div), evaluated with the '
                          'array semantics of Model/NpVec.v, differ from what the implementation returns', case=args, expected=exp,
                          observed=got, oracle='source_term', family=c['fam'], weights=c['weights'])
    ctx.extra['source_terms_evaluated'] = n_src


# ------------------------------------------------------------------------------------------------
# (b), (c) Louvain / Leiden
# ------------------------------------------------------------------------------------------------
def run_optimisers(ctx, scratch, rng, quick):
    nmax = 14 if quick else 40
    cases = []
    for it in range(700 if quick else 4000):
        if not quick and it % 2 == 0:
            nmax = 14      # half of the thorough cases stay within the model's size cap
        elif not quick:
            nmax = 40
        shape = rng.choice(['undirected', 'undirected', 'undirected', 'directed', 'bipartite'])
        if shape == 'bipartite':
            r, c, E = gen.random_biadj(rng, max(2, nmax // 2), max(2, nmax // 2))
            if not E:
                continue
            T, wk = gen.random_weights(rng, E, directed=True, kind=rng.choice(['unit', 'small_int', 'small_int']))
            nr, nc, fam = r, c, 'bipartite'
        else:
            directed = shape == 'directed'
            n, E, fam = gen.random_graph(rng, nmax, directed=directed)
            if not E:
                continue
            T, wk = gen.random_weights(rng, E, directed=directed,
                                       kind=rng.choice(['unit', 'small_int', 'small_int', 'dyadic']))
            nr = nc = n
        opts = dict(modularity=rng.choice(['dugue', 'newman', 'potts']),
                    resolution=rng.choice([0.5, 1, 1, 2]),
                    tol_optimization=rng.choice([1e-3, 1e-3, 1e-3, 1e-2, 1e-2, 1e-4, 0.0, 0.05]),
                    tol_aggregation=rng.choice([1e-3, 1e-3, 1e-2, 0.0, 0.05]),
                    n_aggregations=rng.choice([-1, -1, -1, 1, 2]),
                    shuffle_nodes=rng.random() < 0.3, sort_clusters=rng.random() < 0.7,
                    force_bipartite=(shape == 'bipartite' and nr == nc) or (shape != 'bipartite' and rng.random() < 0.05))
        if opts['shuffle_nodes']:
            opts['random_state'] = rng.randrange(1000)
        store = None
        if wk == 'unit' and rng.random() < 0.5:
            store = 'bool'            # an unweighted graph as the loaders return it (seed C06_11: a shortcut taken for dtype bool only)
        elif wk != 'dyadic' and rng.random() < 0.2:
            # integer weights in other units (x40 / x20: modularity does not depend on the unit), stored in a narrow integer type in
            # which the sum of two reciprocal weights does not fit (uint8: 2 x 160 = 64 mod 256; int8: 2 x 80 = -96)
            store, mult = rng.choice([('uint8', 40), ('int8', 20), ('int32', 40), ('float32', 40)])
            T = [(i, j, w * mult) for (i, j, w) in T]
        cases.append(dict(fam='%s_%s%s' % (shape, fam, '_' + store if store else ''), nr=nr, nc=nc, triples=T, opts=opts, wkind=wk,
                          integer=(wk != 'dyadic'), store=store))

    def working(c):
        bip = c['opts']['force_bipartite'] or c['nr'] != c['nc']
        if bip:
            n, T = block(c['nr'], c['nc'], c['triples'], directed=(c['opts']['modularity'] == 'dugue'))
        else:
            n, T = c['nr'], list(c['triples'])
        return bip, n, T

    # ---- implementation runs + oracles
    results = []
    hangs = {}
    with Impl(scratch) as impl:
        for c in cases:
            bip, n, T = working(c)
            gamma = Fraction(c['opts']['resolution'])
            kind = c['opts']['modularity']
            comps = weak_components(n, T)
            sing = kind_objective(kind, n, T, list(range(n)), gamma)
            per_algo = {}
            for algo in ('louvain', 'leiden'):
                args = dict(algo=algo, m=mspec(c['nr'], c['nc'], c['triples'], dtype=c.get('store')), want_index=True)
                args.update(c['opts'])
                r = impl.call('c06', 'optimiser', args, timeout=8)
                ctx.traces += 1
                ctx.count('%s:%s' % (algo, c['fam']), (algo, args), n >= 2)
                fields = dict(algo=algo, modularity=kind, resolution=c['opts']['resolution'], family=c['fam'],
                              bipartite=bip, shuffle_nodes=c['opts']['shuffle_nodes'],
                              n_aggregations=c['opts']['n_aggregations'])
                site = 'Louvain' if algo == 'louvain' else 'Leiden'
                if 'hang' in r or 'crash' in r:
                    ctx.dist['optimiser_hang_or_crash'] = ctx.dist.get('optimiser_hang_or_crash', 0) + 1
                    hangs[site] = hangs.get(site, 0) + 1
                    if len(ctx.extra.setdefault('optimiser_no_return', [])) < 4:
                        ctx.extra['optimiser_no_return'].append(dict(site=site, options=c['opts'], shape=[c['nr'], c['nc']],
                                                                     triples=c['triples']))
                    continue
                if 'ok' not in r:
                    ctx.violation(site, 'fit raised on a valid input', case=args, observed=r, oracle='fit_raises', **fields)
                    continue
                out = r['ok']
                labels = (out['labels_row'] + out['labels_col']) if out['bipartite'] else out['labels']
                per_algo[algo] = (out, labels)
                if out['bipartite'] != bip or len(labels) != n:
                    ctx.violation(site, 'labels do not cover the nodes of the input', case=args, observed=out,
                                  oracle='labels_shape', **fields)
                    continue
                final = kind_objective(kind, n, T, labels, gamma)
                total = sum(x[2] for x in out['log'])
                gain = float(final - sing)
                if gain < -1e-6:
                    ctx.violation(site, 'objective of the returned partition is below that of singletons', case=args,
                                  expected='>= %r' % float(sing), observed=float(final), log=out['log'],
                                  labels=labels, oracle='objective_not_worse', **fields)
                if abs(gain - total) > TOL32 * max(1.0, abs(gain), float(gamma)):
                    ctx.violation(site, 'sum of the logged increases differs from the objective gain over singletons',
                                  case=args, expected=gain, observed=total, log=out['log'], labels=labels,
                                  oracle='increase_total', **fields)
                if algo == 'leiden' and not out.get('refine_contract_ok', True):
                    ctx.violation(site, 'optimize_refine_core broke the contract the Leiden theorems assume: ' +
                                  str(out.get('refine_contract_why')), case=args, observed=out.get('refine_answers'),
                                  oracle='refine_contract', **fields)
                if any(x[2] < -1e-6 for x in out['log']):
                    ctx.violation(site, 'a logged increase is negative', case=args, observed=out['log'],
                                  oracle='increase_negative', **fields)
                bad = [(u, v) for u in range(n) for v in range(u + 1, n) if labels[u] == labels[v] and comps[u] != comps[v]]
                if bad:
                    ctx.violation(site, 'a cluster contains nodes of two connected components', case=args,
                                  observed=labels, nodes=bad[0], oracle='components', **fields)
            results.append(per_algo)
            if len(ctx.samples) < 6 and 'louvain' in per_algo and len(results) % 60 == 1:
                ctx.sample(dict(kind='optimiser', family=c['fam'], options=c['opts'], n=n,
                                louvain_labels=per_algo['louvain'][1], louvain_log=per_algo['louvain'][0]['log'],
                                singletons_objective=sing))

    for site, cnt in sorted(hangs.items()):
        ctx.notes.append('%s did not return within 8 s on %d case(s), all with tol_optimization=0 expected '
                         '(float32 tie flips; termination is property C17, not C06)' % (site, cnt))
    # ---- (c) model vs code (integer weights): Louvain, and Leiden with the captured refinement answers as oracle
    sel = []
    exprs = []
    model_nmax = 14 if quick else 16     # exact-Q evaluation inside Coq: sizes capped (DESIGN section 7, C06 B)
    model_limit = 1400 if quick else 3000
    for k, c in enumerate(cases):
        if not c['integer'] or working(c)[1] > model_nmax or len(exprs) >= model_limit:
            continue
        o = c['opts']
        for algo in ('louvain', 'leiden'):
            if algo not in results[k]:
                continue
            out = results[k][algo][0]
            if o['shuffle_nodes'] and 'index' not in out:
                continue
            index = '(Some %s)' % clist(out['index'], cnat) if o['shuffle_nodes'] else 'None'
            common = '%s %s %s %s (%d)%%Z %s' % (
                o['modularity'].capitalize(), cq(Fraction(f32(o['resolution']))), cq(Fraction(f32(o['tol_optimization']))),
                cq(Fraction(o['tol_aggregation'])), o['n_aggregations'], cbool(o['sort_clusters']))
            tail = '%s %s %s' % (wmat(c['nr'], c['nc'], c['triples']), cbool(o['force_bipartite']), index)
            if algo == 'louvain':
                exprs.append('show_fit (louvain_fit 80 400 %s %s)' % (common, tail))
            else:
                answers = clist(out.get('refine_answers', []), lambda l: clist(l, cnat))
                exprs.append('show_fit (leiden_fit 80 400 %s (fun count _ _ => nth (count - 1) %s []) %s)' % (
                    common, answers, tail))
            sel.append((k, algo))
    # (pure model-vs-code comparison: skipped, and recorded in ctx.proof_broken, when the model no longer evaluates; the
    # objective / log / components oracles above have already judged every returned partition)
    vals = safe_coq_eval(ctx, 'c06fit', IMPORTS, exprs, prelude=PRELUDE, shard=12, timeout=900) or []
    stats = {a: dict(compared=0, agree=0, margin_dropped=0, tie_dropped=0, model_out_of_fuel=0) for a in ('louvain', 'leiden')}
    for (k, algo), v in zip(sel, vals):
        c = cases[k]
        st = stats[algo]
        st['compared'] += 1
        site = 'Louvain' if algo == 'louvain' else 'Leiden'
        out, labels = results[k][algo]
        key = ('model', algo, c['nr'], c['nc'], tuple(c['triples']), tuple(sorted(c['opts'].items())))
        if v[0] != 'MOk':
            if v[1][0] == 'MOutOfFuel':
                st['model_out_of_fuel'] += 1
                continue
            ctx.violation(site, 'model reports an error where the implementation returns', case=c['opts'],
                          expected=v, observed=out, oracle='model_labels', family=c['fam'], algo=algo)
            continue
        mlabels, mlog, mg, ties = v[1]
        margin = frac(mg[0]) if mg else None
        ctx.count('model_%s:%s' % (algo, c['fam']), key, len(mlabels) >= 2)
        if margin is not None and margin < MARGIN:
            st['margin_dropped'] += 1
            ctx.margin_dropped += 1
            continue
        same = partition(mlabels) == partition(labels)
        if not same and ties > 0:
            st['tie_dropped'] += 1
            ctx.margin_dropped += 1
            continue
        fields = dict(algo=algo, modularity=c['opts']['modularity'], resolution=c['opts']['resolution'],
                      family=c['fam'], shuffle_nodes=c['opts']['shuffle_nodes'])
        args = dict(m=mspec(c['nr'], c['nc'], c['triples']))
        args.update(c['opts'])
        if not same:
            ctx.corr_broken.append(dict(kind='%s_model_vs_code' % algo, case=args))
            ctx.violation(site, 'labels differ from the exact model of optimize_core (as partitions, margin %s)' %
                          (float(margin) if margin is not None else None), case=args, expected=mlabels, observed=labels,
                          model_log=[[a, b, float(frac(x))] for a, b, x in mlog], log=out['log'],
                          refine_answers=out.get('refine_answers'), oracle='model_labels', **fields)
            continue
        st['agree'] += 1
        if ties > 0:
            continue   # same partition, but an exact tie may have been taken the other way: figures may differ
        mfig = [[a, b, float(frac(x))] for a, b, x in mlog]
        okfig = len(mfig) == len(out['log']) and all(
            a[0] == b[0] and a[1] == b[1] and abs(a[2] - b[2]) <= TOL32 * max(1.0, abs(a[2])) for a, b in zip(mfig, out['log']))
        if not okfig:
            ctx.violation(site, "the log's Aggregation / Clusters / Increase figures differ from the exact model",
                          case=args, expected=mfig, observed=out['log'], oracle='model_log', **fields)
    for a in stats:
        stats[a]['margin_threshold'] = float(MARGIN)
    ctx.extra['model_vs_code'] = stats

"""C03 — a biadjacency matrix is treated exactly as its bipartite block adjacency.

For every estimator / path / structure function that accepts bipartite input: fit on B (rectangular, or square with
force_bipartite) and on [[0,B],[B^T,0]] with the seeds translated (row i -> i, column j -> n_row + j); the *_row_
outputs must be the first n_row entries of the block result, *_col_ the remaining ones, unsuffixed = row output.
Theorem side: Props/C03.v (block denotation, stack/split addressing, decision expression, pipeline equation)."""
from .. import cases
from ..compare import compare, vec_close, partition
from ..impl import Impl

# metrics and matrix utilities are not "estimators or path/structure functions"
EXCLUDE = ('get_modularity', 'get_degrees', 'get_weights', 'normalize', 'bipartite2undirected', 'visualize_bigraph')
NO_FORCE = ()
# option values of the entry points (cycled over the repetitions)
VARIANTS = {'get_connected_components': [{}, {'connection': 'strong'}, {'connection': 'weak'}],
            'is_connected': [{}, {'connection': 'strong'}],
            'Katz': [{}, {'path_length': 2}, {'damping_factor': 0.2}],
            'Diffusion': [{}, {'n_iter': 1}, {'damping_factor': 0.9}], 'Dirichlet': [{}, {'n_iter': 1}],
            'DiffusionClassifier': [{}, {'centering': False}, {'n_iter': 2}],
            'Propagation': [{}, {'weighted': False}, {'node_order': 'increasing'}],
            'Paris': [{}, {'weights': 'uniform'}, {'reorder': False}],
            'Spectral': [{}, {'decomposition': 'laplacian'}, {'normalized': False}]}
GEN_FILES = ['Routing.v']


def split_block(out, nr, nc):
    """Outputs of the square run -> the outputs the bipartite run should show."""
    exp = {}
    for k, (tag, val) in out.items():
        if k.startswith('__') or k.endswith('_row_') or k.endswith('_col_') or k == 'aggregate_' or k == 'dendrogram_full_':
            continue
        if tag == 'dendro':
            exp['dendrogram_full_'] = [tag, val]
            continue
        if tag in ('vec', 'ivec', 'labels', 'mat', 'emb') and isinstance(val, list) and len(val) == nr + nc:
            stem = k[:-1] if k.endswith('_') else k
            exp[stem + '_row' + ('_' if k.endswith('_') else '')] = [tag, val[:nr]]
            exp[stem + '_col' + ('_' if k.endswith('_') else '')] = [tag, val[nr:]]
            exp[k] = [tag, val[:nr]]
        else:
            exp[k] = [tag, val]
    return exp


SRC_PRELUDE = '''
From Coq Require Import String.
Local Open Scope string_scope.
Definition qq (q : Q) : Z * Z := (Qnum q, Zpos (Qden q)).
Definition src_vec (r : pres (option val)) : nat * list (Z * Z) :=
  match r with
  | POk (Some (VList l)) => (0, map (fun v => match v with VNum q => qq q | VInt z => (z, 1%Z) | _ => (0%Z, 0%Z) end) l)
  | POk _ => (6, [])
  | PErr PValueError => (1, []) | PErr PIndexError => (2, []) | PErr PKeyError => (3, [])
  | PErr PTypeError => (4, []) | PErr PUnbound => (5, [])
  end.
Definition src_gv (shape : list nat) (v : Format.vals) (d : Q) :=
  src_vec (run_var src_get_values [("shape", VList (map vnat shape)); ("values", embVals v); ("default_value", VNum d)] "return").
Definition src_sv (nr nc : nat) (vr vc : Format.vals) (d : Q) :=
  src_vec (run_var src_stack_values [("shape", VList [vnat nr; vnat nc]); ("values_row", embVals vr); ("values_col", embVals vc);
                                     ("default_value", VNum d)] "return").
Definition src_av (bip : bool) (nr nc : nat) (v vr vc : Format.vals) (d : Q) :=
  src_vec (run_var src_adjacency_values_core [("bipartite", VBool bip); ("input_matrix.shape", VList [vnat nr; vnat nc]);
                                              ("values", embVals v); ("values_row", embVals vr); ("values_col", embVals vc);
                                              ("default_value", VNum d)] "values").
'''
SRC_ERR = {1: 'ValueError', 2: 'IndexError', 3: 'KeyError'}


def _cvals(x):
    from ..common import clist, cq
    if x is None:
        return 'Format.VNone'
    if 'dict' in x:
        return '(Format.VDict %s)' % clist(x['dict'], lambda e: '(%d, %s)' % (e[0], cq(e[1])))
    return '(Format.VArr %s)' % clist(x.get('array', x.get('list')), cq)


def _rand_vals(rng, n, allow_none=True):
    from fractions import Fraction
    form = rng.choice(['none', 'array', 'list', 'dict', 'dict', 'dict'] if allow_none else ['array', 'list', 'dict', 'dict'])
    val = lambda: rng.choice([0, 1, 2, 5, -1, -1, Fraction(1, 2), Fraction(3, 4), 7])
    if form == 'none':
        return None
    if form in ('array', 'list'):
        k = n if rng.random() < 0.85 else rng.choice([max(0, n - 1), n + 1])       # wrong lengths: ValueError
        return {form: [val() for _ in range(k)]}
    keys = rng.sample(range(n), rng.randint(0 if rng.random() < 0.1 else 1, n)) if n else []
    if keys and rng.random() < 0.1:
        keys[rng.randrange(len(keys))] = n + rng.randint(0, 2)                     # a key past the end: IndexError
    rng.shuffle(keys)                                                              # insertion order is not node order
    return {'dict': [[k, val()] for k in keys]}


def source_terms(ctx, impl):
    """The statements regenerated from utils/values.py and utils/format.py (Gen/PyValues.v; theorems source_*_is_model of
    Props/C03.v) run inside Coq on the seed arguments the implementation is called with: same vector, same error kind."""
    from fractions import Fraction
    from ..common import safe_coq_eval, cq, cbool
    rng = ctx.rng
    quick = ctx.tier == 'quick'
    jz = lambda x: None if x is None else {k: ([[a, float(b)] for a, b in v] if k == 'dict' else [float(t) for t in v]) for k, v in x.items()}
    cs, exprs = [], []
    for _ in range(150 if quick else 1500):
        kind = rng.choice(['get_values', 'stack_values', 'stack_values', 'adjacency_values', 'adjacency_values'])
        nr, nc = rng.randint(1, 5), rng.randint(1, 5)
        d = rng.choice([-1, 0, -1, Fraction(1, 2)])
        if kind == 'get_values':
            shape = [nr] if rng.random() < 0.5 else [nr, nc]
            v = _rand_vals(rng, nr)
            cs.append(dict(kind=kind, shape=shape, values=jz(v), default=float(d)))
            exprs.append('src_gv [%s] %s %s' % ('; '.join(str(x) for x in shape), _cvals(v), cq(d)))
        elif kind == 'stack_values':
            vr, vc = _rand_vals(rng, nr), _rand_vals(rng, nc)
            cs.append(dict(kind=kind, shape=[nr, nc], values_row=jz(vr), values_col=jz(vc), default=float(d)))
            exprs.append('src_sv %d %d %s %s %s' % (nr, nc, _cvals(vr), _cvals(vc), cq(d)))
        else:
            if rng.random() < 0.4:
                nc = nr
            which = rng.choice(['values', 'rows', 'cols', 'both', 'none'])
            v = _rand_vals(rng, nr, allow_none=False) if which == 'values' else None
            vr = _rand_vals(rng, nr, allow_none=False) if which in ('rows', 'both') else None
            vc = _rand_vals(rng, nc, allow_none=False) if which in ('cols', 'both') else None
            fb = rng.random() < 0.3
            cs.append(dict(kind=kind, shape=[nr, nc], values=jz(v), values_row=jz(vr), values_col=jz(vc), default=float(d),
                           force_bipartite=fb))
            # the decision of get_adjacency on an all-ones matrix: bipartite iff forced, or seeds on a side, or not square
            bip = fb or vr is not None or vc is not None or nr != nc
            exprs.append('src_av %s %d %d %s %s %s %s' % (cbool(bip), nr, nc, _cvals(v), _cvals(vr), _cvals(vc), cq(d)))
            cs[-1]['expect_bipartite'] = bip
    vals = safe_coq_eval(ctx, 'c03src', ['Base.Util', 'Model.Bfs', 'Model.Format', 'Model.PyImp', 'Gen.PyValues', 'Proofs.PyCutsProofs',
                                         'Proofs.PyValuesProofs'], exprs, prelude=SRC_PRELUDE, shard=100)
    if vals is None:
        return
    n_src = 0
    for c, sv in zip(cs, vals):
        r = impl.call('c03', 'values', c, timeout=30)
        ctx.traces += 1
        n_src += 1
        ctx.count('source_term:' + c['kind'], ('src', repr(sorted(c.items(), key=str))), True)
        code, vec = sv[0], [Fraction(a, b) if b else None for a, b in sv[1]]
        site = {'get_values': 'get_values', 'stack_values': 'stack_values', 'adjacency_values': 'get_adjacency_values'}[c['kind']]
        if code in (4, 5, 6):
            if len(ctx.proof_broken) < 12:
                ctx.proof_broken.append('the statements regenerated from %s do not run under the semantics of Model/PyImp.v (code %d) on %r'
                                        % (site, code, c))
            continue
        if 'ok' in r:
            got = r['ok']['values'] if isinstance(r['ok'], dict) else r['ok']
            if isinstance(r['ok'], dict) and r['ok']['bipartite'] != c['expect_bipartite']:
                continue            # the harness mis-predicted get_adjacency's decision (not the subject here)
            if code != 0 or [float(x) for x in vec] != got:
                ctx.violation(site, 'the implementation differs from the statements regenerated from its own source (run under the '
                              'semantics of Model/PyImp.v)', case=c, expected=[float(x) for x in vec] if code == 0 else SRC_ERR.get(code),
                              observed=r, defect='source_term_mismatch', entry=site, kind='source_term')
        elif 'err' in r:
            if code == 0 or SRC_ERR.get(code) != r['err']:
                ctx.violation(site, 'the implementation raises where the statements regenerated from its own source return (or raise '
                              'another error)', case=c, expected=[float(x) for x in vec] if code == 0 else SRC_ERR.get(code), observed=r,
                              defect='source_term_mismatch', entry=site, kind='source_term')
    ctx.extra['source_terms_evaluated'] = ctx.extra.get('source_terms_evaluated', 0) + n_src


def run(ctx, scratch):
    rng = ctx.rng
    quick = ctx.tier == 'quick'
    nmax = 9 if quick else 18
    reps = 24 if quick else 150
    with Impl(scratch) as impl:
        source_terms(ctx, impl)
        desc = impl.call('registry', 'describe', None, timeout=120)['ok']
        names = sorted(n for n, d in desc.items() if 'bip' in d['kinds'] and n not in EXCLUDE and d['deterministic'])
        ctx.extra['bipartite_entry_points'] = names
        for name in names:
            d = desc[name]
            for rep in range(reps):
                square = rep % 3 == 2
                spec, nr, nc, fam = cases.make_matrix(rng, 'bip', nmax, weighted=rng.random() < 0.5)
                if rep == 1 and not square and nc >= 2 and nr >= 2:
                    # once per entry point, independent of the stream: the LAST column (and the last row) of B is empty - the block
                    # adjacency still has n_row + n_col nodes (seed C03_13 inferred its size from the largest index carrying an edge)
                    kept = [e for e in spec['coo'] if e[1] < nc - 1 and e[0] < nr - 1]
                    if kept:
                        spec = dict(spec, coo=kept)
                        fam = (fam or '') + '_empty_last'
                if name == 'Spectral' and rep % 4 == 1 and not (rep % 3 == 2):
                    # a thin biadjacency (1 or 2 rows or columns): the block graph still has n_row + n_col nodes, and as many
                    # components as it would be given for as the adjacency of that graph
                    thin, wide = rng.randint(1, 2), rng.randint(4, 7)
                    E_ = sorted({(i, j) for i in range(thin) for j in range(wide) if rng.random() < 0.8} | {(0, j) for j in range(wide)})
                    if rng.random() < 0.5:
                        E_, thin, wide = sorted((j, i) for (i, j) in E_), wide, thin
                    spec = dict(shape=[thin, wide], coo=[[i, j, rng.randint(1, 3)] for (i, j) in E_], dtype='int', fmt='csr')
                    nr, nc, fam = thin, wide, 'thin'
                if square:
                    # square biadjacency: must be declared with force_bipartite (or row/column seeds)
                    m = min(nr, nc)
                    spec['coo'] = [e for e in spec['coo'] if e[0] < m and e[1] < m]
                    spec['shape'] = [m, m]
                    nr = nc = m
                    if rng.random() < 0.35:
                        # a square biadjacency that happens to be symmetric (B = B^T) is still a biadjacency once declared bipartite
                        w = {}
                        for e in spec['coo']:
                            w.setdefault((min(e[0], e[1]), max(e[0], e[1])), e[2] if len(e) > 2 else 1)
                        spec['coo'] = sorted([i, j, x] for (a_, b_), x in w.items() for (i, j) in {(a_, b_), (b_, a_)})
                        fam = (fam or '') + '_symmetric'
                    if len(spec['coo']) < 2:
                        continue
                # square cases (rep = 2, 5, 8, ...) cycle through row-only / column-only / both sides as well
                side = ['row', 'col', 'both'][(rep // 3) % 3 if square else rep % 3]
                opts = cases.make_opts(rng, d, nr, nc, True, want_side=side)
                if square:
                    if not (d['has_force'] or d['seeds'] in ('weights', 'values', 'labels', 'sources')):
                        continue      # no way to declare a square matrix bipartite for this entry point
                    # a square biadjacency is declared either by force_bipartite or, where the entry point takes per-side
                    # seeds / sources, just by giving them (source_row / values_col ... imply the bipartite treatment)
                    if not (d['seeds'] in ('weights', 'values', 'labels', 'sources') and (rep // 3) % 4 != 3):
                        opts['force_bipartite'] = True
                no_seeds = name == 'Propagation' and rep % 6 == 4
                if no_seeds:
                    # no label at all (None on every side): the documented clustering mode, in which every node starts with a label of
                    # its own - in both forms
                    opts = {k_: v_ for k_, v_ in opts.items() if k_ not in ('seeds', 'seed_side')}
                if d['seeded']:
                    opts.setdefault('params', {})['random_state'] = 3
                if name in VARIANTS:
                    opts.setdefault('params', {}).update(VARIANTS[name][rep % len(VARIANTS[name])])
                s2, o2 = cases.block_case(spec, opts)
                if name in ('DiffusionClassifier', 'PageRankClassifier', 'Propagation', 'NNClassifier'):
                    labs = set()
                    for sd in opts.get('seeds', {}).values():
                        vals = sd['dict'].values() if isinstance(sd, dict) and 'dict' in sd else ((sd.get('array') or sd.get('farray')) if isinstance(sd, dict) else sd)
                        labs |= {v for v in vals if v >= 0}
                    if len(labs) < 2 and not no_seeds:
                        continue
                a = impl.call('registry', 'run', dict(name=name, m=spec, opts=opts), timeout=60)
                b = impl.call('registry', 'run', dict(name=name, m=s2, opts=o2), timeout=60)
                ctx.traces += 2
                ctx.count(name + (':square' if square else ''), (name, spec['shape'], spec['coo'], repr(sorted(opts.items(), key=str))), True)
                if any(k in a or k in b for k in ('hang', 'crash')):
                    continue
                case = dict(name=name, B=spec, opts=opts, block=s2, block_opts=o2, family='square+force' if square else 'rect')
                if ('ok' in a) != ('ok' in b):
                    ctx.violation(name, 'biadjacency and block adjacency: one raises, the other does not', case=case, entry=name,
                                  kind='error_mismatch', bipartite=a.get('err', 'ok'), msg=(a.get('msg') or b.get('msg')), block=b.get('err', 'ok'))
                    continue
                if 'ok' not in a:
                    continue
                skip = ()
                # (margin guard decided on the block adjacency alone: it is the same graph, and a biadjacency treated as another graph
                #  must not be able to excuse itself through its own spectrum)
                if cases.degenerate(impl, name, s2, o2):
                    ctx.margin_dropped += 1
                    # the vectors are not determined by the input, but the NUMBER of components and the spectrum are: same shapes
                    # of every embedding, same eigen / singular values
                    expd = split_block(b['ok'], nr, nc)
                    for k_, (tag, val) in expd.items():
                        g_ = a['ok'].get(k_)
                        if g_ is None or tag not in ('emb', 'svals', 'mat'):
                            continue
                        shp = lambda v: (len(v), len(v[0]) if v and isinstance(v[0], list) else None)
                        if shp(val) != shp(g_[1]):
                            ctx.violation(name, 'bipartite result is not the block-adjacency result: %s has another shape' % k_, case=case,
                                          entry=name, kind='not_block_equivalent', family=case['family'], expected=list(shp(val)),
                                          observed=list(shp(g_[1])), degenerate_spectrum=True)
                        elif tag == 'svals' and not all(abs(x - y) <= 1e-6 * max(1.0, abs(x)) for x, y in zip(val, g_[1])):
                            ctx.violation(name, 'bipartite result is not the block-adjacency result: %s' % k_, case=case, entry=name,
                                          kind='not_block_equivalent', family=case['family'], expected=val, observed=g_[1],
                                          degenerate_spectrum=True)
                    continue
                exp = split_block(b['ok'], nr, nc)
                got = {k: v for k, v in a['ok'].items() if not k.startswith('__') and k != 'aggregate_'}
                if 'dendrogram_full_' in exp:
                    got = {k: v for k, v in got.items() if k == 'dendrogram_full_'}
                # get_distances / get_connected_components return row and column parts under their own names
                if name == 'get_distances':
                    dd = b['ok']['distances'][1]
                    exp = {'distances_row': ['ivec', dd[:nr]], 'distances_col': ['ivec', dd[nr:]]}
                if name == 'get_connected_components':
                    exp = {'labels': b['ok']['labels']}
                bad = compare(exp, got, rtol=1e-6, atol=1e-8, skip_tags=skip)
                bad = [(k, w) for (k, w) in bad if not (w == 'output present in only one run' and k not in got)]
                if name in ('DiffusionClassifier', 'PageRankClassifier', 'NNClassifier', 'Propagation'):
                    from .c01 import margin_ok
                    bad = [(k, w) for (k, w) in bad if not (k.startswith('labels') and k in exp and k in got and margin_ok(exp, got, k))]
                if bad:
                    ctx.violation(name, 'bipartite result is not the block-adjacency result: %s' % bad[0][0], case=case, entry=name,
                                  kind='not_block_equivalent', mismatches=bad[:4], family=case['family'],
                                  expected={k: exp.get(k) for k, _ in bad[:2]}, observed={k: got.get(k) for k, _ in bad[:2]})
                if rep == 0:
                    ctx.sample(dict(name=name, B=spec, opts=opts))
        # get_distances(B, transpose=True) is the bipartite graph of B^T (its rows are the columns of B): same result as the
        # call on the explicitly transposed matrix, whose block-adjacency treatment the loop above establishes
        if 'get_distances' in desc:
            d = desc['get_distances']
            for rep in range(reps):
                spec, nr, nc, fam = cases.make_matrix(rng, 'bip', nmax, weighted=rng.random() < 0.5)
                square = rep % 3 == 2
                if square:
                    m = min(nr, nc)
                    spec['coo'] = [e for e in spec['coo'] if e[0] < m and e[1] < m]
                    spec['shape'] = [m, m]
                    nr = nc = m
                    if rng.random() < 0.35:
                        # a square biadjacency that happens to be symmetric (B = B^T) is still a biadjacency once declared bipartite
                        w = {}
                        for e in spec['coo']:
                            w.setdefault((min(e[0], e[1]), max(e[0], e[1])), e[2] if len(e) > 2 else 1)
                        spec['coo'] = sorted([i, j, x] for (a_, b_), x in w.items() for (i, j) in {(a_, b_), (b_, a_)})
                        fam = (fam or '') + '_symmetric'
                    if len(spec['coo']) < 2:
                        continue
                optsT = cases.make_opts(rng, d, nc, nr, True, want_side=['row', 'col', 'both'][rep % 3])
                if square and rep % 2:
                    optsT['force_bipartite'] = True
                specT = dict(spec)
                specT['shape'] = [nc, nr]
                specT['coo'] = sorted([e[1], e[0]] + list(e[2:]) for e in spec['coo'])
                opts = dict(optsT)
                opts['params'] = {'transpose': True}
                a = impl.call('registry', 'run', dict(name='get_distances', m=spec, opts=opts), timeout=60)
                b = impl.call('registry', 'run', dict(name='get_distances', m=specT, opts=optsT), timeout=60)
                ctx.traces += 2
                ctx.count('get_distances:transpose', ('gdT', spec['shape'], spec['coo'], repr(sorted(optsT.items(), key=str))), True)
                case = dict(name='get_distances', B=spec, opts=opts, transposed=specT, transposed_opts=optsT,
                            family='transpose_' + ('square' if square else 'rect'))
                if any(k in a or k in b for k in ('hang', 'crash')):
                    continue
                if ('ok' in a) != ('ok' in b):
                    ctx.violation('get_distances', 'transpose=True on B and the call on B^T: one raises, the other does not', case=case,
                                  entry='get_distances', kind='error_mismatch', bipartite=a.get('err', 'ok'), block=b.get('err', 'ok'))
                    continue
                if 'ok' not in a:
                    continue
                bad = compare(b['ok'], a['ok'], rtol=0, atol=0)
                if bad:
                    ctx.violation('get_distances', 'transpose=True on a biadjacency matrix is not the result on its transpose: %s' % bad[0][0],
                                  case=case, entry='get_distances', kind='not_block_equivalent', mismatches=bad[:4], family=case['family'],
                                  expected=b['ok'], observed=a['ok'])
    ctx.rule = ('every registered estimator / path / structure function accepting bipartite input (%d) x random biadjacency matrices '
                '(rectangular; square with force_bipartite) x row-only / column-only / mixed seeds or sources in dict/array/list form; '
                'compared with the run on the block adjacency with translated seeds; distinct by (entry point, B, arguments)' % len(names))
    ctx.rule += ' Source terms: the statements regenerated from values.py / format.py are executed inside Coq on random seed arguments (None / array / list / dict in any key order, wrong lengths, keys past the end, empty dicts) and compared with direct calls of get_values / stack_values / get_adjacency_values (source_terms_evaluated).'
    ctx.assumptions = ['ARPACK-backed outputs are skipped when the spectrum (of B or of the block matrix, whose singular values come in pairs) is degenerate',
                       'metrics (get_modularity) and matrix utilities are outside the statement (estimators, path and structure functions)']

"""C03 — a biadjacency matrix is treated exactly as its bipartite block adjacency.

For every estimator / path / structure function that accepts bipartite input: fit on B (rectangular, or square with
force_bipartite) and on [[0,B],[B^T,0]] with the seeds translated (row i -> i, column j -> n_row + j); the *_row_
outputs must be the first n_row entries of the block result, *_col_ the remaining ones, unsuffixed = row output.
Theorem side: Props/C03.v (block denotation, stack/split addressing, decision expression, pipeline equation)."""
from .. import cases
from ..compare import compare, vec_close, partition
from ..impl import Impl

# metrics and matrix utilities are not "estimators or path/structure functions"
EXCLUDE = ('get_modularity', 'get_degrees', 'get_weights', 'normalize', 'bipartite2undirected', 'visualize_bigraph')
NO_FORCE = ()
# option values of the entry points (cycled over the repetitions)
VARIANTS = {'get_connected_components': [{}, {'connection': 'strong'}, {'connection': 'weak'}],
            'is_connected': [{}, {'connection': 'strong'}],
            'Katz': [{}, {'path_length': 2}, {'damping_factor': 0.2}],
            'Diffusion': [{}, {'n_iter': 1}, {'damping_factor': 0.9}], 'Dirichlet': [{}, {'n_iter': 1}],
            'DiffusionClassifier': [{}, {'centering': False}, {'n_iter': 2}],
            'Propagation': [{}, {'weighted': False}, {'node_order': 'increasing'}],
            'Paris': [{}, {'weights': 'uniform'}, {'reorder': False}],
            'Spectral': [{}, {'decomposition': 'laplacian'}, {'normalized': False}]}
GEN_FILES = ['Routing.v']


def split_block(out, nr, nc):
    """Outputs of the square run -> the outputs the bipartite run should show."""
    exp = {}
    for k, (tag, val) in out.items():
        if k.startswith('__') or k.endswith('_row_') or k.endswith('_col_') or k == 'aggregate_' or k == 'dendrogram_full_':
            continue
        if tag == 'dendro':
            exp['dendrogram_full_'] = [tag, val]
            continue
        if tag in ('vec', 'ivec', 'labels', 'mat', 'emb') and isinstance(val, list) and len(val) == nr + nc:
            stem = k[:-1] if k.endswith('_') else k
            exp[stem + '_row' + ('_' if k.endswith('_') else '')] = [tag, val[:nr]]
            exp[stem + '_col' + ('_' if k.endswith('_') else '')] = [tag, val[nr:]]
            exp[k] = [tag, val[:nr]]
        else:
            exp[k] = [tag, val]
    return exp


def run(ctx, scratch):
    rng = ctx.rng
    quick = ctx.tier == 'quick'
    nmax = 9 if quick else 18
    reps = 24 if quick else 150
    with Impl(scratch) as impl:
        desc = impl.call('registry', 'describe', None, timeout=120)['ok']
        names = sorted(n for n, d in desc.items() if 'bip' in d['kinds'] and n not in EXCLUDE and d['deterministic'])
        ctx.extra['bipartite_entry_points'] = names
        for name in names:
            d = desc[name]
            for rep in range(reps):
                square = rep % 3 == 2
                spec, nr, nc, fam = cases.make_matrix(rng, 'bip', nmax, weighted=rng.random() < 0.5)
                if name == 'Spectral' and rep % 4 == 1 and not (rep % 3 == 2):
                    # a thin biadjacency (1 or 2 rows or columns): the block graph still has n_row + n_col nodes, and as many
                    # components as it would be given for as the adjacency of that graph
                    thin, wide = rng.randint(1, 2), rng.randint(4, 7)
                    E_ = sorted({(i, j) for i in range(thin) for j in range(wide) if rng.random() < 0.8} | {(0, j) for j in range(wide)})
                    if rng.random() < 0.5:
                        E_, thin, wide = sorted((j, i) for (i, j) in E_), wide, thin
                    spec = dict(shape=[thin, wide], coo=[[i, j, rng.randint(1, 3)] for (i, j) in E_], dtype='int', fmt='csr')
                    nr, nc, fam = thin, wide, 'thin'
                if square:
                    # square biadjacency: must be declared with force_bipartite (or row/column seeds)
                    m = min(nr, nc)
                    spec['coo'] = [e for e in spec['coo'] if e[0] < m and e[1] < m]
                    spec['shape'] = [m, m]
                    nr = nc = m
                    if rng.random() < 0.35:
                        # a square biadjacency that happens to be symmetric (B = B^T) is still a biadjacency once declared bipartite
                        w = {}
                        for e in spec['coo']:
                            w.setdefault((min(e[0], e[1]), max(e[0], e[1])), e[2] if len(e) > 2 else 1)
                        spec['coo'] = sorted([i, j, x] for (a_, b_), x in w.items() for (i, j) in {(a_, b_), (b_, a_)})
                        fam = (fam or '') + '_symmetric'
                    if len(spec['coo']) < 2:
                        continue
                # square cases (rep = 2, 5, 8, ...) cycle through row-only / column-only / both sides as well
                side = ['row', 'col', 'both'][(rep // 3) % 3 if square else rep % 3]
                opts = cases.make_opts(rng, d, nr, nc, True, want_side=side)
                if square:
                    if not (d['has_force'] or d['seeds'] in ('weights', 'values', 'labels', 'sources')):
                        continue      # no way to declare a square matrix bipartite for this entry point
                    # a square biadjacency is declared either by force_bipartite or, where the entry point takes per-side
                    # seeds / sources, just by giving them (source_row / values_col ... imply the bipartite treatment)
                    if not (d['seeds'] in ('weights', 'values', 'labels', 'sources') and (rep // 3) % 4 != 3):
                        opts['force_bipartite'] = True
                no_seeds = name == 'Propagation' and rep % 6 == 4
                if no_seeds:
                    # no label at all (None on every side): the documented clustering mode, in which every node starts with a label of
                    # its own - in both forms
                    opts = {k_: v_ for k_, v_ in opts.items() if k_ not in ('seeds', 'seed_side')}
                if d['seeded']:
                    opts.setdefault('params', {})['random_state'] = 3
                if name in VARIANTS:
                    opts.setdefault('params', {}).update(VARIANTS[name][rep % len(VARIANTS[name])])
                s2, o2 = cases.block_case(spec, opts)
                if name in ('DiffusionClassifier', 'PageRankClassifier', 'Propagation', 'NNClassifier'):
                    labs = set()
                    for sd in opts.get('seeds', {}).values():
                        vals = sd['dict'].values() if isinstance(sd, dict) and 'dict' in sd else ((sd.get('array') or sd.get('farray')) if isinstance(sd, dict) else sd)
                        labs |= {v for v in vals if v >= 0}
                    if len(labs) < 2 and not no_seeds:
                        continue
                a = impl.call('registry', 'run', dict(name=name, m=spec, opts=opts), timeout=60)
                b = impl.call('registry', 'run', dict(name=name, m=s2, opts=o2), timeout=60)
                ctx.traces += 2
                ctx.count(name + (':square' if square else ''), (name, spec['shape'], spec['coo'], repr(sorted(opts.items(), key=str))), True)
                if any(k in a or k in b for k in ('hang', 'crash')):
                    continue
                case = dict(name=name, B=spec, opts=opts, block=s2, block_opts=o2, family='square+force' if square else 'rect')
                if ('ok' in a) != ('ok' in b):
                    ctx.violation(name, 'biadjacency and block adjacency: one raises, the other does not', case=case, entry=name,
                                  kind='error_mismatch', bipartite=a.get('err', 'ok'), msg=(a.get('msg') or b.get('msg')), block=b.get('err', 'ok'))
                    continue
                if 'ok' not in a:
                    continue
                skip = ()
                # (margin guard decided on the block adjacency alone: it is the same graph, and a biadjacency treated as another graph
                #  must not be able to excuse itself through its own spectrum)
                if cases.degenerate(impl, name, s2, o2):
                    ctx.margin_dropped += 1
                    # the vectors are not determined by the input, but the NUMBER of components and the spectrum are: same shapes
                    # of every embedding, same eigen / singular values
                    expd = split_block(b['ok'], nr, nc)
                    for k_, (tag, val) in expd.items():
                        g_ = a['ok'].get(k_)
                        if g_ is None or tag not in ('emb', 'svals', 'mat'):
                            continue
                        shp = lambda v: (len(v), len(v[0]) if v and isinstance(v[0], list) else None)
                        if shp(val) != shp(g_[1]):
                            ctx.violation(name, 'bipartite result is not the block-adjacency result: %s has another shape' % k_, case=case,
                                          entry=name, kind='not_block_equivalent', family=case['family'], expected=list(shp(val)),
                                          observed=list(shp(g_[1])), degenerate_spectrum=True)
                        elif tag == 'svals' and not all(abs(x - y) <= 1e-6 * max(1.0, abs(x)) for x, y in zip(val, g_[1])):
                            ctx.violation(name, 'bipartite result is not the block-adjacency result: %s' % k_, case=case, entry=name,
                                          kind='not_block_equivalent', family=case['family'], expected=val, observed=g_[1],
                                          degenerate_spectrum=True)
                    continue
                exp = split_block(b['ok'], nr, nc)
                got = {k: v for k, v in a['ok'].items() if not k.startswith('__') and k != 'aggregate_'}
                if 'dendrogram_full_' in exp:
                    got = {k: v for k, v in got.items() if k == 'dendrogram_full_'}
                # get_distances / get_connected_components return row and column parts under their own names
                if name == 'get_distances':
                    dd = b['ok']['distances'][1]
                    exp = {'distances_row': ['ivec', dd[:nr]], 'distances_col': ['ivec', dd[nr:]]}
                if name == 'get_connected_components':
                    exp = {'labels': b['ok']['labels']}
                bad = compare(exp, got, rtol=1e-6, atol=1e-8, skip_tags=skip)
                bad = [(k, w) for (k, w) in bad if not (w == 'output present in only one run' and k not in got)]
                if name in ('DiffusionClassifier', 'PageRankClassifier', 'NNClassifier', 'Propagation'):
                    from .c01 import margin_ok
                    bad = [(k, w) for (k, w) in bad if not (k.startswith('labels') and k in exp and k in got and margin_ok(exp, got, k))]
                if bad:
                    ctx.violation(name, 'bipartite result is not the block-adjacency result: %s' % bad[0][0], case=case, entry=name,
                                  kind='not_block_equivalent', mismatches=bad[:4], family=case['family'],
                                  expected={k: exp.get(k) for k, _ in bad[:2]}, observed={k: got.get(k) for k, _ in bad[:2]})
                if rep == 0:
                    ctx.sample(dict(name=name, B=spec, opts=opts))
        # get_distances(B, transpose=True) is the bipartite graph of B^T (its rows are the columns of B): same result as the
        # call on the explicitly transposed matrix, whose block-adjacency treatment the loop above establishes
        if 'get_distances' in desc:
            d = desc['get_distances']
            for rep in range(reps):
                spec, nr, nc, fam = cases.make_matrix(rng, 'bip', nmax, weighted=rng.random() < 0.5)
                square = rep % 3 == 2
                if square:
                    m = min(nr, nc)
                    spec['coo'] = [e for e in spec['coo'] if e[0] < m and e[1] < m]
                    spec['shape'] = [m, m]
                    nr = nc = m
                    if rng.random() < 0.35:
                        # a square biadjacency that happens to be symmetric (B = B^T) is still a biadjacency once declared bipartite
                        w = {}
                        for e in spec['coo']:
                            w.setdefault((min(e[0], e[1]), max(e[0], e[1])), e[2] if len(e) > 2 else 1)
                        spec['coo'] = sorted([i, j, x] for (a_, b_), x in w.items() for (i, j) in {(a_, b_), (b_, a_)})
                        fam = (fam or '') + '_symmetric'
                    if len(spec['coo']) < 2:
                        continue
                optsT = cases.make_opts(rng, d, nc, nr, True, want_side=['row', 'col', 'both'][rep % 3])
                if square and rep % 2:
                    optsT['force_bipartite'] = True
                specT = dict(spec)
                specT['shape'] = [nc, nr]
                specT['coo'] = sorted([e[1], e[0]] + list(e[2:]) for e in spec['coo'])
                opts = dict(optsT)
                opts['params'] = {'transpose': True}
                a = impl.call('registry', 'run', dict(name='get_distances', m=spec, opts=opts), timeout=60)
                b = impl.call('registry', 'run', dict(name='get_distances', m=specT, opts=optsT), timeout=60)
                ctx.traces += 2
                ctx.count('get_distances:transpose', ('gdT', spec['shape'], spec['coo'], repr(sorted(optsT.items(), key=str))), True)
                case = dict(name='get_distances', B=spec, opts=opts, transposed=specT, transposed_opts=optsT,
                            family='transpose_' + ('square' if square else 'rect'))
                if any(k in a or k in b for k in ('hang', 'crash')):
                    continue
                if ('ok' in a) != ('ok' in b):
                    ctx.violation('get_distances', 'transpose=True on B and the call on B^T: one raises, the other does not', case=case,
                                  entry='get_distances', kind='error_mismatch', bipartite=a.get('err', 'ok'), block=b.get('err', 'ok'))
                    continue
                if 'ok' not in a:
                    continue
                bad = compare(b['ok'], a['ok'], rtol=0, atol=0)
                if bad:
                    ctx.violation('get_distances', 'transpose=True on a biadjacency matrix is not the result on its transpose: %s' % bad[0][0],
                                  case=case, entry='get_distances', kind='not_block_equivalent', mismatches=bad[:4], family=case['family'],
                                  expected=b['ok'], observed=a['ok'])
    ctx.rule = ('every registered estimator / path / structure function accepting bipartite input (%d) x random biadjacency matrices '
                '(rectangular; square with force_bipartite) x row-only / column-only / mixed seeds or sources in dict/array/list form; '
                'compared with the run on the block adjacency with translated seeds; distinct by (entry point, B, arguments)' % len(names))
    ctx.assumptions = ['ARPACK-backed outputs are skipped when the spectrum (of B or of the block matrix, whose singular values come in pairs) is degenerate',
                       'metrics (get_modularity) and matrix utilities are outside the statement (estimators, path and structure functions)']

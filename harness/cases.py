"""Case construction for the registry-driven (cross-cutting) checks C01, C02, C03, C16, C17."""
from . import gen


def connected_sym(rng, nmax, nmin=5):
    n, E, fam = gen.random_graph(rng, nmax, directed=False, nmin=nmin, allow_loops=False,
                                 family=rng.choice(['gnp_dense', 'tree', 'cycle', 'clique', 'two_cliques', 'grid', 'gnp_sparse']))
    # join components through a random spanning chain
    comp = list(range(n))

    def find(x):
        while comp[x] != x:
            comp[x] = comp[comp[x]]
            x = comp[x]
        return x
    S = set(E)
    for (i, j) in E:
        comp[find(i)] = find(j)
    for v in range(1, n):
        if find(v) != find(0):
            u = rng.choice([w for w in range(n) if find(w) == find(0)])
            S.add((u, v))
            S.add((v, u))
            comp[find(v)] = find(0)
    return n, sorted(S), fam + '+conn'


def random_dendrogram(rng, n):
    """Valid dendrogram over n leaves with non-decreasing integer heights (ties allowed)."""
    live = [(i, 1) for i in range(n)]
    rows = []
    h = 1
    for t in range(n - 1):
        a = live.pop(rng.randrange(len(live)))
        b = live.pop(rng.randrange(len(live)))
        if rng.random() < 0.6:
            h += 1
        rows.append([a[0], b[0], float(h), a[1] + b[1]])
        live.append((n + t, a[1] + b[1]))
    return rows


def make_matrix(rng, kind, nmax, weighted=True, nmin=5):
    """Returns (spec, n_row, n_col, family). Symmetric kinds get symmetric weights."""
    if kind == 'bip':
        r = rng.randint(3, max(3, nmax - 2))
        c = rng.randint(3, max(3, nmax - 2))
        if c == r:      # a square matrix is an adjacency unless force_bipartite is passed: keep biadjacency cases rectangular
            c = r + 1
        E = set()
        for i in range(r):
            E.add((i, rng.randrange(c)))       # no empty row
        for j in range(c):
            E.add((rng.randrange(r), j))       # no empty column
        for i in range(r):
            for j in range(c):
                if rng.random() < 0.25:
                    E.add((i, j))
        E = sorted(E)
        W = [(i, j, rng.randint(1, 4) if weighted else 1) for (i, j) in E]
        return dict(shape=[r, c], coo=[list(e) for e in W], dtype=_storage(rng, W), fmt='csr'), r, c, 'bip'
    if kind == 'symconn':
        n, E, fam = connected_sym(rng, nmax, nmin)
        directed = False
    elif kind == 'sym':
        n, E, fam = gen.random_graph(rng, nmax, directed=False, nmin=nmin, allow_loops=False)
        if len(E) < 2:
            n, E, fam = connected_sym(rng, nmax, nmin)
        directed = False
    else:
        directed = rng.random() < 0.5
        n, E, fam = gen.random_graph(rng, nmax, directed=directed, nmin=nmin, allow_loops=False)
        if len(E) < 2:
            n, E, fam = connected_sym(rng, nmax, nmin)
            directed = False
    if kind in ('sq', 'sym') and rng.random() < 0.2:
        E = sorted(set(E) | {(v, v) for v in rng.sample(range(n), rng.randint(1, 2))})
        fam += '+loops'
    if weighted:
        W, _ = gen.random_weights(rng, E, directed=directed, kind=rng.choice(['unit', 'small_int']))
    else:
        W = [(i, j, 1) for (i, j) in E]
    return dict(shape=[n, n], coo=[list(e) for e in W], dtype=_storage(rng, W), fmt='csr'), n, n, fam + ('_dir' if directed else '_sym')


def _storage(rng, W=()):
    """storage type of the generated matrix: the weights are integers 1..5, exact in each of these (narrow integer types are what
    loaders and `astype` calls leave behind; sums of two weights still fit, so a type-preserving A + A.T is not yet at risk here);
    an unweighted graph is stored as bool a quarter of the time, as the loaders of the library return it"""
    if W and all(e[2] == 1 for e in W) and rng.random() < 0.25:
        return 'bool'
    return rng.choice(['int'] * 8 + ['int32', 'uint8', 'int8', 'float'])


def seed_form(rng, d, n, default):
    """d: {node: value}. Returns one of the documented forms: dict / array / list."""
    form = rng.choice(['dict', 'array', 'list', 'farray'])
    # "negative values are ignored": any negative marker stands for "no seed", not only -1 (seed C17_4 needed -2 / -5)
    marks = [default, default, -2, -5] if default is not None and default < 0 else [default]
    if form == 'farray':     # a float64 ndarray: the form an implementation is most tempted to use without copying
        return {'farray': [float(d[i]) if i in d else float(rng.choice(marks)) for i in range(n)]}
    if form == 'dict':
        out = {str(k): v for k, v in d.items()}
        # a dict may also LIST nodes without a seed, marked by a negative value ("negative values are ignored"): the caller's
        # dict must come back with these entries, and they must count as absent (seed C01_11 popped them from the caller's dict)
        if default is not None and default < 0 and rng.random() < 0.4:
            for i in rng.sample(range(n), min(n, 2)):
                if i not in d:
                    out[str(i)] = rng.choice(marks)
            out = dict(sorted(out.items(), key=lambda kv: rng.random()))
        return {'dict': out}
    arr = [d[i] if i in d else rng.choice(marks) for i in range(n)]
    return {'array': arr} if form == 'array' else arr


def make_opts(rng, desc, n_row, n_col, bip, want_side=None):
    """Per-node arguments for an algorithm. For bipartite input seeds are given on rows and/or columns."""
    kind = desc['seeds']
    opts = {}
    if kind in ('weights', 'values', 'labels'):
        def draw(n, need_two=False):
            k = rng.randint(2 if n >= 2 else 1, max(2, min(4, n)))
            nodes = rng.sample(range(n), min(k, n))
            if kind == 'weights':
                return {v: rng.randint(1, 3) for v in nodes}, 0
            if kind == 'values':
                return {v: rng.choice([0, 1, 2, 5]) for v in nodes}, -1
            labs = {v: i % 2 for i, v in enumerate(nodes)}
            if len(nodes) > 2 and rng.random() < 0.4:
                labs[nodes[2]] = 2
            return labs, -1
        if bip:
            side = want_side or rng.choice(['row', 'col', 'both'])
            s = {}
            if side in ('row', 'both'):
                d, default = draw(n_row)
                s['row'] = seed_form(rng, d, n_row, default)
            if side in ('col', 'both'):
                d, default = draw(n_col)
                s['col'] = seed_form(rng, d, n_col, default)
            if kind == 'labels' and side != 'both':
                # at least two classes overall are needed: ensure it on the chosen side
                pass
            opts['seeds'] = s
            opts['seed_side'] = side
        else:
            d, default = draw(n_row)
            opts['seeds'] = {'all': seed_form(rng, d, n_row, default)}
    elif kind == 'sources':
        if bip:
            side = want_side or rng.choice(['row', 'col', 'both'])
            s = {}
            if side in ('row', 'both'):
                s['source_row'] = sorted(rng.sample(range(n_row), rng.randint(1, min(2, n_row))))
            if side in ('col', 'both'):
                s['source_col'] = sorted(rng.sample(range(n_col), rng.randint(1, min(2, n_col))))
            opts['sources'] = s
        else:
            opts['sources'] = {'source': sorted(rng.sample(range(n_row), rng.randint(1, min(3, n_row))))}
    elif kind == 'source1':
        opts['sources'] = {'source': rng.randrange(n_row)}
    elif kind == 'partition':
        if bip:
            opts['labels'] = {'row': [rng.randrange(3) for _ in range(n_row)], 'col': [rng.randrange(3) for _ in range(n_col)]}
        else:
            opts['labels'] = [rng.randrange(3) for _ in range(n_row)]
    elif kind == 'dendrogram':
        opts['dendrogram'] = random_dendrogram(rng, n_row)
    elif kind == 'pos_init':
        opts['pos_init'] = [[rng.uniform(-1, 1), rng.uniform(-1, 1)] for _ in range(n_row)]
    elif kind == 'position':
        opts['position'] = [[rng.randint(0, 50) + 0.5 * i, rng.randint(0, 50)] for i in range(n_row)]
    return opts


def pick_kind(rng, desc, allow_bip=True):
    kinds = [k for k in desc['kinds'] if allow_bip or k != 'bip']
    return rng.choice(kinds)


ARPACK = {'Spectral': 'Spectral', 'SVD': 'SVD', 'GSVD': 'GSVD', 'PCA': 'PCA', 'HITS': 'SVD', 'Spring': 'Spectral',
          'NNClassifier': 'GSVD', 'NNLinker': 'GSVD'}


def degenerate(impl, name, spec, opts, k=2):
    """True when the spectrum the ARPACK-backed algorithm relies on has a (near-)tie among its first k+1 values or a
    (near-)zero value among the first k: the returned vectors are then not determined by the input (margin guard).
    Decided by running the estimator itself with one more component."""
    base = name.split('[')[0]
    if base not in ARPACK:
        return False
    probe = ARPACK[base]
    kk = 1 if base == 'HITS' else k
    if base in ('NNClassifier', 'NNLinker'):
        kk = 10
    o = {'params': {'n_components': kk + 1}}
    if opts.get('force_bipartite'):
        o['force_bipartite'] = True
    r = impl.call('registry', 'run', dict(name=probe, m=spec, opts=o), timeout=60)
    if 'ok' not in r:
        return True
    sv = r['ok'].get('singular_values_') or r['ok'].get('eigenvalues_')
    if not sv:
        return True
    vals = [abs(x) for x in sv[1]]
    if len(vals) < kk + 1:
        return True
    scale = max(vals) or 1.0
    if probe == 'Spectral':
        # the trivial pair is dropped, so the remaining eigenvalues (all in [-1, 1]) may ALL be ~0 (stars, complete
        # bipartite graphs): ties must be judged on the absolute scale of the spectrum, not relative to themselves
        scale = max(scale, 1.0)
    for a, b in zip(vals, vals[1:]):
        if abs(a - b) <= 1e-4 * scale:
            return True
    if probe != 'Spectral' and min(vals[:kk]) <= 1e-6 * scale:
        return True
    # a row whose un-normalised embedding is numerically null (the centre of a symmetric grid, say) is turned into an
    # arbitrary unit vector by the default normalisation: its direction is rounding noise, not a function of the input
    if (opts.get('params') or {}).get('normalized', True):
        o2 = dict(o)
        o2['params'] = {'n_components': kk, 'normalized': False}
        r2 = impl.call('registry', 'run', dict(name=probe, m=spec, opts=o2), timeout=60)
        if 'ok' not in r2:
            return True
        for key in ('embedding_', 'embedding_row_', 'embedding_col_'):
            e = r2['ok'].get(key)
            if not e or not isinstance(e[1], list) or not e[1] or not isinstance(e[1][0], list):
                continue
            norms = [sum(x * x for x in row) ** 0.5 for row in e[1]]
            top = max(norms) if norms else 0.0
            if top > 0 and any(0 < nn <= 1e-7 * top for nn in norms):
                return True
    return False


# ---------------------------------------------------------------------------------------------
# renumbering a case (C02) and translating a bipartite case to its block adjacency (C03)
def _perm_seed(x, p):
    if x is None:
        return None
    if isinstance(x, dict) and 'dict' in x:
        return {'dict': {str(p[int(k)]): v for k, v in x['dict'].items()}}
    key = 'farray' if isinstance(x, dict) and 'farray' in x else 'array'
    arr = x[key] if isinstance(x, dict) else x
    out = [None] * len(arr)
    for i, v in enumerate(arr):
        out[p[i]] = v
    return {key: out} if isinstance(x, dict) else out


def permute_case(spec, opts, pr, pc=None):
    """Node i becomes pr[i] (rows) / pc[j] (columns; pc=None for a square matrix renumbered by pr on both sides)."""
    import copy
    square = pc is None
    pc_ = pr if square else pc
    s2 = copy.deepcopy(spec)
    s2['coo'] = sorted([pr[e[0]], pc_[e[1]]] + list(e[2:]) for e in spec['coo'])
    o2 = copy.deepcopy(opts)
    if 'seeds' in opts:
        sd = {}
        for k, v in opts['seeds'].items():
            sd[k] = _perm_seed(v, pc_ if k == 'col' else pr)
        o2['seeds'] = sd
    if 'sources' in opts:
        sc = {}
        for k, v in opts['sources'].items():
            q = pc_ if k == 'source_col' else pr
            sc[k] = q[v] if isinstance(v, int) else sorted(q[x] for x in v)
        o2['sources'] = sc
    if 'labels' in opts:
        if isinstance(opts['labels'], dict):
            o2['labels'] = {'row': _perm_seed(opts['labels']['row'], pr), 'col': _perm_seed(opts['labels']['col'], pc_)}
        else:
            o2['labels'] = _perm_seed(opts['labels'], pr)
    for key in ('position', 'pos_init', 'order'):
        if opts.get(key) is not None:
            o2[key] = _perm_seed(opts[key], pr)
    if 'dendrogram' in opts:
        n = spec['shape'][0]
        o2['dendrogram'] = [[pr[int(r[0])] if r[0] < n else r[0], pr[int(r[1])] if r[1] < n else r[1], r[2], r[3]]
                            for r in opts['dendrogram']]
    return s2, o2


def block_case(spec, opts):
    """Biadjacency B (n_row x n_col) -> undirected block adjacency [[0,B],[B^T,0]] with rows first; row seeds keep
    their index, column seeds move to n_row + j; defaults where nothing was given."""
    import copy
    nr, nc = spec['shape']
    n = nr + nc
    coo = []
    for e in spec['coo']:
        coo.append([e[0], nr + e[1]] + list(e[2:]))
        coo.append([nr + e[1], e[0]] + list(e[2:]))
    s2 = dict(spec)
    s2['shape'] = [n, n]
    s2['coo'] = sorted(coo)
    o2 = copy.deepcopy(opts)
    o2.pop('force_bipartite', None)
    o2.pop('seed_side', None)
    if 'seeds' in opts:
        d = {}
        for side, off in (('row', 0), ('col', nr)):
            x = opts['seeds'].get(side)
            if x is None:
                continue
            if isinstance(x, dict) and 'dict' in x:
                for k, v in x['dict'].items():
                    d[str(off + int(k))] = v
            else:
                arr = (x.get('array') or x.get('farray')) if isinstance(x, dict) else x
                for i, v in enumerate(arr):
                    d[str(off + i)] = v
        o2['seeds'] = {'all': {'dict': d}}
    if 'sources' in opts:
        src = []
        for k, off in (('source', 0), ('source_row', 0), ('source_col', nr)):
            v = opts['sources'].get(k)
            if v is None:
                continue
            src += [off + v] if isinstance(v, int) else [off + x for x in v]
        o2['sources'] = {'source': sorted(src)}
    if isinstance(opts.get('labels'), dict):
        o2['labels'] = list(opts['labels']['row']) + list(opts['labels']['col'])
    return s2, o2


def gnn_opts(rng, n):
    """GNNClassifier: fixed feature dimension (3) and three classes so that a fit history keeps compatible shapes."""
    lab = [-1] * n
    nodes = rng.sample(range(n), min(n, max(3, n // 2)))
    for i, v in enumerate(nodes):
        lab[v] = i % 3
    return {'seeds': {'all': {'array': lab}}, 'features': [[rng.randint(0, 3) for _ in range(3)] for _ in range(n)],
            'params': {'random_state': 5}}

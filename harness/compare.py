"""Comparison of tagged outputs (see workers/registry.py) modulo permutations, signs and tolerances."""
import math
import re
import xml.etree.ElementTree as ET


def close(a, b, rtol=1e-7, atol=1e-9):
    if a is None or b is None:
        return a is b
    if isinstance(a, float) and isinstance(b, float):
        if math.isnan(a) and math.isnan(b):
            return True
        if math.isinf(a) or math.isinf(b):
            return a == b
    return abs(a - b) <= atol + rtol * max(abs(a), abs(b))


def vec_close(a, b, rtol=1e-7, atol=1e-9):
    return len(a) == len(b) and all(close(x, y, rtol, atol) for x, y in zip(a, b))


def partition(labels):
    groups = {}
    for i, l in enumerate(labels):
        groups.setdefault(l, []).append(i)
    return sorted(tuple(g) for g in groups.values())


def unperm(vec, p):
    """vec is indexed by the nodes of pG (node i of G is p[i] in pG): return it indexed by the nodes of G."""
    if len(vec) != len(p):
        return vec      # not a per-node output of this side (e.g. empty column outputs): compared as is
    return [vec[p[i]] for i in range(len(p))]


def emb_close(a, b, rtol, atol):
    """rows x columns; each column defined up to a sign."""
    if len(a) != len(b):
        return False
    if not a:
        return True
    k = len(a[0])
    if any(len(r) != k for r in a) or any(len(r) != k for r in b):
        return False
    for c in range(k):
        ca = [r[c] for r in a]
        cb = [r[c] for r in b]
        if not (vec_close(ca, cb, rtol, atol) or vec_close(ca, [-x for x in cb], rtol, atol)):
            return False
    return True


_NUM = re.compile(r'-?\d+\.?\d*(?:[eE][-+]?\d+)?')


def svg_skeleton(s):
    """Element structure with numeric attribute values rounded (an int weight prints as 1, a float one as 1.0)."""
    root = ET.fromstring(s)
    out = []

    def norm(v):
        return _NUM.sub(lambda m: '%.6g' % float(m.group(0)), v)
    for el in root.iter():
        out.append((el.tag, tuple(sorted((k, norm(v)) for k, v in el.attrib.items())), (el.text or '').strip()))
    return out


def _pick(perm, key):
    """perm may be a list (one permutation for every output) or a dict with 'row', 'col', 'all' (bipartite input:
    *_row_/unsuffixed outputs follow the row permutation, *_col_ the column one, block-level outputs the combined one)."""
    if perm is None or isinstance(perm, list):
        return perm
    if key.endswith('_col_') or key.endswith('_col'):
        return perm['col']
    if key in perm.get('block_keys', ()):
        return perm['all']
    return perm['row']


def compare(out1, out2, perm=None, rtol=1e-7, atol=1e-9, skip_tags=()):
    """out: name -> [tag, value]. Returns list of (name, reason). With perm, out2 was computed on pG and out1 on G."""
    bad = []
    keys = set(out1) | set(out2)
    perm_arg = perm
    for k in sorted(keys):
        perm = _pick(perm_arg, k)
        if k.startswith('__'):
            continue
        if k not in out1 or k not in out2:
            bad.append((k, 'output present in only one run'))
            continue
        t, a = out1[k]
        t2, b = out2[k]
        if t != t2:
            bad.append((k, 'tags differ'))
            continue
        if t in skip_tags:
            continue
        try:
            if t == 'vec':
                bb = unperm(b, perm) if perm else b
                ok = vec_close(a, bb, rtol, atol)
            elif t == 'ivec':
                bb = unperm(b, perm) if perm else b
                ok = list(a) == list(bb)
            elif t == 'labels':
                bb = unperm(b, perm) if perm else b
                ok = partition(a) == partition(bb)
            elif t == 'scalar':
                ok = close(a, b, rtol, atol)
            elif t in ('iscalar', 'raw'):
                ok = a == b
            elif t == 'edges':
                ea = {tuple(e) for e in a}
                eb = {tuple(e) for e in b}
                if perm:
                    ea = {(perm[i], perm[j]) for (i, j) in ea}
                ok = ea == eb
            elif t == 'mat':
                bb = unperm(b, perm) if perm else b
                ok = len(a) == len(bb) and all(vec_close(x, y, rtol, atol) for x, y in zip(a, bb))
            elif t == 'emb':
                bb = unperm(b, perm) if perm else b
                ok = emb_close(a, bb, max(rtol, 1e-6), max(atol, 1e-7))
            elif t == 'svals':
                ok = vec_close(a, b, max(rtol, 1e-6), max(atol, 1e-8))
            elif t == 'dendro':
                ok = len(a) == len(b) and all(vec_close(x, y, max(rtol, 1e-6), atol) for x, y in zip(a, b))
            elif t == 'svg':
                ok = svg_skeleton(a) == svg_skeleton(b)
            else:
                ok = a == b
        except Exception as e:  # malformed output is a mismatch, not a harness crash
            ok = False
            bad.append((k, 'comparison failed: %r' % (e,)))
            continue
        if not ok:
            bad.append((k, 'values differ (%s)' % t))
    return bad

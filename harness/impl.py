"""Supervised execution of the real implementation (scratch build of /repo) in worker processes."""
import json
import os
import select
import signal
import subprocess

from .build import impl_env, PY

HERE = os.path.dirname(os.path.abspath(__file__))


class Impl:
    def __init__(self, scratch, threads=1, extra_env=None):
        self.scratch = scratch
        self.threads = threads
        self.extra_env = extra_env
        self.p = None
        self.calls = 0
        self.hangs = 0
        self.crashes = 0

    def _start(self):
        self.p = subprocess.Popen([PY, '-u', os.path.join(HERE, 'impl_worker.py')], stdin=subprocess.PIPE,
                                  stdout=subprocess.PIPE, stderr=subprocess.DEVNULL, cwd=self.scratch,
                                  env=impl_env(self.scratch, self.threads, self.extra_env), bufsize=0)
        self.buf = b''

    def _cpu(self):
        """CPU seconds (user + system, all threads) consumed so far by the worker process."""
        try:
            with open('/proc/%d/stat' % self.p.pid) as f:
                fields = f.read().rsplit(')', 1)[1].split()
            return (int(fields[11]) + int(fields[12])) / float(os.sysconf('SC_CLK_TCK'))
        except (OSError, IndexError, ValueError, AttributeError):
            return 0.0

    def close(self):
        if self.p is not None:
            try:
                self.p.kill()
                self.p.wait()
            except OSError:
                pass
            self.p = None

    def call(self, mod, fn, args, timeout=20.0):
        """Returns {'ok': value} | {'err': kind, 'msg': ...} | {'hang': True} | {'crash': code}."""
        if self.p is None or self.p.poll() is not None:
            self._start()
        self.calls += 1
        try:
            self.p.stdin.write((json.dumps({'mod': mod, 'fn': fn, 'args': args}) + '\n').encode())
            self.p.stdin.flush()
        except (BrokenPipeError, OSError):
            rc = self.p.wait()
            self.p = None
            self.crashes += 1
            return {'crash': rc}
        fd = self.p.stdout.fileno()
        import time
        t0 = time.time()
        cpu0 = self._cpu()
        deadline = t0 + timeout
        while b'\n' not in self.buf:
            left = deadline - time.time()
            if left <= 0:
                # A hang is decided on the CPU time the worker actually received, not on wall time alone: on a loaded
                # machine (twenty checks and their Coq builds side by side) a call that was merely starved must not be
                # reported as non-termination.  Wall time is still capped (15 x the budget).
                used = self._cpu() - cpu0
                if used < 0.7 * timeout and time.time() - t0 < 15 * timeout:
                    deadline = time.time() + max(1.0, 0.7 * timeout - used)
                    self.starved = getattr(self, 'starved', 0) + 1
                    continue
                self.hangs += 1
                self.close()
                return {'hang': True}
            r, _, _ = select.select([fd], [], [], min(left, 1.0))
            if r:
                chunk = os.read(fd, 1 << 16)
                if not chunk:
                    rc = self.p.wait()
                    self.p = None
                    self.crashes += 1
                    return {'crash': rc}
                self.buf += chunk
        line, self.buf = self.buf.split(b'\n', 1)
        return json.loads(line)

    def __enter__(self):
        return self

    def __exit__(self, *a):
        self.close()

"""Scratch build of /repo's current working tree (sources only), outside /repo and /verif.

The compiled modules in /repo are git-ignored and stale with respect to edited .pyx files,
so every check imports the implementation from a scratch copy built here.
A content-addressed cache of compiled extension modules (key: sha256 of the .pyx text, of all
.pxd texts in the tree, of the compile flags and of the variant) is an optimisation only.
"""
import ast
import atexit
import hashlib
import os
import re
import shutil
import subprocess
import sys
import tempfile

REPO = os.environ.get('VERIF_REPO', '/repo')
PY = '/venv/bin/python'
SCRATCH_ROOT = os.environ.get('VERIF_SCRATCH', '/var/tmp')
CACHE = os.environ.get('VERIF_BUILD_CACHE', os.path.join(SCRATCH_ROOT, 'sknverif-cache'))
CACHE_MAX = 120

_SETUP = r'''
import sys, numpy
from setuptools import setup, Extension
from Cython.Build import cythonize
mods = %(mods)r
exts = [Extension(name=m, sources=[p], include_dirs=[numpy.get_include()],
                  extra_compile_args=%(cargs)r, extra_link_args=%(largs)r) for m, p in mods]
setup(name='sknverif_scratch', ext_modules=cythonize(exts, nthreads=8, quiet=True), script_args=['build_ext', '--inplace', '-j', '16'])
'''


def _flags_from_setup():
    """Read EXTRA_COMPILE_ARGS / EXTRA_LINK_ARGS (first assignment = linux branch) from /repo/setup.py."""
    cargs, largs = ['-fopenmp'], ['-fopenmp']
    try:
        tree = ast.parse(open(os.path.join(REPO, 'setup.py')).read())
        seen = set()
        for node in tree.body:
            if isinstance(node, ast.Assign) and len(node.targets) == 1 and isinstance(node.targets[0], ast.Name):
                name = node.targets[0].id
                if name in ('EXTRA_COMPILE_ARGS', 'EXTRA_LINK_ARGS') and name not in seen:
                    seen.add(name)
                    val = ast.literal_eval(node.value)
                    if name == 'EXTRA_COMPILE_ARGS':
                        cargs = list(val)
                    else:
                        largs = list(val)
    except Exception:
        pass
    return cargs, largs


def _sha(*parts):
    h = hashlib.sha256()
    for p in parts:
        h.update(p if isinstance(p, bytes) else p.encode())
        h.update(b'\0')
    return h.hexdigest()


def _prune_cache():
    try:
        ents = [os.path.join(CACHE, e) for e in os.listdir(CACHE)]
        ents.sort(key=lambda p: os.path.getmtime(p))
        for p in ents[:-CACHE_MAX]:
            os.remove(p)
    except OSError:
        pass


def _sweep_stale():
    """Remove scratch trees left behind by checks that were killed (their owner process is gone)."""
    try:
        names = os.listdir(SCRATCH_ROOT)
    except OSError:
        return
    for name in names:
        d = os.path.join(SCRATCH_ROOT, name)
        if not (name.startswith('sknverif-normal-') or name.startswith('sknverif-checked-')):
            continue
        try:
            pid = int(open(os.path.join(d, '.owner')).read().strip())
        except (OSError, ValueError):
            continue
        if not os.path.exists('/proc/%d' % pid):
            shutil.rmtree(d, True)


def build_impl(variant='normal', keep=False):
    """Copy /repo/sknetwork (sources only) to scratch, build the extension modules, return the scratch dir.

    variant 'normal': the repository's own flags.
    variant 'checked': every boundscheck(False)/wraparound(False) flipped to True, -O1 -D_GLIBCXX_ASSERTIONS.
    """
    _sweep_stale()
    scratch = tempfile.mkdtemp(prefix='sknverif-%s-' % variant, dir=SCRATCH_ROOT)
    if not keep:
        with open(os.path.join(scratch, '.owner'), 'w') as fh:
            fh.write(str(os.getpid()))
        atexit.register(shutil.rmtree, scratch, True)
    src = os.path.join(REPO, 'sknetwork')
    dst = os.path.join(scratch, 'sknetwork')
    shutil.copytree(src, dst, ignore=shutil.ignore_patterns('*.so', '*.cpp', '*.c', '*.html', '__pycache__', '*.pyc'))
    cargs, largs = _flags_from_setup()
    if variant == 'checked':
        cargs = cargs + ['-O1', '-D_GLIBCXX_ASSERTIONS']
    pyx, pxd = [], []
    for root, _, files in os.walk(dst):
        for f in files:
            p = os.path.join(root, f)
            if f.endswith('.pyx'):
                pyx.append(p)
            elif f.endswith('.pxd'):
                pxd.append(p)
    pyx.sort()
    pxd.sort()
    if variant == 'checked':
        for p in pyx:
            s = open(p).read()
            s2 = re.sub(r'boundscheck\(False\)', 'boundscheck(True)', s)
            s2 = re.sub(r'wraparound\(False\)', 'wraparound(True)', s2)
            if s2 != s:
                open(p, 'w').write(s2)
    pxd_text = ''.join(open(p).read() for p in pxd)
    os.makedirs(CACHE, exist_ok=True)
    todo = []
    keys = {}
    pyver = 'cp%d%d' % sys.version_info[:2]
    for p in pyx:
        rel = os.path.relpath(p, scratch)
        mod = rel[:-4].replace(os.sep, '.')
        key = _sha(variant, rel, open(p).read(), pxd_text, repr(cargs), repr(largs), pyver)
        keys[p] = key
        cached = os.path.join(CACHE, key + '.so')
        so = p[:-4] + '.cpython-312-x86_64-linux-gnu.so'
        if os.path.exists(cached):
            shutil.copy2(cached, so)
            os.utime(cached)
        else:
            todo.append((mod, rel, p, so))
    log = ''
    if todo:
        setup_py = os.path.join(scratch, '_verif_setup.py')
        open(setup_py, 'w').write(_SETUP % dict(mods=[(m, r) for m, r, _, _ in todo], cargs=cargs, largs=largs))
        env = dict(os.environ)
        env.pop('PYTHONPATH', None)
        r = subprocess.run([PY, setup_py], cwd=scratch, env=env, stdout=subprocess.PIPE, stderr=subprocess.STDOUT, text=True)
        log = r.stdout
        missing = [m for m, _, _, so in todo if not os.path.exists(so)]
        if r.returncode != 0 or missing:
            raise BuildError('scratch build of /repo failed (%s): %s' % (','.join(missing), log[-3000:]))
        for _, _, p, so in todo:
            try:
                tmp = os.path.join(CACHE, keys[p] + '.so.tmp%d' % os.getpid())
                shutil.copy2(so, tmp)
                os.replace(tmp, os.path.join(CACHE, keys[p] + '.so'))
            except OSError:
                pass
        shutil.rmtree(os.path.join(scratch, 'build'), True)
        _prune_cache()
    return scratch


class BuildError(Exception):
    pass


def impl_env(scratch, threads=1, extra=None):
    env = dict(os.environ)
    env['PYTHONPATH'] = scratch
    env['PYTHONHASHSEED'] = '0'
    env['OMP_NUM_THREADS'] = str(threads)
    env['SKNETWORK_VERIF'] = '1'
    env['PYTHONDONTWRITEBYTECODE'] = '1'
    env['MPLBACKEND'] = 'Agg'
    if extra:
        env.update(extra)
    return env


if __name__ == '__main__':
    import time
    t = time.time()
    d = build_impl(sys.argv[1] if len(sys.argv) > 1 else 'normal', keep=True)
    print(d, round(time.time() - t, 1))

"""C16 workers: fit history seen on the WHOLE estimator object (every attribute of __dict__, not only the registered
outputs), seeded runs of the estimators that draw from the global NumPy generator, and the GNN validation-split refit."""
import numpy as np
from scipy import sparse

from . import registry
from .util import mk_matrix


def _seed(np_seed):
    if np_seed is not None:
        np.random.seed(int(np_seed))


def run_seeded(args):
    """registry.run with the global NumPy generator seeded first (estimators without a seed parameter)."""
    _seed(args.get('np_seed'))
    return registry.run(args)


def _history(name, steps, np_seed):
    """Fit the steps on ONE estimator; returns (estimator, outputs of the last step)."""
    a = registry.ALGOS[name]
    holder = {}
    res = None
    for step in steps:
        m = mk_matrix(step['m'])
        opts = dict(step.get('opts', {}))
        opts['__holder__'] = holder
        _seed(np_seed)
        try:
            res = a['run'](m, opts)
        except Exception:
            if step is steps[-1]:
                raise
    return holder.get('est'), res


def run_seq_seeded(args):
    """registry.run_seq with the global NumPy generator seeded before every fit."""
    _, res = _history(args['name'], args['steps'], args.get('np_seed'))
    return {k: [t, v] for k, (t, v) in res.items()}


def _shape(v, depth=0):
    """Structure of an attribute value: None-ness, type, shape / length, booleans exactly. No float is compared here."""
    if v is None:
        return None
    if isinstance(v, (bool, np.bool_)):
        return ['bool', bool(v)]
    if isinstance(v, np.ndarray):
        return ['ndarray', list(v.shape), v.dtype.kind]
    if sparse.issparse(v):
        return ['sparse', type(v).__name__, list(v.shape)]
    if isinstance(v, (list, tuple)):
        return [type(v).__name__, len(v)] + ([[_shape(x, depth + 1) for x in v]] if depth < 2 and len(v) <= 8 else [])
    if isinstance(v, dict):
        return [type(v).__name__, sorted(str(k) for k in v)]
    if isinstance(v, str):
        return ['str']
    return [type(v).__name__]


def state_probe(args):
    """{'name', 'steps', 'np_seed'}: the estimator after the whole history vs a fresh estimator fitted on the last step only.
    Returns the attributes whose structure differs: [attr, 'presence' | 'none' | 'type' | 'shape', detail]."""
    name, steps, np_seed = args['name'], args['steps'], args.get('np_seed')
    out = {'diff': [], 'fresh_err': None, 'hist_err': None}
    try:
        fresh, _ = _history(name, steps[-1:], np_seed)
    except Exception as e:      # noqa
        out['fresh_err'] = type(e).__name__
        fresh = None
    try:
        hist, _ = _history(name, steps, np_seed)
    except Exception as e:      # noqa
        out['hist_err'] = type(e).__name__
        hist = None
    if fresh is None or hist is None:
        return out
    df, dh = fresh.__dict__, hist.__dict__
    out['attrs'] = sorted(df)
    for k in sorted(set(df) | set(dh)):
        if k not in df or k not in dh:
            out['diff'].append([k, 'presence', 'only after the history' if k in dh else 'only on the fresh estimator'])
            continue
        a, b = _shape(df[k]), _shape(dh[k])
        if a != b:
            if a is None or b is None:
                what = 'none'          # set on one side only
            elif a[0] != b[0]:
                what = 'type'
            else:
                what = 'shape'         # same kind of value, another shape / length / boolean
            out['diff'].append([k, what, 'fresh %r / refit %r' % (a, b)])
    return out


def gnn_validation(args):
    """GNNClassifier fitted with a validation split on (m0, ...) and refitted from scratch (reinit=True) on (m, ...) vs a
    fresh classifier fitted on (m, ...): masks, labels, embedding and loss history must coincide."""
    from sknetwork.gnn import GNNClassifier

    def data(m, o):
        adj = mk_matrix(m)
        return adj, np.array(o['features'], dtype=float), np.array(o['labels'], dtype=int)

    def mk():
        return GNNClassifier(dims=[4, 3], verbose=False)
    adj0, f0, l0 = data(args['m0'], args['o0'])
    adj, f, lab = data(args['m'], args['o'])
    kw = dict(n_epochs=args.get('n_epochs', 8), validation=args['validation'], random_state=args['rs'])
    fresh = mk()
    fresh.fit(adj, f.copy(), lab.copy(), **kw)
    hist = mk()
    hist.fit(adj0, f0, l0, n_epochs=args.get('n_epochs', 8), validation=args['validation0'], random_state=args['rs0'])
    out = {'diff': [], 'hist_err': None}
    try:
        hist.fit(adj, f.copy(), lab.copy(), reinit=True, **kw)
    except Exception as e:      # noqa
        out['hist_err'] = '%s: %s' % (type(e).__name__, str(e)[:200])
        return out
    for k in ('val_mask', 'train_mask', 'labels_'):
        a, b = getattr(fresh, k), getattr(hist, k)
        if (a is None) != (b is None) or (a is not None and not np.array_equal(np.asarray(a), np.asarray(b))):
            out['diff'].append([k, 'value', 'fresh %s / refit %s' % (None if a is None else np.asarray(a).astype(int).tolist(),
                                                                    None if b is None else np.asarray(b).astype(int).tolist())])
    a, b = np.asarray(fresh.embedding_, dtype=float), np.asarray(hist.embedding_, dtype=float)
    if a.shape != b.shape or not np.allclose(a, b, rtol=1e-9, atol=1e-12):
        out['diff'].append(['embedding_', 'value', 'max abs difference %r' % (float(np.abs(a - b).max()) if a.shape == b.shape else 'shape')])
    la, lb = list(fresh.history_.get('loss', [])), list(hist.history_.get('loss', []))
    if len(la) != len(lb) or not np.allclose(la, lb, rtol=1e-9, atol=1e-12):
        out['diff'].append(['history_', 'value', 'loss history %d / %d entries' % (len(la), len(lb))])
    return out


def toy(a):
    """COO triples of a toy (bi)graph of sknetwork.data (used as a fixed, structure-rich input)."""
    from sknetwork import data
    m = sparse.coo_matrix(getattr(data, a['name'])())
    return {'shape': list(m.shape), 'coo': [[int(i), int(j), float(v)] for i, j, v in zip(m.row, m.col, m.data)]}


def _slow_pagerank():
    """A PageRank that computes exactly what PageRank computes and then idles for a moment before returning from fit: only the
    schedule changes (a class of this module, so that a pool of processes can pickle it)."""
    from sknetwork.ranking import PageRank
    global SlowPageRank
    if 'SlowPageRank' not in globals():
        import time

        class SlowPageRank(PageRank):
            def fit(self, *args, **kwargs):
                r = super(SlowPageRank, self).fit(*args, **kwargs)
                time.sleep(0.003 + 0.004 * (float(np.sum(self.scores_[:3]) * 1e3) % 1))
                return r
        SlowPageRank.__module__ = __name__
        SlowPageRank.__qualname__ = 'SlowPageRank'
    return SlowPageRank


def n_jobs(a):
    """PageRankClassifier(n_jobs=k), fitted `repeat` times on one input, against the sequential classifier (n_jobs=None): the
    per-class rankings are farmed out to a pool, whatever the pool is made of the result is a function of the input.  The
    interpreter's thread switch interval is lowered for the duration (a pool of threads must not depend on the schedule)."""
    import sys
    from sknetwork.classification import PageRankClassifier
    adj = mk_matrix(a['m'])
    lab = np.array(a['labels'], dtype=int)
    out = {'runs': 0, 'diff': []}
    old = sys.getswitchinterval()
    sys.setswitchinterval(1e-6)
    try:
        ref = PageRankClassifier(n_iter=a.get('n_iter', 10))
        ref.fit(adj, lab.copy())
        ref_labels, ref_probs = np.asarray(ref.labels_).copy(), np.asarray(ref.probs_.toarray(), dtype=float)
        for rep in range(a.get('repeat', 5)):
            try:
                clf = PageRankClassifier(n_iter=a.get('n_iter', 10), n_jobs=a['n_jobs'])
                if rep % 2 == 1:
                    # same computation under another schedule: the ranking object idles a few milliseconds at the end of each fit
                    slow = _slow_pagerank()(**{k_: v_ for k_, v_ in clf.algorithm.get_params().items()})
                    clf.algorithm = slow
                clf.fit(adj, lab.copy())
            except Exception as e:      # noqa
                out['diff'].append([rep, 'raises %s: %s' % (type(e).__name__, str(e)[:160])])
                continue
            out['runs'] += 1
            p = np.asarray(clf.probs_.toarray(), dtype=float)
            if not np.array_equal(np.asarray(clf.labels_), ref_labels) or p.shape != ref_probs.shape \
                    or not np.allclose(p, ref_probs, rtol=1e-9, atol=1e-12):
                d = float(np.abs(p - ref_probs).max()) if p.shape == ref_probs.shape else -1.0
                out['diff'].append([rep, 'labels %s / sequential %s, max |probs difference| %g'
                                    % (np.asarray(clf.labels_).tolist(), ref_labels.tolist(), d)])
    finally:
        sys.setswitchinterval(old)
    return out


def python_threads(a):
    """Separate estimator objects fitted concurrently in Python threads (one job per thread, each repeated): every fit must give
    what the same job gives when run alone.  a = {'jobs': [{'name', 'm', 'opts'}, ...], 'repeat': R}.
    Returns the sequential reference of every job and, per thread, the list of outputs (or the exception raised)."""
    import sys
    import threading
    ref = []
    for job in a['jobs']:
        try:
            ref.append({'ok': registry.run(job)})
        except Exception as e:      # noqa
            ref.append({'err': type(e).__name__})
    outs = [[] for _ in a['jobs']]

    def work(t):
        for _ in range(a.get('repeat', 5)):
            try:
                outs[t].append({'ok': registry.run(a['jobs'][t])})
            except Exception as e:  # noqa
                outs[t].append({'err': '%s: %s' % (type(e).__name__, str(e)[:120])})
    # another schedule of the same computations: the iterative solvers idle for a moment before returning from fit (class-level
    # wrappers that call the original method and sleep; results are untouched), so that the other threads' solver calls complete
    # between a solver call and the use of its results
    import time
    patched = []
    if a.get('slow_solvers'):
        from sknetwork.linalg import svd_solver, eig_solver
        for cls in (svd_solver.LanczosSVD, eig_solver.LanczosEig):
            orig = cls.fit

            def slow(self, *args, __orig=orig, **kwargs):
                r = __orig(self, *args, **kwargs)
                time.sleep(0.003)
                return r
            patched.append((cls, orig))
            cls.fit = slow
    old = sys.getswitchinterval()
    sys.setswitchinterval(1e-6)
    try:
        threads = [threading.Thread(target=work, args=(t,)) for t in range(len(a['jobs']))]
        for th in threads:
            th.start()
        for th in threads:
            th.join()
    finally:
        sys.setswitchinterval(old)
        for cls, orig in patched:
            cls.fit = orig
    return {'ref': ref, 'threads': outs}

"""C07 worker: the hierarchical algorithms and the dendrogram post-processing functions of the real code."""
import numpy as np

from sknetwork.hierarchy import Paris, LouvainHierarchy, LouvainIteration
from sknetwork.hierarchy.postprocess import get_dendrogram, reorder_dendrogram, split_dendrogram
from .util import mk_matrix


def _rows(d):
    """Dendrogram attribute -> {'shape': [...], 'rows': [[i, j, height, size], ...]} (floats kept as they are)."""
    if d is None:
        return None
    d = np.asarray(d)
    if d.ndim != 2:
        return {'shape': list(d.shape), 'rows': []}
    return {'shape': list(d.shape), 'rows': [[float(x) for x in r] for r in d]}


def _mk(algo, opts):
    if algo == 'Paris':
        return Paris(weights=opts.get('weights', 'degree'), reorder=opts.get('reorder', True))
    if algo == 'LouvainHierarchy':
        return LouvainHierarchy(resolution=opts.get('resolution', 1), tol_optimization=opts.get('tol_optimization', 1e-3),
                                tol_aggregation=opts.get('tol_aggregation', 1e-3),
                                shuffle_nodes=opts.get('shuffle_nodes', False), random_state=opts.get('random_state'))
    if algo == 'LouvainIteration':
        return LouvainIteration(depth=opts.get('depth', 3), resolution=opts.get('resolution', 1),
                                tol_optimization=opts.get('tol_optimization', 1e-3),
                                tol_aggregation=opts.get('tol_aggregation', 1e-3),
                                n_aggregations=opts.get('n_aggregations', -1),
                                shuffle_nodes=opts.get('shuffle_nodes', False), random_state=opts.get('random_state'))
    raise ValueError(algo)


def _attrs(est):
    return {'dendrogram': _rows(est.dendrogram_), 'row': _rows(est.dendrogram_row_), 'col': _rows(est.dendrogram_col_),
            'full': _rows(est.dendrogram_full_), 'bipartite': bool(est.bipartite)}


def fit(a):
    """a = {'algo', 'opts', 'm': matrix spec, 'force_bipartite'}; every dendrogram attribute after fit."""
    est = _mk(a['algo'], a.get('opts', {}))
    m = mk_matrix(a['m'])
    # earlier fits of the SAME estimator object on other graphs (bipartite and not): nothing of them may survive
    for spec in a.get('prior') or []:
        try:
            est.fit(mk_matrix(spec), force_bipartite=bool(spec.get('force_bipartite', False)))
        except Exception:  # noqa
            pass
    est.fit(m, force_bipartite=a.get('force_bipartite', False))
    return _attrs(est)


PRIOR = [dict(shape=[2, 3], coo=[[0, 0, 1], [0, 1, 2], [1, 1, 1], [1, 2, 3]], dtype='int', fmt='csr'),
         dict(shape=[4, 4], coo=[[0, 1, 1], [1, 0, 1], [1, 2, 2], [2, 1, 2], [2, 3, 1], [3, 2, 1]], dtype='int', fmt='csr'),
         dict(shape=[3, 3], coo=[[0, 0, 1], [0, 1, 1], [1, 1, 2], [2, 1, 1], [2, 2, 1]], dtype='int', fmt='csr', force_bipartite=True)]


def fit_many(a):
    """Several option sets on one matrix: a = {'algo', 'm', 'runs': [opts, ...]}."""
    out = []
    for k, opts in enumerate(a['runs']):
        try:
            out.append({'ok': fit({'algo': a['algo'], 'opts': opts, 'm': a['m'], 'prior': PRIOR[:1 + k % 3] if k % 2 == 1 else [],
                                   'force_bipartite': a.get('force_bipartite', False)})})
        except Exception as e:  # noqa
            out.append({'err': type(e).__name__, 'msg': str(e)[:200]})
    return out


# ---- post-processing functions called directly ----------------------------------------------------------------
def _pytree(t):
    """['L', i] -> [i];  ['N', [children]] -> [child, ...]"""
    if t[0] == 'L':
        return [int(t[1])]
    return [_pytree(c) for c in t[1]]


def tree_dendrogram(a):
    d, index = get_dendrogram(_pytree(a['tree']))
    return {'rows': [[float(x) for x in r] for r in d], 'index': int(index)}


def _arr(rows):
    return np.array(rows, dtype=float) if len(rows) else np.zeros((0, 4))


def reorder(a):
    d = _arr(a['rows'])
    before = d.copy()
    out = reorder_dendrogram(d)
    return {'rows': [[float(x) for x in r] for r in out], 'input_unchanged': bool(np.array_equal(before, d))}


def split(a):
    r, c = split_dendrogram(_arr(a['rows']), tuple(a['shape']))
    return {'row': _rows(r), 'col': _rows(c)}


# ---- Louvain-based hierarchies with the oracle answers recorded --------------------------------------------------
def louvain_hierarchy_traced(a):
    """LouvainHierarchy.fit with every label vector returned by Louvain.fit_predict recorded, in call order."""
    est = _mk('LouvainHierarchy', a.get('opts', {}))
    levels = []
    inner = est._clustering_method
    orig = inner.fit_predict

    def traced(*args, **kwargs):
        labels = orig(*args, **kwargs)
        levels.append([int(x) for x in labels])
        return labels
    inner.fit_predict = traced
    est.fit(mk_matrix(a['m']), force_bipartite=a.get('force_bipartite', False))
    out = _attrs(est)
    out['levels'] = levels
    return out


def louvain_iteration_traced(a):
    """LouvainIteration.fit with, for every call of _recursive_louvain: the node list, whether the sub-graph has
    an edge, the depth and the labels Louvain returned (None when Louvain was not called)."""
    est = _mk('LouvainIteration', a.get('opts', {}))
    calls = []
    stack = []
    inner = est._clustering_method
    orig_fp = inner.fit_predict
    orig_rec = est._recursive_louvain

    def traced_fp(*args, **kwargs):
        labels = orig_fp(*args, **kwargs)
        calls[stack[-1]]['labels'] = [int(x) for x in labels]
        return labels

    def traced_rec(adjacency, depth, nodes=None):
        n = adjacency.shape[0]
        key = list(range(n)) if nodes is None else [int(x) for x in nodes]
        calls.append({'nodes': key, 'has_edge': bool(adjacency.nnz), 'depth': int(depth), 'labels': None})
        stack.append(len(calls) - 1)
        try:
            return orig_rec(adjacency, depth, nodes)
        finally:
            stack.pop()
    inner.fit_predict = traced_fp
    est._recursive_louvain = traced_rec
    est.fit(mk_matrix(a['m']), force_bipartite=a.get('force_bipartite', False))
    out = _attrs(est)
    out['calls'] = calls
    return out

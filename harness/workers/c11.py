"""Worker side of C11: calls the real count_triangles / count_cliques / get_core_decomposition /
get_clustering_coefficient of the scratch build."""
import math
import warnings

import numpy as np
from sknetwork.topology import count_triangles, count_cliques, get_core_decomposition, get_clustering_coefficient
from .util import mk_matrix, tolist


def _try(f):
    try:
        return {'ok': f()}
    except Exception as e:  # noqa
        return {'err': type(e).__name__, 'msg': str(e)[:200]}


def _float(x):
    x = float(x)
    if math.isnan(x):
        return 'nan'
    if math.isinf(x):
        return 'inf' if x > 0 else '-inf'
    return x


def triangles(a):
    m = mk_matrix(a['m'])
    return int(count_triangles(m, parallelize=bool(a.get('parallelize', False))))


def triangles_repeat(a):
    """parallelize=True, repeated: the list of the counts returned (same matrix object each time)."""
    m = mk_matrix(a['m'])
    return [int(count_triangles(m, parallelize=True)) for _ in range(int(a.get('repeat', 1)))]


def cliques(a):
    m = mk_matrix(a['m'])
    return int(count_cliques(m, int(a['k'])))


def core(a):
    m = mk_matrix(a['m'])
    return tolist(get_core_decomposition(m))


def coefficient(a):
    m = mk_matrix(a['m'])
    with warnings.catch_warnings():
        warnings.simplefilter('ignore')
        return _float(get_clustering_coefficient(m, parallelize=bool(a.get('parallelize', False))))


def everything(a):
    """All C11 entry points on one undirected simple graph; every call guarded separately.
    `argsort` is the order vector count_cliques hands to get_dag (np.argsort of the core values)."""
    spec = a['m']
    out = {}
    out['tri_seq'] = _try(lambda: int(count_triangles(mk_matrix(spec), parallelize=False)))
    out['tri_par'] = _try(lambda: int(count_triangles(mk_matrix(spec), parallelize=True)))
    out['core'] = _try(lambda: tolist(get_core_decomposition(mk_matrix(spec))))

    def coef(par):
        with warnings.catch_warnings():
            warnings.simplefilter('ignore')
            return _float(get_clustering_coefficient(mk_matrix(spec), parallelize=par))
    out['coef'] = _try(lambda: coef(False))
    out['coef_par'] = _try(lambda: coef(True))
    out['argsort'] = _try(lambda: tolist(np.argsort(get_core_decomposition(mk_matrix(spec)))))
    out['cliques'] = {str(k): _try(lambda k=k: int(count_cliques(mk_matrix(spec), int(k)))) for k in a.get('ks', [])}
    # the caller's matrix must not be needed again: every call above got a fresh matrix
    return out

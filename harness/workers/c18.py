"""C18 worker: runs the real ingestion / persistence / extraction code of the scratch build.
Everything is written under the scratch root handed in by the harness (a mkdtemp under /var/tmp)."""
import io
import os
import shutil
import tarfile

import numpy as np
from scipy import sparse

import importlib

from sknetwork.data.base import Dataset

# `sknetwork.data` re-exports functions named like its submodules (load, ...): fetch the modules themselves
sk_parse = importlib.import_module('sknetwork.data.parse')
sk_load = importlib.import_module('sknetwork.data.load')


# ---------------------------------------------------------------------------------------------
# views
# ---------------------------------------------------------------------------------------------
def _mat(m):
    c = sparse.coo_matrix(m)
    c.sum_duplicates()
    trip = sorted([int(i), int(j), (float(v) if c.dtype.kind == 'f' else int(v))]
                  for i, j, v in zip(c.row, c.col, c.data) if v != 0)
    return {'shape': [int(m.shape[0]), int(m.shape[1])], 'triples': trip,
            'dtype': {'b': 'bool', 'i': 'int', 'u': 'int', 'f': 'float'}.get(m.dtype.kind, str(m.dtype)),
            'format': m.getformat()}


def _names(x):
    if x is None:
        return None
    a = np.asarray(x)
    kind = 'str' if a.dtype.kind in 'US' else ('int' if a.dtype.kind in 'iu' else a.dtype.kind)
    return {'kind': kind, 'values': [v.item() if hasattr(v, 'item') else v for v in a]}


def _view(r):
    if sparse.issparse(r):
        return {'matrix_only': True, 'matrix': _mat(r)}
    out = {'matrix_only': False, 'keys': sorted(r.keys())}
    key = 'biadjacency' if 'biadjacency' in r else 'adjacency'
    out['which'] = key
    out['matrix'] = _mat(r[key])
    for k in ('names', 'names_row', 'names_col'):
        out[k] = _names(r.get(k))
    return out


def _flags(a):
    kw = dict(directed=a['directed'], bipartite=a['bipartite'], weighted=a['weighted'], reindex=a['reindex'],
              sum_duplicates=a['sum_duplicates'], matrix_only=a.get('matrix_only'))
    kw['shape'] = tuple(a['shape']) if a.get('shape') is not None else None
    return kw


def _tuples(edges):
    return [tuple(e) for e in edges]


def edge_list(a):
    edges = _tuples(a['edges'])
    if a.get('as_array'):
        edges = np.array(edges)
        if isinstance(a['as_array'], str):          # the same integers in another integer type (what scipy's .nonzero() / .indices give)
            edges = edges.astype(a['as_array'])
    return _view(sk_parse.from_edge_list(edges, **_flags(a['flags'])))


def adjacency_list(a):
    adj = a['adj']
    if a.get('dict'):
        adj = {k: list(v) for k, v in adj}
    return _view(sk_parse.from_adjacency_list(adj, **_flags(a['flags'])))


def _write(root, name, text):
    os.makedirs(root, exist_ok=True)
    p = os.path.join(root, name)
    with open(p, 'w', encoding='utf-8', newline='') as f:
        f.write(text)
    return p


def csv_file(a):
    p = _write(a['root'], a.get('name', 'graph.csv'), a['text'])
    kw = _flags(a['flags'])
    for k in ('delimiter', 'sep', 'comments', 'data_structure'):
        if a.get(k) is not None:
            kw[k] = a[k]
    return _view(sk_parse.from_csv(p, **kw))


def scan_header(a):
    p = _write(a['root'], a.get('name', 'graph.csv'), a['text'])
    kw = {}
    if a.get('delimiters') is not None:
        kw['delimiters'] = a['delimiters']
    if a.get('comments') is not None:
        kw['comments'] = a['comments']
    h, d, c, s = sk_parse.scan_header(p, **kw)
    return [int(h), d, c, s]


def graphml(a):
    p = _write(a['root'], 'g.graphml', a['text'])
    r = sk_parse.from_graphml(p, **({'weight_key': a['weight_key']} if a.get('weight_key') else {}))
    out = {'keys': sorted(r.keys()), 'matrix': _mat(r['adjacency']), 'names': _names(r.get('names'))}
    if 'node_attribute' in r:
        out['node_attribute'] = {k: _names(v) for k, v in r['node_attribute'].items()}
    if 'edge_attribute' in r:
        out['edge_attribute'] = {k: _names(v) for k, v in r['edge_attribute'].items()}
    return out


def _cells(x):
    """Attribute array -> dtype kind + exact Python values."""
    a = np.asarray(x)
    kind = {'b': 'bool', 'i': 'int', 'u': 'int', 'f': 'float', 'U': 'str', 'S': 'str'}.get(a.dtype.kind, str(a.dtype))
    return {'kind': kind, 'values': [v.item() if hasattr(v, 'item') else v for v in a]}


def _plain(d):
    return {k: (_plain(v) if isinstance(v, dict) else v) for k, v in d.items()}


def graphml_doc(a):
    """The real from_graphml on a serialised document; the whole Bunch in comparable form (dense adjacency)."""
    p = _write(a['root'], 'doc.graphml', a['text'])
    kw = {}
    if a.get('weight_key') is not None:
        kw['weight_key'] = a['weight_key']
    if a.get('max_string_size') is not None:
        kw['max_string_size'] = a['max_string_size']
    r = sk_parse.from_graphml(p, **kw)
    adj = r['adjacency']
    dense = adj.toarray()
    out = {'keys': sorted(r.keys()), 'n': int(adj.shape[0]), 'shape': [int(adj.shape[0]), int(adj.shape[1])],
           'dtype': {'b': 'bool', 'i': 'int', 'u': 'int', 'f': 'float'}.get(adj.dtype.kind, str(adj.dtype)),
           'format': adj.getformat(), 'stored': int(len(adj.data)),
           'dense': [[v.item() for v in row] for row in dense],
           'names': None if 'names' not in r else [str(x) for x in r['names']]}
    for k in ('node_attribute', 'edge_attribute'):
        out[k] = None if k not in r else {nm: _cells(v) for nm, v in r[k].items()}
    out['meta'] = None if 'meta' not in r else _plain(r['meta'])
    return out


# ---------------------------------------------------------------------------------------------
# path check and extraction
# ---------------------------------------------------------------------------------------------
def within(a):
    """a: {'cwd': existing dir, 'pairs': [[directory, target], ...]} -> list of bool / {'err': kind}."""
    old = os.getcwd()
    os.makedirs(a['cwd'], exist_ok=True)
    os.chdir(a['cwd'])
    out = []
    try:
        for d, t in a['pairs']:
            try:
                out.append(bool(sk_load.is_within_directory(d, t)))
            except Exception as e:  # noqa
                out.append({'err': type(e).__name__})
    finally:
        os.chdir(old)
    return out


def _snapshot(root):
    files, dirs, links = [], [], []
    for r, ds, fs in os.walk(root):
        for d in ds:
            p = os.path.join(r, d)
            (links if os.path.islink(p) else dirs).append(os.path.relpath(p, root))
        for f in fs:
            p = os.path.join(r, f)
            if os.path.islink(p):
                links.append(os.path.relpath(p, root))
            else:
                with open(p, 'rb') as h:
                    files.append([os.path.relpath(p, root), h.read(64).decode('latin1')])
    return {'files': sorted(files), 'dirs': sorted(dirs), 'links': sorted(links)}


def extract(a):
    """Build a real tar archive with the given member names and extract it with the code's safe_extract.

    a: root (scratch, created empty here), cwd (relative to root), path (argument of safe_extract, may be
    relative to cwd; '{ROOT}' is replaced by root), members: [[name, kind]] with kind 'file' | 'dir',
    mode: '' | 'gz' | 'bz2'. Returns the outcome and the file system under root before / after."""
    root = a['root']
    if os.path.exists(root):
        shutil.rmtree(root)
    os.makedirs(root)
    arch = os.path.join(root, '_archive.tar' + ('.' + a['mode'] if a.get('mode') else ''))
    names = []
    with tarfile.open(arch, 'w:' + a.get('mode', '')) as t:
        for k, (name, kind) in enumerate(a['members']):
            name = name.replace('{ROOT}', root)
            names.append(name)
            ti = tarfile.TarInfo(name)
            if kind == 'dir':
                ti.type = tarfile.DIRTYPE
                ti.mode = 0o755
                t.addfile(ti)
            else:
                data = ('member-%d' % k).encode()
                ti.size = len(data)
                ti.mode = 0o644
                t.addfile(ti, io.BytesIO(data))
    cwd = os.path.join(root, a['cwd'])
    os.makedirs(cwd, exist_ok=True)
    path = a['path'].replace('{ROOT}', root)
    before = _snapshot(root)
    old = os.getcwd()
    os.chdir(cwd)
    stored = names
    try:
        try:
            with tarfile.open(arch, 'r:*') as t:
                stored = [m.name for m in t.getmembers()]
                sk_load.safe_extract(t, path)
            outcome = {'accepted': True}
        except Exception as e:  # noqa
            outcome = {'accepted': False, 'err': type(e).__name__, 'msg': str(e)[:200]}
    finally:
        os.chdir(old)
    after = _snapshot(root)
    return {'outcome': outcome, 'before': before, 'after': after, 'root': root, 'stored_names': stored}


# ---------------------------------------------------------------------------------------------
# save / load
# ---------------------------------------------------------------------------------------------
def _build_value(spec):
    k = spec['kind']
    if k == 'csr':
        r, c = spec['shape']
        dt = {'bool': bool, 'int': int, 'float': float}[spec['dtype']]
        rows = np.array([e[0] for e in spec['coo']], dtype=int)
        cols = np.array([e[1] for e in spec['coo']], dtype=int)
        vals = np.array([e[2] for e in spec['coo']]).astype(dt)
        return sparse.csr_matrix((vals, (rows, cols)), shape=(r, c), dtype=dt)
    if k == 'array':
        dt = spec['dtype']
        if dt == 'object':
            x = np.empty(len(spec['values']), dtype=object)
            for i, v in enumerate(spec['values']):
                x[i] = v
            return x
        return np.array(spec['values'], dtype={'int': int, 'float': float, 'bool': bool, 'str': str}[dt])
    if k == 'dataset':
        d = Dataset()
        for key, v in spec['items']:
            d[key] = _build_value(v)
        return d
    return spec['value']     # str / int / float / bool / list / dict / None


def _equal(a, b, path, out):
    if type(a) is not type(b):
        out.append('%s: type %s -> %s' % (path, type(a).__name__, type(b).__name__))
        return
    if sparse.issparse(a):
        if a.shape != b.shape or a.dtype != b.dtype or (a != b).nnz != 0:
            out.append('%s: matrix differs (shape %s/%s dtype %s/%s)' % (path, a.shape, b.shape, a.dtype, b.dtype))
        elif not (np.array_equal(a.indptr, b.indptr) and np.array_equal(a.indices, b.indices) and np.array_equal(a.data, b.data)):
            out.append('%s: stored structure differs' % path)
    elif isinstance(a, np.ndarray):
        if a.shape != b.shape or a.dtype != b.dtype:
            out.append('%s: array shape/dtype %s %s -> %s %s' % (path, a.shape, a.dtype, b.shape, b.dtype))
        elif a.dtype == object:
            if list(a) != list(b):
                out.append('%s: object array differs' % path)
        elif not np.array_equal(a, b):
            out.append('%s: array values differ' % path)
    elif isinstance(a, dict):
        if sorted(a.keys()) != sorted(b.keys()):
            out.append('%s: keys %s -> %s' % (path, sorted(a.keys()), sorted(b.keys())))
        else:
            for k in a:
                _equal(a[k], b[k], path + '.' + k, out)
    elif a != b:
        out.append('%s: %r -> %r' % (path, a, b))


def save_load(a):
    """a: root, cwd (relative to root), folder (relative to cwd or '{ROOT}/...'), data spec, twice."""
    root = a['root']
    if os.path.exists(root):
        shutil.rmtree(root)
    cwd = os.path.join(root, a['cwd'])
    os.makedirs(cwd)
    folder = a['folder'].replace('{ROOT}', root)
    if a.get('pathlib'):
        from pathlib import Path
        folder = Path(folder)
    data = _build_value(a['data'])
    old = os.getcwd()
    os.chdir(cwd)
    try:
        if a.get('before') is not None:     # the folder already holds ANOTHER dataset (other attributes): save must replace it
            sk_load.save(folder, _build_value(a['before']))
        sk_load.save(folder, data)
        if a.get('twice'):      # saving again over an existing bundle must replace it
            sk_load.save(folder, data)
        loaded = sk_load.load(folder)
    finally:
        os.chdir(old)
    diffs = []
    expect = data
    if sparse.issparse(data):
        expect = Dataset()
        expect['adjacency' if data.shape[0] == data.shape[1] else 'biadjacency'] = data
    _equal(expect, loaded, 'data', diffs)
    return {'diffs': diffs, 'fs': _snapshot(root), 'root': root, 'keys': sorted(loaded.keys())}

"""C03 worker: direct calls of the seed glue (utils/values.py, utils/format.py) for the source-term correspondence."""
import numpy as np
from scipy import sparse

from sknetwork.utils.values import get_values, stack_values
from sknetwork.utils.format import get_adjacency_values


def _v(x):
    """None | {'array': [...]} | {'list': [...]} | {'dict': [[k, v], ...]} (insertion order kept)"""
    if x is None:
        return None
    if 'array' in x:
        return np.array(x['array'], dtype=float)
    if 'list' in x:
        return list(x['list'])
    return {int(k): v for k, v in x['dict']}


def values(a):
    kind = a['kind']
    if kind == 'get_values':
        return [float(x) for x in get_values(tuple(a['shape']), _v(a['values']), a['default'])]
    if kind == 'stack_values':
        return [float(x) for x in stack_values(tuple(a['shape']), _v(a['values_row']), _v(a['values_col']), a['default'])]
    # get_adjacency_values on an all-ones matrix of the given shape: (values, bipartite)
    r, c = a['shape']
    m = sparse.csr_matrix(np.ones((r, c)))
    adj, vals, bip = get_adjacency_values(m, force_bipartite=a['force_bipartite'], values=_v(a['values']),
                                          values_row=_v(a['values_row']), values_col=_v(a['values_col']),
                                          default_value=a['default'], which='values')
    return dict(values=[float(x) for x in vals], bipartite=bool(bip))

"""C14 worker: runs the real Diffusion / Dirichlet regressors (scratch build on PYTHONPATH)."""
import math

import numpy as np
from scipy import sparse
from sknetwork.regression import Diffusion, Dirichlet
from .util import mk_matrix, tolist


def _vals(x):
    """None | {'kind': 'array'|'list'|'dict', 'data': ...}; dict data = [[key, value], ...] in insertion order."""
    if x is None:
        return None
    kind = x['kind']
    if kind == 'array':
        return np.array(x['data'], dtype=x.get('dtype', 'float'))
    if kind == 'list':
        return list(x['data'])
    if kind == 'dict':
        return {int(k): v for k, v in x['data']}
    raise ValueError(kind)


def _num(x):
    x = float(x)
    return 'nan' if math.isnan(x) else ('inf' if x == math.inf else ('-inf' if x == -math.inf else x))


def _vec(v):
    return None if v is None else [_num(x) for x in np.asarray(v).ravel()]


def _fit(algo, a):
    m = mk_matrix(a['m'])
    if a.get('prior_factors') and sparse.issparse(m) and m.format in ('csr', 'csc', 'coo'):
        # the SAME estimator fitted first on the SAME matrix object carrying other weights (entry k multiplied by factor k), the
        # weights then restored in place: the second fit is a fit on the graph the object now holds
        orig = m.data.copy()
        f = np.resize(np.array(a['prior_factors']), len(orig)).astype(orig.dtype)
        m.data *= f
        try:
            algo.fit(m, values=_vals(a.get('values')), values_row=_vals(a.get('values_row')), values_col=_vals(a.get('values_col')),
                     init=a.get('init'), force_bipartite=a.get('force_bipartite', False))
        except Exception:       # noqa
            pass
        m.data[:] = orig
    algo.fit(m, values=_vals(a.get('values')), values_row=_vals(a.get('values_row')),
             values_col=_vals(a.get('values_col')), init=a.get('init'),
             force_bipartite=a.get('force_bipartite', False))
    out = {'values': _vec(algo.values_), 'bipartite': bool(algo.bipartite), 'row': None, 'col': None}
    if algo.bipartite:
        out['row'] = _vec(algo.values_row_)
        out['col'] = _vec(algo.values_col_)
    return out


def _reparam(algo, a, final):
    """the estimator was constructed with other parameters (a['constructed']) and is given the final ones before the fit, through
    set_params or by plain attribute assignment: get_params() then reports the final ones, and the fit must honour them"""
    if a.get('reparam') == 'set_params':
        algo.set_params(final)
    else:
        for k, v in final.items():
            setattr(algo, k, v)
    return algo


def diffusion(a):
    final = dict(n_iter=a['n_iter'], damping_factor=a['damping'])
    if a.get('constructed'):
        return _fit(_reparam(Diffusion(**a['constructed']), a, final), a)
    return _fit(Diffusion(**final), a)


def dirichlet(a):
    final = dict(n_iter=a['n_iter'])
    if a.get('constructed'):
        return _fit(_reparam(Dirichlet(**a['constructed']), a, final), a)
    return _fit(Dirichlet(**final), a)


def refit_same_array(a):
    """Two fits (n_iter = a['n_iters'][0], then [1]) given ONE caller-owned float64 array of temperatures, as a user checking
    convergence would do; reference = the second fit given a fresh copy of the original array."""
    cls = Diffusion if a['algo'] == 'diffusion' else Dirichlet
    m = mk_matrix(a['m'])
    arr = np.array(a['values'], dtype=float)
    before = arr.copy()

    def mk(n_iter):
        return cls(n_iter=n_iter, damping_factor=a['damping']) if cls is Diffusion else cls(n_iter=n_iter)
    first = mk(a['n_iters'][0]).fit(m, values=arr).values_.copy()
    second = mk(a['n_iters'][1]).fit(m, values=arr).values_.copy()
    ref = mk(a['n_iters'][1]).fit(m, values=before.copy()).values_.copy()
    return {'first': _vec(first), 'second': _vec(second), 'reference': _vec(ref), 'array_before': _vec(before),
            'array_after': _vec(arr)}

"""C06 workers: get_modularity, Louvain, Leiden on the scratch build (real implementation)."""
import re

import numpy as np
from sknetwork.clustering import get_modularity, Louvain, Leiden
from .util import mk_matrix, tolist

_LOG = re.compile(r'^Aggregation: (\d+)\s+Clusters: (\d+)\s+Increase: (\S+)\s*$')


def modularity(a):
    """a: m (matrix spec), labels, labels_col|None, weights, resolution, return_all."""
    m = mk_matrix(a['m'])
    labels = np.array(a['labels'], dtype=int)
    labels_col = None if a.get('labels_col') is None else np.array(a['labels_col'], dtype=int)
    r = get_modularity(m, labels, labels_col, weights=a.get('weights', 'degree'),
                       resolution=a.get('resolution', 1), return_all=a.get('return_all', False))
    if isinstance(r, tuple):
        return [float(x) for x in r]
    return float(r)


def _parse_log(text):
    out = []
    for line in text.splitlines():
        mm = _LOG.match(line)
        if mm is None:
            raise ValueError('unexpected log line: %r' % line)
        out.append([int(mm.group(1)), int(mm.group(2)), float(mm.group(3))])
    return out


def _components(n, indices, indptr):
    p = list(range(n))

    def find(x):
        while p[x] != x:
            p[x] = p[p[x]]
            x = p[x]
        return x
    for i in range(n):
        for e in range(indptr[i], indptr[i + 1]):
            x, y = find(i), find(int(indices[e]))
            if x != y:
                p[x] = y
    return [find(x) for x in range(n)]


class _RefineCapture:
    """Wraps leiden.optimize_refine_core from outside (no repository change): records every answer of the
    refinement kernel (libc rand() makes it unrepeatable) and checks the contract the theorems assume."""

    def __init__(self):
        import sknetwork.clustering.leiden as mod
        self.mod = mod
        self.orig = mod.optimize_refine_core
        self.answers = []
        self.contract_ok = True
        self.why = None

    def __enter__(self):
        def wrapper(labels, labels_refined, indices, indptr, *rest):
            coarse = np.asarray(labels).copy()
            ind = np.asarray(indices).copy()
            ptr = np.asarray(indptr).copy()
            out = self.orig(labels, labels_refined, indices, indptr, *rest)
            refined = np.asarray(out).tolist()
            n = len(coarse)
            self.answers.append(refined)
            if len(refined) != n:
                self.contract_ok, self.why = False, 'length'
            else:
                comp = _components(n, ind, ptr)
                first = {}
                for x, r in enumerate(refined):
                    y = first.setdefault(r, x)
                    if coarse[y] != coarse[x]:
                        self.contract_ok, self.why = False, 'refined cluster %d spans coarse clusters' % r
                    if comp[y] != comp[x]:
                        self.contract_ok, self.why = False, 'refined cluster %d spans components' % r
            return out
        self.mod.optimize_refine_core = wrapper
        return self

    def __exit__(self, *a):
        self.mod.optimize_refine_core = self.orig


def optimiser(a):
    """a: algo ('louvain'|'leiden'), m, force_bipartite, and the estimator's keyword arguments."""
    m = mk_matrix(a['m'])
    cls = {'louvain': Louvain, 'leiden': Leiden}[a['algo']]
    kw = dict(resolution=a.get('resolution', 1), modularity=a.get('modularity', 'dugue'),
              tol_optimization=a.get('tol_optimization', 1e-3), tol_aggregation=a.get('tol_aggregation', 1e-3),
              n_aggregations=a.get('n_aggregations', -1), shuffle_nodes=a.get('shuffle_nodes', False),
              sort_clusters=a.get('sort_clusters', True), random_state=a.get('random_state', None),
              return_probs=False, return_aggregate=False, verbose=bool(a.get('verbose', False)))
    algo = cls(**kw)
    cap = None
    if a['algo'] == 'leiden':
        with _RefineCapture() as cap:
            algo.fit(m, force_bipartite=a.get('force_bipartite', False))
    else:
        algo.fit(m, force_bipartite=a.get('force_bipartite', False))
    res = {'labels': tolist(algo.labels_), 'bipartite': bool(algo.bipartite), 'log': _parse_log(algo.log),
           'raw_log': algo.log}
    if algo.bipartite:
        res['labels_row'] = tolist(algo.labels_row_)
        res['labels_col'] = tolist(algo.labels_col_)
    if cap is not None:
        res['refine_answers'] = cap.answers
        res['refine_contract_ok'] = cap.contract_ok
        res['refine_contract_why'] = cap.why
    if a.get('shuffle_nodes', False) and a.get('want_index', False):
        # the permutation the estimator drew: a fresh generator with the same seed draws the same one
        rs = np.random.RandomState(a['random_state'])
        n = sum(m.shape) if algo.bipartite else m.shape[0]
        res['index'] = tolist(rs.permutation(np.arange(n)))
    return res

"""C12 workers: call the real topology functions; SciPy's connected_components is wrapped from
outside so that every label vector it hands to the code is captured (the model's oracle argument)."""
import numpy as np
import scipy.sparse.csgraph as _csg
from scipy import sparse
from sknetwork.topology import (get_connected_components, is_connected, get_largest_connected_component,
                                is_bipartite, is_acyclic, get_cycles, break_cycles)
from .util import mk_matrix, csr_edges, tolist

_orig_cc = _csg.connected_components
_captured = []


def _wrapped_cc(csgraph, directed=True, connection='weak', return_labels=True):
    n, labels = _orig_cc(csgraph, directed=directed, connection=connection, return_labels=True)
    _captured.append({'labels': [int(x) for x in labels], 'directed': bool(directed), 'connection': connection,
                      'n': int(n)})
    if return_labels:
        return n, labels
    return n


_csg.connected_components = _wrapped_cc
sparse.csgraph.connected_components = _wrapped_cc


def _guard(f):
    """Exceptions are returned as values so that the oracle answers captured before them are kept."""
    def g(a):
        del _captured[:]
        try:
            return f(a)
        except Exception as e:  # noqa
            return {'exc': type(e).__name__, 'msg': str(e)[:200], 'oracle': list(_captured)}
    g.__name__ = f.__name__
    return g


def _directed(a):
    d = a.get('directed')
    return None if d is None else bool(d)


def _snapshot(m):
    return (m.shape, m.indptr.copy(), m.indices.copy(), m.data.copy())


def _same(m, s):
    return m.shape == s[0] and np.array_equal(m.indptr, s[1]) and np.array_equal(m.indices, s[2]) and \
        np.array_equal(m.data, s[3])


def _mat(m):
    return {'shape': [int(m.shape[0]), int(m.shape[1])], 'edges': csr_edges(m)}


@_guard
def components(a):
    m = mk_matrix(a['m'])
    labels = get_connected_components(m, connection=a.get('connection', 'weak'),
                                      force_bipartite=a.get('force_bipartite', False))
    return {'labels': tolist(labels), 'oracle': list(_captured)}


@_guard
def connected(a):
    m = mk_matrix(a['m'])
    r = is_connected(m, connection=a.get('connection', 'weak'), force_bipartite=a.get('force_bipartite', False))
    return {'value': bool(r), 'is_bool': isinstance(r, (bool, np.bool_)), 'oracle': list(_captured)}


@_guard
def largest(a):
    m = mk_matrix(a['m'])
    out, index = get_largest_connected_component(m, connection=a.get('connection', 'weak'),
                                                 force_bipartite=a.get('force_bipartite', False), return_index=True)
    out2 = get_largest_connected_component(m, connection=a.get('connection', 'weak'),
                                           force_bipartite=a.get('force_bipartite', False))
    return {'matrix': _mat(out), 'index': tolist(index), 'plain_same': _mat(out2) == _mat(out),
            'oracle': list(_captured)}


@_guard
def bipartite(a):
    m = mk_matrix(a['m'])
    plain = is_bipartite(m)
    full = is_bipartite(m, return_biadjacency=True)
    res = {'plain': bool(plain), 'value': bool(full[0])}
    if full[1] is None:
        res.update(biadjacency=None, rows=tolist(full[2]), cols=tolist(full[3]))
    else:
        res.update(biadjacency=_mat(sparse.csr_matrix(full[1])), rows=tolist(full[2]), cols=tolist(full[3]))
    return res


@_guard
def acyclic(a):
    m = mk_matrix(a['m'])
    r = is_acyclic(m, directed=_directed(a))
    return {'value': bool(r), 'oracle': list(_captured)}


@_guard
def cycles(a):
    m = mk_matrix(a['m'])
    r = get_cycles(m, directed=_directed(a))
    return {'cycles': [[int(x) for x in c] for c in r], 'oracle': list(_captured)}


@_guard
def breakc(a):
    m = mk_matrix(a['m'])
    root = a['root']
    if isinstance(root, dict):
        root = int(root['int'])
    else:
        root = [int(r) for r in root]
    if a.get('prior_root') is not None:
        # an earlier call on the SAME matrix object with another root (result discarded): the graph the caller holds is still the graph
        try:
            break_cycles(m, int(a['prior_root']), directed=_directed(a))
        except Exception:       # noqa
            pass
    snap = _snapshot(m)
    out = break_cycles(m, root, directed=_directed(a))
    out = sparse.csr_matrix(out)
    return {'matrix': _mat(out), 'triples_nonzero': len(csr_edges(out)), 'stored': int(out.nnz),
            'input_unchanged': _same(m, snap), 'oracle': list(_captured)}

"""C09 worker: runs the real embedding estimators (scratch build) and reports their outputs.

The ARPACK wrappers LanczosEig.fit / LanczosSVD.fit and the Louvain class used by LouvainEmbedding are
wrapped FROM OUTSIDE (monkeypatch, no repository change) to capture the raw solver / clustering answers
that the Coq wrapper models take as oracle inputs."""
import numpy as np

from sknetwork.embedding import Spectral, GSVD, SVD, PCA, RandomProjection, LouvainEmbedding
import importlib
_le_mod = importlib.import_module('sknetwork.embedding.louvain_embedding')
from sknetwork.linalg import LanczosEig, LanczosSVD
from .util import mk_matrix, tolist

_captured = {}

_eig_fit = LanczosEig.fit
_svd_fit = LanczosSVD.fit
from sknetwork.linalg.svd_solver import SVDSolver


def _eig_fit_capture(self, matrix, n_components=2):
    out = _eig_fit(self, matrix, n_components)
    _captured['eig'] = dict(values=tolist(self.eigenvalues_), vectors=tolist(self.eigenvectors_),
                            which=self.which, n_components=int(n_components), shape=list(matrix.shape))
    return out


def _svd_fit_capture(self, matrix, n_components, init_vector=None):
    out = _svd_fit(self, matrix, n_components, init_vector)
    _captured['svd'] = dict(left=tolist(self.singular_vectors_left_), values=tolist(self.singular_values_),
                            right=tolist(self.singular_vectors_right_), n_components=int(n_components),
                            shape=list(matrix.shape))
    return out


LanczosEig.fit = _eig_fit_capture
LanczosSVD.fit = _svd_fit_capture

_Louvain = _le_mod.Louvain


class _LouvainCapture(_Louvain):
    def fit(self, *args, **kwargs):
        out = super().fit(*args, **kwargs)
        _captured['louvain'] = dict(labels=tolist(self.labels_), labels_row=tolist(self.labels_row_),
                                    labels_col=tolist(self.labels_col_))
        return out


_le_mod.Louvain = _LouvainCapture


def _history(est, a, with_fb):
    """Refit family: the SAME estimator object is first fitted on the earlier graphs of the sequence.
    An earlier fit that raises (e.g. n_components too large for that graph) is simply skipped."""
    for h in a.get('history', []):
        try:
            if with_fb:
                est.fit(mk_matrix(h['m']), force_bipartite=h.get('force_bipartite', False))
            else:
                est.fit(mk_matrix(h['m']))
        except Exception:  # noqa
            pass
    _captured.clear()


def _arr(x):
    return None if x is None else np.asarray(x).tolist()


def spectral(a):
    _captured.clear()
    m = mk_matrix(a['m'])
    est = Spectral(n_components=a['n_components'], decomposition=a['decomposition'],
                   regularization=a['regularization'], normalized=a['normalized'])
    _history(est, a, True)
    est.fit(m, force_bipartite=a.get('force_bipartite', False))
    return dict(eigenvalues=_arr(est.eigenvalues_), eigenvectors=_arr(est.eigenvectors_),
                embedding=_arr(est.embedding_), embedding_row=_arr(est.embedding_row_),
                embedding_col=_arr(est.embedding_col_), bipartite=bool(est.bipartite),
                regularized=bool(est.regularized), predict=_arr(est.predict()),
                solver=_captured.get('eig'))


class _AscendingSVD(SVDSolver):
    """A custom solver, as the `solver` parameter documents: a thin wrapper around scipy's svds that hands the triplets over in the
    order svds returns them (INCREASING singular values).  Captured like the built-in one."""
    def fit(self, matrix, n_components, init_vector=None):
        from scipy.sparse.linalg import svds
        if init_vector is None:
            init_vector = np.random.RandomState(0).uniform(-1, 1, min(matrix.shape))
        u, s, vt = svds(matrix.astype(float), n_components, v0=init_vector)
        index = np.argsort(s)
        self.singular_vectors_left_, self.singular_vectors_right_, self.singular_values_ = u[:, index], vt.T[:, index], s[index]
        # the capture is what the harness's wrapper model consumes: it expects the triplets in decreasing order (the order is a
        # convention between solver and estimator that the estimator re-establishes itself)
        dec = np.argsort(-s)
        _captured['svd'] = dict(left=tolist(u[:, dec]), values=tolist(s[dec]), right=tolist(vt.T[:, dec]),
                                n_components=int(n_components), shape=list(matrix.shape))
        return self


def _solver(opt):
    if opt is None or opt == 'lanczos':
        return 'lanczos'
    if opt == 'custom_ascending':
        return _AscendingSVD()
    return LanczosSVD(n_iter=opt.get('n_iter'), tol=opt.get('tol', 0.))


def _try(f):
    try:
        return {'ok': _arr(f())}
    except Exception as e:  # noqa
        return {'err': type(e).__name__, 'msg': str(e)[:200]}


def gsvd(a):
    _captured.clear()
    m = mk_matrix(a['m'])
    kind = a['kind']
    if kind == 'GSVD':
        est = GSVD(n_components=a['n_components'], regularization=a.get('regularization'),
                   factor_row=a['factor_row'], factor_col=a['factor_col'], factor_singular=a['factor_singular'],
                   normalized=a['normalized'], solver=_solver(a.get('solver')))
    elif kind == 'SVD':
        est = SVD(n_components=a['n_components'], regularization=a.get('regularization'),
                  factor_singular=a['factor_singular'], normalized=a['normalized'], solver=_solver(a.get('solver')))
    else:
        est = PCA(n_components=a['n_components'], normalized=a['normalized'], solver=_solver(a.get('solver')))
    _history(est, a, False)
    est.fit(m)
    dense = np.asarray(m.todense(), dtype=float)
    rows = a.get('predict_rows', [])
    pred = {str(i): _try(lambda i=i: est.predict(dense[i])) for i in rows}
    pred_all = _try(lambda: est.predict(m)) if a.get('predict_all') else None
    return dict(singular_values=_arr(est.singular_values_), left=_arr(est.singular_vectors_left_),
                right=_arr(est.singular_vectors_right_), embedding=_arr(est.embedding_),
                embedding_row=_arr(est.embedding_row_), embedding_col=_arr(est.embedding_col_),
                weights_col=_arr(est.weights_col_), mean_col=_arr(getattr(est, 'mean_col_', None)), predict=pred, predict_all=pred_all,
                solver=_captured.get('svd'))


def random_projection(a):
    m = mk_matrix(a['m'])
    est = RandomProjection(n_components=a['n_components'], alpha=a['alpha'], n_iter=a['n_iter'],
                           random_walk=a['random_walk'], regularization=a['regularization'],
                           normalized=a['normalized'], random_state=a['seed'])
    _history(est, a, True)
    est.fit(m, force_bipartite=a.get('force_bipartite', False))
    n = m.shape[0] + m.shape[1] if est.bipartite else m.shape[0]
    # the random matrix the estimator drew, reproduced by seeding identically (oracle input of the model)
    g = np.random.RandomState(a['seed']).normal(size=(n, a['n_components']))
    q, _ = np.linalg.qr(g)
    return dict(embedding=_arr(est.embedding_), embedding_row=_arr(est.embedding_row_),
                embedding_col=_arr(est.embedding_col_), bipartite=bool(est.bipartite),
                regularized=bool(est.regularized), random_matrix=_arr(q))


def louvain_embedding(a):
    _captured.clear()
    m = mk_matrix(a['m'])
    est = LouvainEmbedding(resolution=a.get('resolution', 1), modularity=a.get('modularity', 'Dugue'),
                           shuffle_nodes=a.get('shuffle_nodes', False), random_state=a.get('seed', 0),
                           isolated_nodes=a['isolated_nodes'])
    _history(est, a, True)
    try:
        est.fit(m, force_bipartite=a.get('force_bipartite', False))
    except Exception as e:  # noqa
        return dict(err=type(e).__name__, msg=str(e)[:200], louvain=_captured.get('louvain'))
    return dict(embedding=_arr(est.embedding_), embedding_row=_arr(est.embedding_row_),
                embedding_col=_arr(est.embedding_col_), labels=_arr(est.labels_),
                louvain=_captured.get('louvain'))

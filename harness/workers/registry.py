"""Registry of public algorithms, shared by the cross-cutting properties (C01, C02, C03, C16, C17).

Each entry: name -> dict(
   kind   : 'sq' (square adjacency), 'sym' (symmetric adjacency required / assumed), 'bip' (accepts biadjacency),
   run    : fn(matrix, opts) -> dict output_name -> (tag, value)
   seeds  : None | 'values' | 'labels' | 'weights'   (name stem of the fit arguments taking per-node data)
   equiv  : True if the algorithm is order-independent (C02) ...
)
Output tags: 'vec' per-node floats, 'ivec' per-node exact ints, 'labels' partition (per-node), 'scalar', 'iscalar',
'edges' set of (i,j), 'mat' per-node rows of floats, 'emb' per-node rows defined up to a sign per column,
'svals' spectrum-like vector (node independent), 'dendro', 'svg', 'raw' (compared exactly).
"""
import inspect
import typing

import numpy as np
from scipy import sparse

from sknetwork import classification as C, clustering as K, embedding as E, hierarchy as H, linkpred as L, \
    path as P, ranking as R, regression as G, topology as T, visualization as V
from sknetwork.utils import get_degrees, get_neighbors, get_weights, directed2undirected, bipartite2undirected, \
    bipartite2directed, get_membership
from sknetwork.linalg import normalize, get_laplacian

from .util import csr_edges, tolist


def _v(x):
    return ('vec', tolist(np.asarray(x, dtype=float)))


def _iv(x):
    return ('ivec', [int(y) for y in np.asarray(x).tolist()])


def _mat(x):
    if sparse.issparse(x):
        x = x.toarray()
    return ('mat', np.asarray(x, dtype=float).tolist())


def _attrs(obj, spec):
    out = {}
    for name, tag in spec.items():
        val = getattr(obj, name, None)
        if val is None:
            continue
        if tag == 'vec':
            out[name] = _v(val)
        elif tag == 'ivec':
            out[name] = _iv(val)
        elif tag == 'labels':
            out[name] = ('labels', [int(y) for y in np.asarray(val).tolist()])
        elif tag in ('mat', 'emb'):
            m = val.toarray() if sparse.issparse(val) else np.asarray(val, dtype=float)
            out[name] = (tag, m.tolist())
        elif tag == 'svals':
            out[name] = ('svals', tolist(np.asarray(val, dtype=float)))
        elif tag == 'dendro':
            out[name] = ('dendro', np.asarray(val, dtype=float).tolist())
        elif tag == 'clmat':   # cluster x cluster matrix: compared through its total and sorted diagonal
            m = val.toarray() if sparse.issparse(val) else np.asarray(val, dtype=float)
            out[name] = ('svals', sorted(np.asarray(m).ravel().tolist()))
    return out


def _seed_kwargs(stem, opts):
    """opts['seeds'] = {'all': x} | {'row': x, 'col': y}; x = None | list | {'dict': {k: v}} | {'array': [...]}"""
    s = opts.get('seeds')
    if not s:
        return {}

    def conv(x):
        if x is None:
            return None
        if isinstance(x, dict) and 'dict' in x:
            return {int(k): v for k, v in x['dict'].items()}
        if isinstance(x, dict) and 'array' in x:
            return np.array(x['array'])
        if isinstance(x, dict) and 'farray' in x:
            return np.array(x['farray'], dtype=float)
        return list(x)
    kw = {}
    if 'all' in s:
        kw[stem] = conv(s['all'])
    if 'row' in s:
        kw[stem + '_row'] = conv(s['row'])
    if 'col' in s:
        kw[stem + '_col'] = conv(s['col'])
    return kw


def _fb(opts):
    return {'force_bipartite': True} if opts.get('force_bipartite') else {}


def _est(cls, stem, spec, default_params=None, fit_extra=None):
    def run(m, opts):
        params = dict(default_params or {})
        params.update(opts.get('params', {}))
        holder = opts.get('__holder__')
        if holder is not None and 'est' in holder:
            est = holder['est']
            if opts.get('set_params'):
                est.set_params(opts['set_params'])
        else:
            est = cls(**params)
            if holder is not None:
                holder['est'] = est
        kw = _seed_kwargs(stem, opts) if stem else {}
        if 'force_bipartite' in inspect.signature(cls.fit).parameters:
            kw.update(_fb(opts))
        if fit_extra:
            kw.update(fit_extra(m, opts))
        import copy
        before = copy.deepcopy(kw)
        est.fit(m, **kw)
        out = _attrs(est, spec)
        changed = [k for k in kw if not _same(before[k], kw[k])]
        if changed:
            out['__args_modified__'] = ('raw', changed)
        return out
    return run


def _same(a, b):
    if isinstance(a, np.ndarray) or isinstance(b, np.ndarray):
        return isinstance(a, np.ndarray) and isinstance(b, np.ndarray) and a.shape == b.shape and a.dtype == b.dtype \
            and bool(np.array_equal(a, b, equal_nan=True))
    return type(a) is type(b) and a == b


RANK = {'scores_': 'vec', 'scores_row_': 'vec', 'scores_col_': 'vec'}
CLUST = {'labels_': 'labels', 'labels_row_': 'labels', 'labels_col_': 'labels', 'probs_': 'mat', 'probs_row_': 'mat',
         'probs_col_': 'mat', 'aggregate_': 'clmat'}
CLASSIF = {'labels_': 'ivec', 'labels_row_': 'ivec', 'labels_col_': 'ivec', 'probs_': 'mat', 'probs_row_': 'mat',
           'probs_col_': 'mat'}
REGR = {'values_': 'vec', 'values_row_': 'vec', 'values_col_': 'vec'}
EMB = {'embedding_': 'emb', 'embedding_row_': 'emb', 'embedding_col_': 'emb'}
DENDRO = {'dendrogram_': 'dendro', 'dendrogram_row_': 'dendro', 'dendrogram_col_': 'dendro', 'dendrogram_full_': 'dendro'}

ALGOS = {}


def reg(name, kinds, run, seeds=None, equiv=True, deterministic=True, seeded=None, exact=False, cls=None, fn=None,
        matrix_arg=None, parallel=False):
    ALGOS[name] = dict(kinds=kinds, run=run, seeds=seeds, equiv=equiv, deterministic=deterministic, seeded=seeded,
                       exact=exact, cls=cls, fn=fn, parallel=parallel)


# ---- ranking
for solver in ['piteration', 'diteration', 'bicgstab', 'lanczos', 'RH', 'push']:
    reg('PageRank[%s]' % solver, ['sq', 'bip'], _est(R.PageRank, 'weights', RANK, dict(solver=solver, n_iter=50, tol=1e-10)),
        seeds='weights', cls=R.PageRank, parallel=solver in ('diteration', 'push'))
reg('Katz', ['sq', 'bip'], _est(R.Katz, None, RANK), cls=R.Katz)
reg('HITS', ['sq', 'bip'], _est(R.HITS, None, RANK), cls=R.HITS)
reg('Closeness', ['symconn'], _est(R.Closeness, None, RANK), cls=R.Closeness)
reg('Betweenness', ['symconn'], _est(R.Betweenness, None, RANK), cls=R.Betweenness)
# ---- regression
reg('Diffusion', ['sq', 'bip'], _est(G.Diffusion, 'values', REGR), seeds='values', cls=G.Diffusion)
reg('Dirichlet', ['sq', 'bip'], _est(G.Dirichlet, 'values', REGR), seeds='values', cls=G.Dirichlet)
# ---- classification
reg('DiffusionClassifier', ['sq', 'bip'], _est(C.DiffusionClassifier, 'labels', CLASSIF), seeds='labels', cls=C.DiffusionClassifier)
reg('PageRankClassifier', ['sq', 'bip'], _est(C.PageRankClassifier, 'labels', CLASSIF), seeds='labels', cls=C.PageRankClassifier)
reg('Propagation', ['sq', 'bip'], _est(C.Propagation, 'labels', CLASSIF, dict(n_iter=10)), seeds='labels',
    cls=C.Propagation, equiv=False)
reg('NNClassifier', ['sq', 'bip'], _est(C.NNClassifier, 'labels', CLASSIF), seeds='labels', cls=C.NNClassifier, equiv=False)
# non-default weighted=False: the branch that ignores the edge weights (seed C01_6 rewrote the caller's weights there)
reg('Propagation[unweighted]', ['sq', 'bip'], _est(C.Propagation, 'labels', CLASSIF, dict(n_iter=10, weighted=False)), seeds='labels',
    cls=C.Propagation, equiv=False)
# ---- clustering
for mod in ['dugue', 'newman', 'potts']:
    reg('Louvain[%s]' % mod, ['sq', 'bip'], _est(K.Louvain, None, CLUST, dict(modularity=mod)), cls=K.Louvain, equiv=False,
        seeded='random_state')
    reg('Leiden[%s]' % mod, ['sq', 'bip'], _est(K.Leiden, None, CLUST, dict(modularity=mod)), cls=K.Leiden, equiv=False,
        seeded='random_state', deterministic=False)
reg('PropagationClustering', ['sq', 'bip'], _est(K.PropagationClustering, None, CLUST), cls=K.PropagationClustering, equiv=False)
reg('PropagationClustering[unweighted]', ['sq', 'bip'], _est(K.PropagationClustering, None, CLUST, dict(weighted=False)),
    cls=K.PropagationClustering, equiv=False)
reg('KCenters', ['sq', 'bip'], _est(K.KCenters, None, CLUST, dict(n_clusters=2)), cls=K.KCenters, equiv=False, deterministic=False)
# ---- hierarchy
reg('Paris', ['sym', 'bip'], _est(H.Paris, None, DENDRO), cls=H.Paris, equiv=False)
reg('LouvainHierarchy', ['sym', 'bip'], _est(H.LouvainHierarchy, None, DENDRO), cls=H.LouvainHierarchy, equiv=False, seeded='random_state')
reg('LouvainIteration', ['sym', 'bip'], _est(H.LouvainIteration, None, DENDRO), cls=H.LouvainIteration, equiv=False, seeded='random_state')
# ---- embedding
SPEC = dict(EMB)
SPEC.update({'eigenvalues_': 'svals'})
reg('Spectral', ['symconn', 'sym', 'bip'], _est(E.Spectral, None, SPEC, dict(n_components=2)), cls=E.Spectral)
SV = dict(EMB)
SV.update({'singular_values_': 'svals'})
reg('SVD', ['sq', 'bip'], _est(E.SVD, None, SV, dict(n_components=2)), cls=E.SVD)
reg('GSVD', ['sq', 'bip'], _est(E.GSVD, None, SV, dict(n_components=2)), cls=E.GSVD)
reg('PCA', ['sq', 'bip'], _est(E.PCA, None, SV, dict(n_components=2)), cls=E.PCA)
reg('RandomProjection', ['sq', 'bip'], _est(E.RandomProjection, None, {'embedding_': 'mat', 'embedding_row_': 'mat', 'embedding_col_': 'mat'},
                                             dict(n_components=2, random_state=0)), cls=E.RandomProjection, equiv=False, seeded='random_state')
reg('LouvainEmbedding', ['sq', 'bip'], _est(E.LouvainEmbedding, None, {'embedding_': 'mat', 'embedding_row_': 'mat', 'embedding_col_': 'mat'}),
    cls=E.LouvainEmbedding, equiv=False, seeded='random_state')
reg('Spring', ['sym'], _est(E.Spring, None, {'embedding_': 'mat'}, dict(n_iter=5),
                             fit_extra=lambda m, o: {'position_init': np.array(o['pos_init'], dtype=float)} if o.get('pos_init') else {}),
    cls=E.Spring, equiv=False, seeds='pos_init')
reg('ForceAtlas', ['sym'], _est(E.ForceAtlas, None, {'embedding_': 'mat'}, dict(n_iter=5),
                                 fit_extra=lambda m, o: {'pos_init': np.array(o['pos_init'], dtype=float)} if o.get('pos_init') else {}),
    cls=E.ForceAtlas, equiv=False, seeds='pos_init')
# ---- gnn
def _gnn(m, opts):
    from sknetwork.gnn import GNNClassifier
    n = m.shape[0]
    feats = np.array(opts['features'], dtype=float) if opts.get('features') else np.eye(n)
    kw = _seed_kwargs('labels', opts)
    lab = kw.get('labels')
    if isinstance(lab, dict):
        arr = -np.ones(n, dtype=int)
        for k, v in lab.items():
            arr[k] = v
        lab = arr
    lab = np.asarray(lab, dtype=int)
    n_classes = max(int(lab.max()) + 1, 3)
    params = dict(dims=[4, n_classes], verbose=False)
    params.update(opts.get('params', {}))
    rs = params.pop('random_state', None)
    if params.pop('explicit_layers', False):
        # layers given as objects, messages passed along the raw adjacency (normalization 'none') plus self-embeddings
        from sknetwork.gnn.layer import Convolution
        params = dict(layers=[Convolution('conv', 4, normalization='none'),
                              Convolution('conv', n_classes, normalization='none', activation='softmax', loss='CrossEntropy')],
                      verbose=False)
    holder = opts.get('__holder__')
    if holder is not None and 'est' in holder:
        gnn = holder['est']
    else:
        gnn = GNNClassifier(**params)
        if holder is not None:
            holder['est'] = gnn
    f0, l0 = feats.copy(), lab.copy()
    gnn.fit(m, feats, lab, n_epochs=15, random_state=rs, reinit=bool(holder))
    out = {'labels_': _iv(gnn.labels_), 'embedding_': _mat(gnn.embedding_)}
    changed = [k for k, a, b in (('features', f0, feats), ('labels', l0, lab)) if not _same(a, b)]
    if changed:
        out['__args_modified__'] = ('raw', changed)
    return out


reg('GNNClassifier', ['sym'], _gnn, seeds='labels', equiv=False, seeded='random_state', cls=None, fn=None)
# GraphSAGE layers with a sample size below most degrees: the neighbour sampler rewrites / prunes a working copy of the
# adjacency at every epoch (seed C01_5: a non-copying constructor made that working copy the caller's own matrix)
reg('GNNClassifier[sage]', ['sym'],
    lambda m, o: _gnn(m, dict(o, params=dict(o.get('params', {}), layer_types='Sage', sample_sizes=1))),
    seeds='labels', equiv=False, seeded='random_state', cls=None, fn=None)
# layers passed as objects, without normalisation of the adjacency: add_self_loops then acts on the caller's own entry type
# (seed C01_7: on a bool matrix a node with a self-loop kept weight 1 where the int / float matrix has 2)
reg('GNNClassifier[layers]', ['sym'],
    lambda m, o: _gnn(m, dict(o, params=dict(o.get('params', {}), explicit_layers=True))),
    seeds='labels', equiv=False, seeded='random_state', cls=None, fn=None)
# ---- link prediction
reg('NNLinker', ['sq', 'bip'], _est(L.NNLinker, None, {'links_': 'mat'}, dict(n_neighbors=3)), cls=L.NNLinker, equiv=False)


# ---- functions
def _fn(f, tagger, **fixed):
    def run(m, opts):
        kw = dict(fixed)
        kw.update(opts.get('params', {}))
        return tagger(f(m, **kw))
    return run


def _dist(m, opts):
    s = opts.get('sources') or {}
    kw = {}
    for k in ('source', 'source_row', 'source_col'):
        if s.get(k) is not None:
            kw[k] = s[k]
    kw.update(_fb(opts))
    kw.update(opts.get('params', {}))
    d = P.get_distances(m, **kw)
    if isinstance(d, tuple):
        return {'distances_row': _iv(d[0]), 'distances_col': _iv(d[1])}
    return {'distances': _iv(d)}


def _sp(m, opts):
    s = opts.get('sources') or {}
    kw = {k: s[k] for k in ('source', 'source_row', 'source_col') if s.get(k) is not None}
    kw.update(_fb(opts))
    p = P.get_shortest_path(m, **kw)
    return {'path': ('edges', csr_edges(p)), 'n': ('iscalar', int(p.shape[0]))}


reg('get_distances', ['sq', 'bip'], _dist, seeds='sources', fn=P.get_distances, exact=True)
# the same graph handed over as its transpose with transpose=True (rows and columns of a rectangular biadjacency then trade places
# INSIDE the function: offsets of column sources and the split of the stacked distances must use the shape after transposition)
reg('get_distances[transpose]', ['sq', 'bip'],
    lambda m, o: _dist(sparse.csr_matrix(sparse.csr_matrix(m).T), dict(o, params=dict(o.get('params', {}), transpose=True))),
    seeds='sources', fn=P.get_distances, exact=True)
reg('get_shortest_path', ['sq', 'bip'], _sp, seeds='sources', fn=P.get_shortest_path, exact=True)
reg('breadth_first_search', ['sq'], lambda m, o: {'reached': ('raw', sorted(int(x) for x in P.breadth_first_search(m, o['sources']['source'])))},
    seeds='source1', fn=P.breadth_first_search, exact=True, equiv=False)
reg('get_dag', ['sq'], lambda m, o: {'dag': ('edges', csr_edges(P.get_dag(m, order=np.array(o['order']) if o.get('order') else None)))},
    fn=P.get_dag, exact=True, equiv=False)
reg('count_triangles', ['sym', 'sq'], _fn(T.count_triangles, lambda r: {'n': ('iscalar', int(r))}), fn=T.count_triangles, exact=True, parallel=True)
reg('count_triangles[parallel]', ['sym', 'sq'], _fn(T.count_triangles, lambda r: {'n': ('iscalar', int(r))}, parallelize=True),
    fn=T.count_triangles, exact=True, parallel=True)
reg('get_clustering_coefficient', ['sym'], _fn(T.get_clustering_coefficient, lambda r: {'c': ('scalar', float(r))}),
    fn=T.get_clustering_coefficient)
reg('count_cliques[3]', ['sym'], _fn(T.count_cliques, lambda r: {'n': ('iscalar', int(r))}, clique_size=3), fn=T.count_cliques, exact=True)
reg('count_cliques[4]', ['sym'], _fn(T.count_cliques, lambda r: {'n': ('iscalar', int(r))}, clique_size=4), fn=T.count_cliques, exact=True)
reg('get_core_decomposition', ['sym'], _fn(T.get_core_decomposition, lambda r: {'core': _iv(r)}), fn=T.get_core_decomposition, exact=True)
reg('color_weisfeiler_lehman', ['sym'], _fn(T.color_weisfeiler_lehman, lambda r: {'colors': ('labels', [int(x) for x in r])}),
    fn=T.color_weisfeiler_lehman, exact=True)
reg('get_connected_components', ['sq', 'bip'],
    lambda m, o: (lambda r: {'labels': ('labels', [int(x) for x in (np.hstack(r) if isinstance(r, tuple) else r)])})(
        T.get_connected_components(m, **_fb(o), **o.get('params', {}))), fn=T.get_connected_components, exact=True)
reg('is_connected', ['sq', 'bip'], lambda m, o: {'b': ('iscalar', int(T.is_connected(m, **_fb(o), **o.get('params', {}))))},
    fn=T.is_connected, exact=True)
reg('is_bipartite', ['sym'], _fn(T.is_bipartite, lambda r: {'b': ('iscalar', int(r))}), fn=T.is_bipartite, exact=True)
reg('is_acyclic', ['sq'], _fn(T.is_acyclic, lambda r: {'b': ('iscalar', int(r))}), fn=T.is_acyclic, exact=True)
reg('get_cycles', ['sq'], _fn(T.get_cycles, lambda r: {'cycles': ('raw', sorted(sorted(int(x) for x in c) for c in r))}),
    fn=T.get_cycles, exact=True, equiv=False)
reg('get_degrees', ['sq', 'bip'], _fn(get_degrees, lambda r: {'d': _iv(r)}), fn=get_degrees, exact=True)
reg('get_weights', ['sq', 'bip'], _fn(get_weights, lambda r: {'w': _v(r)}), fn=get_weights)
reg('normalize', ['sq', 'bip'], _fn(normalize, lambda r: {'m': _mat(r)}), fn=normalize, equiv=False)
reg('get_laplacian', ['sym'], _fn(get_laplacian, lambda r: {'m': _mat(r)}), fn=get_laplacian, equiv=False)
reg('directed2undirected', ['sq'], _fn(directed2undirected, lambda r: {'m': _mat(r)}), fn=directed2undirected, equiv=False)
reg('bipartite2undirected', ['bip'], _fn(bipartite2undirected, lambda r: {'m': _mat(r)}), fn=bipartite2undirected, equiv=False)


def _modularity(m, opts):
    lab = opts.get('labels')
    kw = dict(opts.get('params', {}))
    if isinstance(lab, dict):
        return {'q': ('scalar', float(K.get_modularity(m, labels=np.array(lab['row']), labels_col=np.array(lab['col']), **kw)))}
    return {'q': ('scalar', float(K.get_modularity(m, np.array(lab), **kw)))}


reg('get_modularity', ['sq', 'bip'], _modularity, seeds='partition', fn=K.get_modularity)


def _dasgupta(m, opts):
    d = np.array(opts['dendrogram'], dtype=float)
    return {'cost': ('scalar', float(H.dasgupta_cost(m, d))), 'score': ('scalar', float(H.dasgupta_score(m, d))),
            'tsd': ('scalar', float(H.tree_sampling_divergence(m, d)))}


reg('hierarchy_metrics', ['sym'], _dasgupta, seeds='dendrogram', fn=H.dasgupta_cost)
reg('visualize_graph', ['sq'], lambda m, o: {'svg': ('svg', V.visualize_graph(m, position=np.array(o['position'], dtype=float), **o.get('params', {})))},
    seeds='position', fn=V.visualize_graph, equiv=False)
reg('visualize_bigraph', ['bip'], lambda m, o: {'svg': ('svg', V.visualize_bigraph(m, **o.get('params', {})))}, fn=V.visualize_bigraph, equiv=False)


# ---------------------------------------------------------------------------------------------
def accepts(name):
    """Documented input containers of the matrix argument, read from the CURRENT source:
    'all' (csr, csc, coo, lil, dense) when the entry point is an estimator's fit or a function that passes its matrix
    through check_format / get_adjacency(_values) (which document every SciPy format and ndarray) and np.ndarray is listed
    in the annotation; 'csr+dense' when ndarray is listed but the body does not convert; else 'csr'."""
    a = ALGOS[name]
    if name.startswith('GNNClassifier'):
        from sknetwork.gnn import GNNClassifier
        target = GNNClassifier.fit
    else:
        target = a['cls'].fit if a['cls'] is not None else a['fn']
    sig = inspect.signature(target)
    params = [p for p in sig.parameters.values() if p.name != 'self']
    ann = params[0].annotation
    s = ann if isinstance(ann, str) else repr(ann)
    if 'ndarray' not in s:
        return 'csr'
    try:
        src = inspect.getsource(target)
    except (OSError, TypeError):
        src = ''
    converts = ('check_format(' in src) or ('get_adjacency(' in src) or ('get_adjacency_values(' in src)
    if a['cls'] is not None or converts:
        return 'all'
    return 'csr+dense'


def describe(_):
    return {n: dict(kinds=a['kinds'], seeds=a['seeds'], equiv=a['equiv'], deterministic=a['deterministic'],
                    seeded=a['seeded'], exact=a['exact'], accepts=accepts(n), parallel=a['parallel'],
                    has_force=(not n.startswith('GNNClassifier') and 'force_bipartite' in inspect.signature(a['cls'].fit if a['cls'] is not None else a['fn']).parameters),
                    init_params=(sorted(p for p in inspect.signature(a['cls'].__init__).parameters if p != 'self') if a['cls'] is not None else []))
            for n, a in ALGOS.items()}


def run(args):
    from .util import mk_matrix
    m = mk_matrix(args['m'])
    snap = _snapshot(m) if args.get('snapshot') else None
    out = ALGOS[args['name']]['run'](m, args.get('opts', {}))
    res = {k: [t, v] for k, (t, v) in out.items()}
    if snap is not None:
        res['__modified__'] = ['raw', _snapshot(m) != snap]
    return res


def run_seq(args):
    """Fit history on ONE estimator object: args = {'name', 'steps': [{'m':…, 'opts':…}, …]}; returns last outputs.
    Only for class-based entries; the estimator is constructed once with the params of the LAST step."""
    from .util import mk_matrix
    a = ALGOS[args['name']]
    res = None
    holder = {}
    for step in args['steps']:
        m = mk_matrix(step['m'])
        opts = dict(step.get('opts', {}))
        opts['__holder__'] = holder
        try:
            res = a['run'](m, opts)
        except Exception:
            if step is args['steps'][-1]:
                raise
    return {k: [t, v] for k, (t, v) in res.items()}


def _snapshot(m):
    if sparse.issparse(m):
        c = m.tocoo()
        return [type(m).__name__, list(m.shape), str(m.dtype), sorted(zip(c.row.tolist(), c.col.tolist(), np.asarray(c.data, dtype=float).tolist()))]
    return ['ndarray', list(m.shape), str(m.dtype), np.asarray(m, dtype=float).tolist()]


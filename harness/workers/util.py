"""Helpers available to worker-side code (runs with the scratch build of /repo on PYTHONPATH)."""
import numpy as np
from scipy import sparse


def mk_matrix(spec):
    """spec: {'shape':[r,c], 'coo':[[i,j,w],...], 'fmt': csr|csc|coo|lil|dense|csr_unsorted|csr_shuffled, 'dtype': bool|int|float}"""
    r, c = spec['shape']
    coo = spec.get('coo', [])
    dt = {'bool': bool, 'int': int, 'float': float, 'uint8': np.uint8, 'int8': np.int8, 'float32': np.float32,
          'uint16': np.uint16, 'int16': np.int16, 'int32': np.int32, 'uint32': np.uint32}[spec.get('dtype', 'int')]
    rows = np.array([e[0] for e in coo], dtype=int)
    cols = np.array([e[1] for e in coo], dtype=int)
    vals = np.array([e[2] if len(e) > 2 else 1 for e in coo]).astype(dt)
    m = sparse.csr_matrix((vals, (rows, cols)), shape=(r, c), dtype=dt)
    fmt = spec.get('fmt', 'csr')
    if fmt == 'csr':
        return m
    if fmt == 'csc':
        return m.tocsc()
    if fmt == 'coo':
        return m.tocoo()
    if fmt == 'lil':
        return m.tolil()
    if fmt == 'dense':
        return m.toarray()
    if fmt == 'csr_unsorted':
        m = m.copy()
        for i in range(r):
            a, b = m.indptr[i], m.indptr[i + 1]
            m.indices[a:b] = m.indices[a:b][::-1].copy()
            m.data[a:b] = m.data[a:b][::-1].copy()
        m.has_sorted_indices = False
        return m
    if fmt == 'csr_shuffled':
        # column indices of every row in an arbitrary order, as the renumbering idiom A[p][:, p] leaves them
        m = m.copy()
        for i in range(r):
            a, b = m.indptr[i], m.indptr[i + 1]
            q = np.random.RandomState(7919 * i + 13).permutation(b - a)
            m.indices[a:b] = m.indices[a:b][q].copy()
            m.data[a:b] = m.data[a:b][q].copy()
        m.has_sorted_indices = False
        return m
    raise ValueError(fmt)


def csr_triples(m):
    m = sparse.coo_matrix(m)
    return sorted([int(i), int(j), float(v)] for i, j, v in zip(m.row, m.col, m.data))


def csr_edges(m):
    m = sparse.coo_matrix(m)
    return sorted({(int(i), int(j)) for i, j, v in zip(m.row, m.col, m.data) if v != 0})


def tolist(x):
    if x is None:
        return None
    if isinstance(x, tuple):
        return [tolist(y) for y in x]
    return np.asarray(x).tolist()
